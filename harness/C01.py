"""C01 — results do not depend on chunking, processor, lazy/eager mode, capacity, rechunking on save, or
which intermediate data types are already stored.

The whole real Context pipeline (get_iter -> get_components -> processor -> plugins -> savers/loaders over an
in-memory frontend) is executed on symbolic source chunkings and row times; the oracle is each plugin's
function applied to the whole, unchunked run, expressed over the same symbols.
"""
import warnings

import numpy as np

from symx import core, arrays, conc
from symx.core import fresh_int, fresh_bool, assume, prove, sand, sor, snot, implies, iff, ite
from symx.run import Ob
from harness import common as H, ctx, mbox

LEVEL = "model_checking"
FUNCTIONS = [
    "strax.context.Context.get_iter", "Context.get_components", "Context._get_plugins", "Context.key_for",
    "Context._get_partial_loader_for", "Context._add_saver", "Context._target_should_be_saved", "Context.make",
    "Context.is_stored", "strax.plugins.plugin.Plugin.iter", "Plugin.do_compute", "Plugin._fix_output",
    "LoopPlugin.compute", "strax.processing.general.split_by_containment", "DownChunkingPlugin._fix_output",
    "ExhaustPlugin._fetch_chunk", "MergeOnlyPlugin", "strax.chunk.Chunk.split/concatenate/merge", "continuity_check",
    "Rechunker", "strax.processors.single_thread.SingleThreadProcessor", "PostOffice", "SaverSpy",
    "strax.processors.threaded_mailbox.ThreadedMailboxProcessor", "strax.mailbox.Mailbox", "divide_outputs",
    "strax.storage.common.Saver.save_from/save/close", "StorageBackend.loader", "StorageFrontend.find",
    "strax.utils.apply_selection",
]
BOUNDS = {
    "quick": "<=2 sources, <=3 chunks per source, <=2 rows per chunk (<=4 rows per source); templates overlap-window (3 windows) / multi-output with a consumer of both outputs / chain / "
             "same-kind merge / multi-output / loop / down-chunking / exhaust; stored subsets of the intermediate "
             "types made under a DIFFERENT symbolic chunking; processors: single-thread, threaded eager, threaded "
             "lazy under 3 canonical schedules; max_messages in {2,4}",
    "thorough": "<=4 chunks, <=5 rows; all stored subsets; schedule deviations <= 1; rechunk_on_save with small "
                "chunk_target_size",
}
ASSUMPTIONS = [
    "all time values in [0, 2^62)",
    "sources obey the laws of chunking (contiguous, sorted, positive-length rows inside their chunk; zero-duration "
    "and empty chunks allowed)",
    "payload columns are opaque ids; computed columns are linear in the times",
    "threaded runs: deterministic scheduler (one thread at a time, switches where a thread blocks), canonical "
    "policies + bounded solver-chosen deviations; all-schedule coverage rests on C05 (per-mailbox exactly-once, "
    "in-order delivery for every interleaving) plus the Kahn-network composition argument (DESIGN.md 3.2)",
    "storage = in-memory frontend subclassing the real StorageFrontend/StorageBackend/Saver (no bytes)",
]
OUTSIDE = ["max_workers > 1 (thread/process pools)", "ParallelSourcePlugin inlining", "all OS thread schedules at "
           "pipeline level", "more rows/chunks than the bound"]
STUBS = ["np constructors -> object arrays", "min/max/int shims", "Chunk.__repr__, DataKey.__repr__, progress bar",
         "strax.mailbox.threading -> deterministic scheduler (threaded runs)"]

RUN = "0"


def _setup():
    return ctx.setup()


# ---------------------------------------------------------------------------- templates
TEMPLATES = {
    # name: (sources, intermediate types that can be pre-stored, target)
    "chain": dict(sources=["src"], inter=["src", "m1"], target="f1"),
    "merge": dict(sources=["src"], inter=["m1", "m2"], target="mg"),
    "multi": dict(sources=["src"], inter=["sa", "sb"], target="mb"),
    "loop": dict(sources=["ev", "pk"], inter=["ev", "pk"], target="lp"),
    "down": dict(sources=["src"], inter=["dn"], target="md"),
    "exhaust": dict(sources=["src"], inter=["m1"], target="ex"),
    # both outputs of a multi-output plugin are needed by one consumer; one of them may be stored, the sibling recomputed
    "multi2": dict(sources=["src"], inter=["sa", "sb"], target="bo"),
    # one output of a multi-output plugin goes through an overlap-window plugin (which lags behind by its window) and
    # is joined again with the sibling output
    "lagjoin": dict(sources=["src"], inter=["sa", "sb"], target="lj"),
    # overlap-window plugin (window = the two digits: look-back, look-ahead) on disjoint rows; plugin and whole-run
    # oracle are those of C09, here inside the pipeline variations of this property (processors, stored input)
    "overlap11": dict(sources=["src"], inter=["src"], target="ov"),
    "overlap30": dict(sources=["src"], inter=["src"], target="ov"),
    "overlap03": dict(sources=["src"], inter=["src"], target="ov"),
}


def _win(template):
    return int(template[-2]), int(template[-1])


def P_both(obj, save_when=None):
    """Consumes both outputs of Split2: per sb row, val = sb.val + (1 if the same row is among the kept sa rows)."""
    import strax

    class Both(strax.Plugin):
        provides = ("bo",)
        depends_on = ("sa", "sb")
        data_kind = "k_sb"
        dtype = ctx.dt(ctx.VAL, obj)

        def compute(self, **kw):
            a, b = kw["k_sa"], kw["k_sb"]
            r = ctx.new_arr(ctx.VAL, len(b), obj)
            for q in range(len(b)):
                r["time"][q], r["endtime"][q], r["id"][q] = b["time"][q], b["endtime"][q], b["id"][q]
                r["val"][q] = b["val"][q] + sum(1 for p in range(len(a)) if int(a["id"][p]) == int(b["id"][q]))
            return r

    if save_when is not None:
        Both.save_when = save_when
    return Both


def P_lagjoin(obj, save_when=None):
    """depends_on = (sa, ov): per kept row (sa), val = number of rows of the lagging branch (ov) with the same id."""
    import strax

    class LagJoin(strax.Plugin):
        provides = ("lj",)
        depends_on = ("sa", "ov")
        data_kind = "k_sa"
        dtype = ctx.dt(ctx.VAL, obj)

        def compute(self, **kw):
            a, b = kw["k_sa"], kw["k_ov"]
            r = ctx.new_arr(ctx.VAL, len(a), obj)
            for q in range(len(a)):
                r["time"][q], r["endtime"][q], r["id"][q] = a["time"][q], a["endtime"][q], a["id"][q]
                r["val"][q] = sum(1 for p in range(len(b)) if int(b["id"][p]) == int(a["id"][q]))
            return r

    if save_when is not None:
        LagJoin.save_when = save_when
    return LagJoin


def build_plugins(template, layouts, obj, thr, save_when=None, rechunk=True):
    """-> list of plugin classes for the template, reading sources from `layouts`."""
    P = []
    kw = dict(save_when=save_when)
    if template == "chain":
        P.append(ctx.P_source("src", "ksrc", layouts["src"], obj, **kw))
        P.append(ctx.P_map("m1", "src", obj, rechunk_on_save=rechunk, **kw))
        P.append(ctx.P_filter("f1", "m1", obj, thr, rechunk_on_save=rechunk, **kw))
    elif template == "merge":
        P.append(ctx.P_source("src", "ksrc", layouts["src"], obj, **kw))
        P.append(ctx.P_map("m1", "src", obj, kind="kk", rechunk_on_save=rechunk, **kw))
        P.append(ctx.P_map("m2", "src", obj, kind="kk", offset=7, rechunk_on_save=rechunk, **kw))
        P.append(ctx.P_merge("mg", ["m1", "m2"], "kk", obj, **kw))
    elif template == "multi":
        P.append(ctx.P_source("src", "ksrc", layouts["src"], obj, **kw))
        P.append(ctx.P_split2(["sa", "sb"], "src", obj, thr, rechunk_on_save=rechunk, **kw))
        P.append(ctx.P_map("mb", "sb", obj, offset=3, **kw))
    elif template == "lagjoin":
        from harness import C09

        P.append(ctx.P_source("src", "ksrc", layouts["src"], obj, **kw))
        P.append(ctx.P_split2(["sa", "sb"], "src", obj, thr, rechunk_on_save=rechunk, **kw))
        P.append(C09.P_overlap("ov", "sb", obj, 1, 1))
        P.append(P_lagjoin(obj, **kw))
    elif template == "multi2":
        P.append(ctx.P_source("src", "ksrc", layouts["src"], obj, **kw))
        P.append(ctx.P_split2(["sa", "sb"], "src", obj, thr, rechunk_on_save=rechunk, **kw))
        P.append(P_both(obj, **kw))
    elif template == "loop":
        P.append(ctx.P_source("ev", "kev", layouts["ev"], obj, **kw))
        P.append(ctx.P_source("pk", "kpk", layouts["pk"], obj, **kw))
        P.append(ctx.P_loop("lp", "ev", "pk", "kev", "kpk", obj))
    elif template == "down":
        P.append(ctx.P_source("src", "ksrc", layouts["src"], obj, **kw))
        P.append(ctx.P_down("dn", "src", obj))
        P.append(ctx.P_map("md", "dn", obj, offset=1, **kw))
    elif template == "exhaust":
        P.append(ctx.P_source("src", "ksrc", layouts["src"], obj, **kw))
        P.append(ctx.P_map("m1", "src", obj, rechunk_on_save=rechunk, **kw))
        P.append(ctx.P_exhaust("ex", "m1", obj))
    elif template.startswith("overlap"):
        from harness import C09

        wl, wr = _win(template)
        P.append(ctx.P_source("src", "ksrc", layouts["src"], obj, **kw))
        P.append(C09.P_overlap("ov", "src", obj, wl, wr))
    else:
        raise ValueError(template)
    return P


def oracle(template, rows, thr):
    """Whole-run result: list of dicts (id, fields) over the same symbols.  rows: {source: [(t,e,id)]}."""
    if template == "chain":
        return [dict(id=i, time=t, endtime=e, keep=(e - t >= thr)) for t, e, i in rows["src"]]
    if template == "merge":
        return [dict(id=i, time=t, endtime=e, val2=(e - t + 7) + i) for t, e, i in rows["src"]]
    if template == "multi":
        return [dict(id=i, time=t, endtime=e, val=(e - t) + 3) for t, e, i in rows["src"]]
    if template == "multi2":
        return [dict(id=i, time=t, endtime=e, val=(e - t) + ite(e - t >= thr, 1, 0)) for t, e, i in rows["src"]]
    if template == "lagjoin":
        return [dict(id=i, time=t, endtime=e, keep=(e - t >= thr), val=1) for t, e, i in rows["src"]]
    if template == "loop":
        out = []
        for t, e, i in rows["ev"]:
            n = core.ssum([ite(sand(t <= pt, pe <= e), 1, 0) for pt, pe, _ in rows["pk"]], 0)
            out.append(dict(id=i, time=t, endtime=e, n=n))
        return out
    if template == "down":
        return [dict(id=i, time=t, endtime=e, val=(e - t) + 1) for t, e, i in rows["src"]]
    if template == "exhaust":
        return [dict(id=i, time=t, endtime=e, tot=len(rows["src"])) for t, e, i in rows["src"]]
    if template.startswith("overlap"):
        wl, wr = _win(template)
        return [dict(id=i, time=t, endtime=e,
                     n=core.ssum([ite(sand(e2 > t - wl, t2 < e + wr), 1, 0) for (t2, e2, i2) in rows["src"] if i2 != i], 0))
                for t, e, i in rows["src"]]


def check_result(template, chunks, rows, thr, S, E, label):
    ctx.check_tiling(chunks, S, E, label)
    data = [c.data for c in chunks]
    got = []
    for d in data:
        for q in range(len(d)):
            got.append({f: d[f][q] for f in d.dtype.names})
    want = oracle(template, rows, thr)
    if template in ("chain", "lagjoin"):
        ids = [int(g["id"]) for g in got]
        prove(ids == sorted(set(ids)), label + ":rows duplicated or out of order")
        for w in want:
            if w["id"] in ids:
                prove(w["keep"], label + f":row {w['id']} delivered but filtered out by the whole-run computation")
            else:
                prove(snot(w["keep"]), label + f":row {w['id']} lost")
        for g in got:
            w = want[[x["id"] for x in want].index(int(g["id"]))]
            prove(sand(g["time"] == w["time"], g["endtime"] == w["endtime"]), label + ":row times changed")
            if template == "lagjoin":
                prove(g["val"] == w["val"], label + f":field val of row {w['id']} differs from the whole-run computation")
        return ids
    ids = [int(g["id"]) for g in got]
    prove(ids == [w["id"] for w in want], label + f":rows differ from the whole-run result: {ids}")
    for g, w in zip(got, want):
        for f, v in w.items():
            if f != "id":
                prove(g[f] == v, label + f":field {f} of row {w['id']} differs from the whole-run computation")
    return ids


# ---------------------------------------------------------------------------- the run
def run_pipeline(template, layouts, obj, thr, proc, stored_layouts=None, stored=(), lazy=True, max_messages=4,
                 policy="lowest", dev=0, rechunk=True, tsm=None):
    import strax

    MemFrontend, _, _ = ctx.make_storage_classes()
    fe = MemFrontend()
    tpl = TEMPLATES[template]
    ctx.COUNTS.clear()
    if stored:
        # a previous session made some intermediate types under ANOTHER chunking of the same run
        PA = build_plugins(template, stored_layouts, obj, thr, save_when=strax.SaveWhen.EXPLICIT, rechunk=rechunk)
        if tsm is not None:
            for p in PA:
                p.chunk_target_size_mb = tsm
        stA = ctx.make_context(PA, storage=[fe])
        for d in stored:
            stA.make(RUN, d, save=(d,), processor="single_thread", progress_bar=False)
            prove(stA.is_stored(RUN, d), f"pipeline:pre-made {d} not stored")
    PB = build_plugins(template, layouts, obj, thr, save_when=strax.SaveWhen.NEVER if stored else None, rechunk=rechunk)
    ctx.COUNTS.clear()
    opts = dict(allow_lazy=lazy, max_messages=max_messages, timeout=1)
    st = ctx.make_context(PB, storage=[fe], **opts)
    if proc == "single":
        chunks = list(st.get_iter(RUN, tpl["target"], processor="single_thread", progress_bar=False))
        info = None
    else:
        pol = mbox.deviating_policy(conc.POLICIES[policy], dev)
        with mbox.SchedRun(pol) as s:
            chunks = list(st.get_iter(RUN, tpl["target"], processor="threaded_mailbox", progress_bar=False))
            s.finish()
            prove(s.deadlock is None, f"pipeline:deadlock {s.deadlock}")
            prove(all(t.exc is None for t in s.tasks), f"pipeline:thread raised {[t.exc for t in s.tasks if t.exc]}")
        info = list(s.trace)
    return chunks, info, fe


def sym_pipeline(template, layout, proc="single", stored=(), stored_layout=None, lazy=True, max_messages=4,
                 policy="lowest", dev=0, rechunk=True, pin=False):
    """layout: {source: rows-per-chunk list}.  stored: intermediate types pre-made under stored_layout."""
    tpl = TEMPLATES[template]
    S = fresh_int("S", 0, H.T_MAX)
    E = fresh_int("E", 0, H.T_MAX)
    thr = fresh_int("thr", 0, H.T_MAX)
    layouts, st_layouts, rows = {}, {}, {}
    for src in tpl["sources"]:
        disj = (template == "loop" and src == "ev") or template.startswith("overlap") or template == "lagjoin"
        L = ctx.sym_layout(f"{src}_", layout[src], S, disjoint=disj, E=E)
        if pin:
            # pinned data (one path): the configuration is about the wiring / schedule, not about row placement
            assume(sand(S == 0, thr == 5, E == 100 * len(layout[src])))
            for j in range(len(layout[src])):
                assume(L.bounds[j + 1] == 100 * (j + 1))
            for q, (t, e, i) in enumerate(L.rows):
                cj = [j for j, ch in enumerate(L.chunks) if any(r[2] == i for r in ch)][0]
                assume(sand(t == 100 * cj + 10 + 20 * q, e == 100 * cj + 20 + 20 * q))
        layouts[src] = L
        rows[src] = L.rows
        if stored:
            spec = (stored_layout or {}).get(src) or [sum(layout[src])]
            # same rows, other boundaries
            b = [S] + [fresh_int(f"{src}_sb{j}", 0, H.T_MAX) for j in range(1, len(spec))] + [E]
            chunks, k = [], 0
            for j, nr in enumerate(spec):
                assume(b[j + 1] >= b[j])
                cr = L.rows[k:k + nr]
                for (t, e, i) in cr:
                    assume(sand(t >= b[j], e <= b[j + 1]))
                chunks.append(cr)
                k += nr
            st_layouts[src] = ctx.Layout(b, chunks)
    chunks, info, fe = run_pipeline(template, layouts, True, thr, proc, st_layouts, tuple(stored), lazy, max_messages,
                                    policy, dev, rechunk)
    return check_result(template, chunks, rows, thr, S, E, "pipeline")


def nat_pipeline(params, model):
    """Replay on the native code (compiled numba, int64 arrays, real threads)."""
    import strax

    template = params["template"]
    tpl = TEMPLATES[template]
    S, E, thr = model["S"], model["E"], model["thr"]
    layouts, st_layouts, rows = {}, {}, {}
    stored = tuple(params.get("stored", ()))
    for src in tpl["sources"]:
        L = ctx.conc_layout(model, f"{src}_", params["layout"][src], S, E=E)
        layouts[src], rows[src] = L, L.rows
        if stored:
            spec = (params.get("stored_layout") or {}).get(src) or [sum(params["layout"][src])]
            b = [S] + [model[f"{src}_sb{j}"] for j in range(1, len(spec))] + [E]
            chunks, k = [], 0
            for nr in spec:
                chunks.append(L.rows[k:k + nr]); k += nr
            st_layouts[src] = ctx.Layout(b, chunks)
    proc = params.get("proc", "single")
    MemFrontend, _, _ = ctx.make_storage_classes()
    fe = MemFrontend()
    with warnings.catch_warnings():
        warnings.simplefilter("ignore")
        try:
            if stored:
                PA = build_plugins(template, st_layouts, False, thr, save_when=strax.SaveWhen.EXPLICIT,
                                   rechunk=params.get("rechunk", True))
                stA = ctx.make_context(PA, storage=[fe])
                for d in stored:
                    stA.make(RUN, d, save=(d,), processor="single_thread", progress_bar=False)
            PB = build_plugins(template, layouts, False, thr, save_when=strax.SaveWhen.NEVER if stored else None,
                               rechunk=params.get("rechunk", True))
            st = ctx.make_context(PB, storage=[fe], allow_lazy=params.get("lazy", True),
                                  max_messages=params.get("max_messages", 4), timeout=20)
            chunks = list(st.get_iter(RUN, tpl["target"], progress_bar=False,
                                      processor="single_thread" if proc == "single" else "threaded_mailbox"))
        except Exception as e:
            return {"ok": False, "detail": f"native pipeline raised {type(e).__name__}: {e}"}
    label = core.concrete_run(lambda: check_result(template, chunks, rows, thr, S, E, "pipeline"), model)
    return {"ok": label is None, "detail": label or "matches the whole-run result",
            "label": label}


def sym_twin():
    sym_pipeline("chain", {"src": [1, 1]})
    prove(False, "twin:reachable")


# ---------------------------------------------------------------------------- grids
def _grid(tier):
    g = []
    lay1 = [[1], [2], [1, 1], [2, 1], [0, 1], [1, 0, 1], [1, 1, 1]] if tier == "quick" else \
        [[1], [2], [3], [1, 1], [2, 1], [1, 2], [0, 2], [2, 0], [1, 1, 1], [2, 1, 1], [1, 0, 2], [2, 2], [1, 1, 1, 1]]
    for tp in ("chain", "merge", "multi", "down", "exhaust"):
        for l in lay1:
            g.append(dict(template=tp, layout={"src": l}))
    lay2 = [([1], [1]), ([1, 1], [2]), ([2], [1, 1]), ([1, 1], [1, 1]), ([1], [1, 1, 1])]
    if tier != "quick":
        lay2 += [([2, 1], [1, 2]), ([1, 1, 1], [2, 1]), ([2], [2, 2])]
    for le, lp in lay2:
        g.append(dict(template="loop", layout={"ev": le, "pk": lp}))
    ovl = (("overlap11", ([1, 1], [2, 1])), ("overlap30", ([2, 1],)), ("overlap03", ([1, 1],))) if tier == "quick" else \
        (("overlap11", ([1, 1], [2, 1], [1, 2], [1, 1, 1])), ("overlap30", ([2, 1], [1, 2])), ("overlap03", ([1, 1], [2, 1])))
    for tp, lays in ovl:
        for l in lays:
            g.append(dict(template=tp, layout={"src": l}))
    for l in ([1, 1], [2, 1]):
        g.append(dict(template="multi2", layout={"src": l}))
    for stored, lay, slay in ((["sa"], [1, 1], [2]), (["sb"], [2, 1], [1, 2])):
        g.append(dict(template="multi2", layout={"src": lay}, stored=stored, stored_layout={"src": slay}))
        for lazy in (True, False):
            g.append(dict(template="multi2", layout={"src": lay}, stored=stored, stored_layout={"src": slay},
                          proc="threaded", lazy=lazy, policy="rr", max_messages=4))
    g.append(dict(template="multi2", layout={"src": [1, 1]}, proc="threaded", lazy=True, policy="lowest"))
    g.append(dict(template="lagjoin", layout={"src": [1, 1, 1]}, pin=True))
    for lazy in (True, False):
        for pol in ("rr", "lowest"):
            g.append(dict(template="lagjoin", layout={"src": [1, 1, 1]}, proc="threaded", lazy=lazy, policy=pol, pin=True))
    g.append(dict(template="overlap11", layout={"src": [2, 1]}, stored=["src"], stored_layout={"src": [1, 2]}))
    g.append(dict(template="overlap11", layout={"src": [1, 1]}, proc="threaded", lazy=True, policy="rr"))
    g.append(dict(template="overlap30", layout={"src": [2, 1]}, proc="threaded", lazy=False, policy="lowest", max_messages=2))
    # stored subsets made under a different chunking
    sub = [("chain", ["m1"], [2, 1], [1, 2]), ("chain", ["src"], [1, 1, 1], [3]), ("chain", ["src", "m1"], [2, 1], [1, 1, 1]),
           ("merge", ["m1"], [1, 1], [2]), ("merge", ["m2"], [2, 1], [1, 2]), ("merge", ["m1", "m2"], [1, 1, 1], [2, 1]),
           ("multi", ["sb"], [1, 1], [2]), ("multi", ["sa"], [2, 1], [1, 2]), ("exhaust", ["m1"], [1, 1], [2])]
    for tp, stored, lay, slay in sub:
        g.append(dict(template=tp, layout={"src": lay}, stored=stored, stored_layout={"src": slay}))
    g.append(dict(template="loop", layout={"ev": [1, 1], "pk": [2]}, stored=["pk"], stored_layout={"pk": [1, 1]}))
    # threaded processor under the scheduler
    thr_lays = [[1, 1], [2, 1]] if tier == "quick" else [[1, 1], [2, 1], [1, 1, 1], [1, 0, 1]]
    for tp in ("chain", "merge", "multi"):
        for l in thr_lays:
            for lazy in (True, False):
                for pol in (("lowest", "highest", "rr") if tier != "quick" or l == [1, 1] else ("rr",)):
                    g.append(dict(template=tp, layout={"src": l}, proc="threaded", lazy=lazy, policy=pol,
                                  max_messages=2 if not lazy else 4, dev=0 if tier == "quick" else 1))
    g.append(dict(template="loop", layout={"ev": [1, 1], "pk": [2]}, proc="threaded", lazy=True, policy="rr"))
    g.append(dict(template="chain", layout={"src": [1, 1]}, proc="threaded", lazy=True, policy="lowest", stored=["m1"],
                  stored_layout={"src": [2]}))
    return g


OBLIGATIONS = [
    Ob("pipeline", sym_pipeline, _grid, nat_pipeline, setup=_setup, witnesses=2,
       doc="get_iter result == whole-run oracle, chunks tile the run, for every chunking / processor / stored subset"),
    Ob("twin", sym_twin, lambda tier: [dict()], None, setup=_setup, expect_cex=True),
]


MUTANTS = [
    dict(name="original F-C01: threaded processor sends every output of a multi-output plugin, also a loaded one",
         file="strax/processors/threaded_mailbox.py",
         old="                outputs = tuple(k for k in p.provides if k not in components.loaders)",
         new="                outputs = tuple(p.provides)"),
    dict(name="overlap window: input cache cut from invalid_beyond", file="strax/plugins/overlap_window_plugin.py",
         old="        cache_inputs_beyond = int(self.sent_until - 2 * window_size[0] - 1)",
         new="        cache_inputs_beyond = int(invalid_beyond - 2 * window_size[0] - 1)"),
    dict(name="loop plugin containment strict", file="strax/processing/general.py",
         old="        if b_starts[b_i] <= a_starts[a_i] and a_ends[a_i] <= b_ends[b_i]:",
         new="        if b_starts[b_i] < a_starts[a_i] and a_ends[a_i] <= b_ends[b_i]:"),
    dict(name="rechunker forgets its cache at the end", file="strax/chunk.py",
         old="            result = self.cache\n            self.cache = None\n            return [result]", new="            self.cache = None\n            return []"),
    dict(name="loader yields chunks in reverse metadata order for two-chunk data", file="strax/utils.py",
         old="    for c in md[\"chunks\"]:\n        _n_from = _n_to", new="    for c in (md[\"chunks\"][::-1] if len(md[\"chunks\"]) == 2 else md[\"chunks\"]):\n        _n_from = _n_to"),
    dict(name="exhaust plugin stops after the first extra chunk", file="strax/plugins/exhaust_plugin.py",
         old="        while super()._fetch_chunk(d, iters, check_end_not_before=check_end_not_before):\n            pass",
         new="        super()._fetch_chunk(d, iters, check_end_not_before=check_end_not_before)"),
    dict(name="divide_outputs skips the last result dict", file="strax/mailbox.py",
         old="            try:\n                for d, x in result.items():\n                    if d in mailboxes:",
         new="            try:\n                for d, x in list(result.items())[:max(1, len(result) - (i == 1))]:\n                    if d in mailboxes:"),
]
