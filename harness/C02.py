"""C02 — stored data is reused only under an identical lineage (no stale reads).

The real Context registry / config / plugin cache / lineage / key code runs with SYMBOLIC option values, option
defaults and plugin versions; deterministic_hash is an injective token (sha1 assumed collision-free on lineages) whose
equality is structural.  After a history of operations the context must agree, for keys and values, with a brand-new
context that has the final registry and config and an empty store.
"""
import warnings

import numpy as np

from symx import core, arrays
from symx.core import fresh_int, fresh_bool, assume, prove, sand, sor, snot, implies, iff, ite
from symx.run import Ob
from harness import common as H, ctx

LEVEL = "model_checking"
FUNCTIONS = ["strax.context.Context.register", "Context.set_config", "Context.new_context", "Context._context_hash",
             "Context._plugins_are_cached", "Context._plugins_to_cache", "Context._get_plugins", "Context.__get_plugin",
             "Context.__add_lineage_to_plugin", "Context._set_plugin_config", "Context.key_for", "Context.is_stored",
             "Context.get_array", "Context.make", "strax.config.Option.validate/get_default", "strax.utils.hashablize", "strax.utils.deterministic_hash",
             "strax.utils.NumpyJSONEncoder",
             "strax.storage.common.DataKey", "StorageFrontend.find/_matches/_filter_lineage"]
BOUNDS = {
    "quick": "graph src(option a tracked, option u untracked) -> m1(option b tracked, shares a) -> t1; histories of <=3 "
             "operations from {set_config tracked, set_config untracked, register same-named class with another "
             "default / version, new_context, make, get_array, get_array from a second context on the same store}; "
             "option values, defaults and versions are unconstrained symbolic integers; fuzzy matching on a type / option; "
             "real deterministic_hash on 53 typed option values (all ordered pairs x 3 wrappings) and across fresh "
             "interpreters with PYTHONHASHSEED 0..3",
    "thorough": "histories of <=4 operations, child-option template",
}
ASSUMPTIONS = ["sha1 is collision-free on lineages: deterministic_hash is replaced by an injective structural token (the "
               "real hashablize still runs)", "option values / defaults / versions are integers (symbolic); plugin "
               "versions are compared as opaque values", "use_per_run_defaults=False (plugin cache active)"]
OUTSIDE = ["option values outside the 53-value typed universe of the hashfn / hashseed obligations (json and sha1 are C "
           "code: the real hash function is decided on concrete values, the solver picks pair / wrapping / seeds)",
           "DataDirectory string matching of "
           "run-type-hash directory names (exercised with concrete lineages in C03/C04)", "default_by_run options"]
STUBS = ["strax.deterministic_hash -> injective token", "token-keyed in-memory frontend", "np/int/min/max shims"]
RUN = "0"
LAY = ctx.Layout([0, 10, 20], [[(1, 2, 0)], [(11, 12, 1)]])


# ---------------------------------------------------------------------------- injective hash token
def struct_eq(a, b):
    """Structural equality of two hashablized structures -> bool / SymBool (no forking)."""
    if core.is_sym(a) or core.is_sym(b):
        return a == b
    if isinstance(a, (tuple, list)) and isinstance(b, (tuple, list)):
        if len(a) != len(b):
            return False
        return sand(*[struct_eq(x, y) for x, y in zip(a, b)]) if a else True
    if isinstance(a, dict) and isinstance(b, dict):
        if set(a) != set(b):
            return False
        return sand(*[struct_eq(a[k], b[k]) for k in a]) if a else True
    if isinstance(a, (tuple, list, dict)) != isinstance(b, (tuple, list, dict)):
        return False
    return a == b


class Tok(str):
    def __new__(cls, struct):
        self = super().__new__(cls, "tok")
        self.struct = struct
        return self

    def __eq__(self, o):
        return isinstance(o, Tok) and bool(struct_eq(self.struct, o.struct))

    def __ne__(self, o):
        return not self.__eq__(o)

    def __hash__(self):
        return 7


def _setup():
    import strax
    import strax.utils

    inj = ctx.setup()

    def dh(thing, length=10):
        return Tok(strax.hashablize(thing))

    inj.set(strax, "deterministic_hash", dh)
    inj.inject(strax.utils, deterministic_hash=dh)
    import strax.storage.common as sc

    if "json" in sc.__dict__:
        inj.inject(sc, json=_LineageJson())  # StorageFrontend._matches normalises lineages through json
    return inj


class _LineageJson:
    """json stand-in for lineages holding proxies: dumps/loads do to the CONTAINERS and KEYS what json does (tuples ->
    lists, dictionary keys -> strings), leaves (possibly symbolic) pass through"""

    @staticmethod
    def dumps(x, **kw):
        return ("__lineage__", x)

    @staticmethod
    def loads(p, **kw):
        def conv(x):
            if isinstance(x, dict):
                return {(k if isinstance(k, str) else repr(k) if core.is_sym(k) else str(k).lower() if isinstance(k, bool)
                         else str(k)): conv(v) for k, v in x.items()}
            if isinstance(x, (tuple, list)):
                return [conv(v) for v in x]
            return x
        return conv(p[1])


def _jsonish(x):
    """what json.loads(json.dumps(x)) does to the containers of a lineage (leaves, possibly symbolic, untouched)"""
    if isinstance(x, dict):
        return {(k if isinstance(k, str) else str(k)): _jsonish(v) for k, v in x.items()}
    if isinstance(x, (tuple, list)):
        return [_jsonish(v) for v in x]
    return x


def tok_frontend():
    import strax

    MemFrontend, MemBackend, MemSaver = ctx.make_storage_classes()

    class TokFrontend(MemFrontend):
        """Entries are found by structural comparison of the lineage (what the hash stands for)."""

        def __init__(self, **k):
            super().__init__(**k)
            self.entries = []  # (DataKey, backend key)

        def _find(self, key, write, allow_incomplete, fuzzy_for, fuzzy_for_options):
            be = self.backends[0]
            if write:
                bk = f"e{len(self.entries)}"
                self.entries.append((key, bk))
                return be.__class__.__name__, bk
            # as DataDirectory._find: exact match by lineage hash first ...
            for k2, bk in self.entries:
                if bk in be.store and k2.run_id == key.run_id and k2.data_type == key.data_type and \
                        k2.lineage_hash == key.lineage_hash:
                    return be.__class__.__name__, bk
            # ... then, for fuzzy searches only, the STORED lineage of every candidate (read back from json: tuples have
            # become lists) against the wanted one
            if fuzzy_for or fuzzy_for_options:
                for k2, bk in self.entries:
                    if bk in be.store and k2.run_id == key.run_id and k2.data_type == key.data_type and \
                            self._matches(_jsonish(k2.lineage), key.lineage, fuzzy_for, fuzzy_for_options):
                        return be.__class__.__name__, bk
            raise strax.DataNotAvailable

    return TokFrontend()


# ---------------------------------------------------------------------------- plugins with symbolic defaults/versions
D = np.dtype([("time", np.int64), ("endtime", np.int64), ("id", np.int64), ("val", np.int64)])


def mk_src(da, du, ver, obj=True):
    import strax

    more = [strax.Option("tu", default=_TUP[0], track=True)] if _TUP[0] is not None else []

    @strax.takes_config(strax.Option("a", default=da, track=True), strax.Option("u", default=du, track=False), *more)
    class Src(strax.Plugin):
        provides = ("src",); depends_on = (); data_kind = "ksrc"; dtype = ctx.dt(D, obj)
        __version__ = ver
        rechunk_on_save = False

        def source_finished(self):
            return True

        def is_ready(self, chunk_i):
            return chunk_i < 2

        def compute(self, chunk_i):
            rows = LAY.chunks[chunk_i]
            r = ctx.new_arr(D, len(rows), obj)
            for q, (t, e, i) in enumerate(rows):
                r["time"][q], r["endtime"][q], r["id"][q] = t, e, i
                r["val"][q] = self.config["a"]
            return self.chunk(start=LAY.bounds[chunk_i], end=LAY.bounds[chunk_i + 1], data=r)

    return Src


_BNAME = ["b"]  # name of m1's tracked option; the "m1" variant names the option like the data type it configures
_TUP = [None]  # not None: src has a further tracked option whose VALUE is a tuple (this value)
_MIX = [None]  # not None: m1 ALSO takes src's option u (same default, which is the value held here) but TRACKS it


def mk_m1(db, ver, vconst, obj=True):
    import strax

    bname = _BNAME[0]
    opts = [strax.Option(bname, default=db, track=True)]
    if _MIX[0] is not None:
        opts.append(strax.Option("u", default=_MIX[0], track=True))

    @strax.takes_config(*opts)
    class M1(strax.Plugin):
        provides = ("m1",); depends_on = ("src",); data_kind = "km1"; dtype = ctx.dt(D, obj)
        __version__ = ver

        def compute(self, ksrc):
            r = ctx.new_arr(D, len(ksrc), obj)
            for q in range(len(ksrc)):
                r["time"][q], r["endtime"][q], r["id"][q] = ksrc["time"][q], ksrc["endtime"][q], ksrc["id"][q]
                # the class's behaviour is identified by its version (vconst is a function of the version)
                r["val"][q] = ksrc["val"][q] + 2 * self.config[bname] + 5 * vconst + (11 * self.config["u"] if "u" in self.config else 0)
            return r

    return M1


def mk_t1(obj=True, deps2=False):
    """deps2: the same-named, same-version class with ANOTHER dependency list (m1, src) and a computation using it"""
    import strax

    class T1(strax.Plugin):
        provides = ("t1",); depends_on = ("m1", "src") if deps2 else ("m1",); data_kind = "kt1"; dtype = ctx.dt(D, obj)
        __version__ = "0"

        def compute(self, **kw):
            km1 = kw["km1"]
            r = ctx.new_arr(D, len(km1), obj)
            for q in range(len(km1)):
                r["time"][q], r["endtime"][q], r["id"][q] = km1["time"][q], km1["endtime"][q], km1["id"][q]
                r["val"][q] = km1["val"][q] + 1 + (1000 + kw["ksrc"]["val"][q] if deps2 else 0)
            return r

    return T1


TYPES = ["src", "m1", "t1"]
OPS = ["set_a", "set_b", "set_u", "reg_src_default", "reg_m1_default", "reg_m1_version", "new_context", "make_t1",
       "get_m1", "get_t1_ctx2"]


def _vals(st, d):
    a = st.get_array(RUN, d, processor="single_thread", progress_bar=False)
    return [a["val"][q] for q in range(len(a))]


def sym_history(ops, obj=True, bname="b", mixed=False):
    """Apply the history `ops` (operation kinds; their arguments are fresh symbols) to a context sharing one store,
    then compare with a brand-new context."""
    import strax

    _BNAME[0] = bname
    _MIX[0] = None
    _TUP[0] = None

    da = fresh_int("da"); du = fresh_int("du"); db = fresh_int("db")
    vs = fresh_int("v_src"); vm = fresh_int("v_m1")
    state = dict(da=da, du=du, db=db, vs=vs, vm=vm, cfg={}, t1deps=False)
    if mixed:
        _MIX[0] = du
    fe = tok_frontend()
    st = ctx.make_context([mk_src(da, du, vs, obj), mk_m1(db, vm, vm, obj), mk_t1(obj)], storage=[fe])
    other = None

    def keys(c):
        return {d: c.key_for(RUN, d).lineage_hash for d in TYPES}

    for n, op in enumerate(ops):
        before = keys(st)
        old = dict(state, cfg=dict(state["cfg"]))
        if op == "set_a":
            v = fresh_int(f"x{n}"); st.set_config(dict(a=v)); state["cfg"]["a"] = v
        elif op == "set_b":
            v = fresh_int(f"x{n}"); st.set_config({bname: v}); state["cfg"][bname] = v
        elif op == "set_u":
            v = fresh_int(f"x{n}"); st.set_config(dict(u=v)); state["cfg"]["u"] = v
        elif op == "reg_src_default":
            v = fresh_int(f"x{n}"); state["da"] = v
            st.register(mk_src(state["da"], state["du"], state["vs"], obj))
        elif op == "reg_m1_default":
            v = fresh_int(f"x{n}"); state["db"] = v
            st.register(mk_m1(state["db"], state["vm"], state["vm"], obj))
        elif op == "reg_m1_version":
            v = fresh_int(f"x{n}"); state["vm"] = v
            st.register(mk_m1(state["db"], state["vm"], state["vm"], obj))
        elif op == "reg_t1_deps":
            state["t1deps"] = True
            st.register(mk_t1(obj, True))
        elif op == "new_context":
            st = st.new_context()
        elif op == "make_t1":
            st.make(RUN, "t1", processor="single_thread")
        elif op == "get_m1":
            _vals(st, "m1")
        elif op == "get_t1_ctx2":
            other = ctx.make_context([mk_src(state["da"], state["du"], state["vs"], obj),
                                      mk_m1(state["db"], state["vm"], state["vm"], obj), mk_t1(obj, state["t1deps"])], storage=[fe],
                                     config=dict(state["cfg"]))
            _vals(other, "t1")
        after = keys(st)
        # ---- which keys must change: effective tracked configuration / version of the type or an ancestor
        def eff(s):
            a = s["cfg"].get("a", s["da"]); b = s["cfg"].get(bname, s["db"])
            u = s["cfg"].get("u", s["du"]) if mixed else 0  # tracked by m1 in the mixed variant, never by src
            return dict(src=(a, s["vs"]), m1=(a, s["vs"], b, s["vm"], u),
                        t1=(a, s["vs"], b, s["vm"], u, 1 if s["t1deps"] else 0))
        e0, e1 = eff(old), eff(state)
        for d in TYPES:
            same_lineage = sand(*[x == y for x, y in zip(e0[d], e1[d])])
            same_key = struct_eq(before[d].struct, after[d].struct)
            prove(iff(same_lineage, same_key), f"history:{op}: key of {d} changes iff a tracked option / version of it or "
                                                f"an ancestor changed")
    # ---- final comparison with a brand-new context (same final registry + config, EMPTY store)
    fresh = ctx.make_context([mk_src(state["da"], state["du"], state["vs"], obj),
                              mk_m1(state["db"], state["vm"], state["vm"], obj), mk_t1(obj, state["t1deps"])],
                             storage=[tok_frontend()], config=dict(state["cfg"]))
    kf, kh = keys(fresh), keys(st)
    for d in TYPES:
        prove(struct_eq(kf[d].struct, kh[d].struct), f"history:{ops}: key of {d} differs from a fresh context's key")
    for d in ("m1", "t1"):
        vh, vf = _vals(st, d), _vals(fresh, d)
        prove(len(vh) == len(vf), "history:row count")
        for x, y in zip(vh, vf):
            prove(x == y, f"history:{ops}: get_array({d}) returns stale values (differs from a fresh context)")
    return "ok"


def nat_history(params, model):
    """Native replay: integers for options / defaults, versions as strings, REAL sha1 hashes and the in-memory store."""
    import strax

    ops = params["ops"]
    bname = _BNAME[0] = params.get("bname", "b")
    mixed = params.get("mixed", False)
    m = lambda k: int(model.get(k, 0))
    state = dict(da=m("da"), du=m("du"), db=m("db"), vs=m("v_src"), vm=m("v_m1"), cfg={}, t1deps=False)
    _MIX[0] = state["du"] if mixed else None
    _TUP[0] = None
    MemFrontend, _, _ = ctx.make_storage_classes()
    fe = MemFrontend()
    mk = lambda s: [mk_src(s["da"], s["du"], str(s["vs"]), False), mk_m1(s["db"], str(s["vm"]), s["vm"], False),
                    mk_t1(False, s["t1deps"])]
    with warnings.catch_warnings():
        warnings.simplefilter("ignore")
        st = ctx.make_context(mk(state), storage=[fe])
        bad = []

        def eff(s):
            a = s["cfg"].get("a", s["da"]); b = s["cfg"].get(bname, s["db"])
            u = s["cfg"].get("u", s["du"]) if mixed else 0
            return dict(src=(a, s["vs"]), m1=(a, s["vs"], b, s["vm"], u), t1=(a, s["vs"], b, s["vm"], u, 1 if s["t1deps"] else 0))

        for n, op in enumerate(ops):
            v = m(f"x{n}")
            before = {d: st.key_for(RUN, d).lineage_hash for d in TYPES}
            old = dict(state, cfg=dict(state["cfg"]))
            if op == "set_a":
                st.set_config(dict(a=v)); state["cfg"]["a"] = v
            elif op == "set_b":
                st.set_config({bname: v}); state["cfg"][bname] = v
            elif op == "set_u":
                st.set_config(dict(u=v)); state["cfg"]["u"] = v
            elif op == "reg_src_default":
                state["da"] = v; st.register(mk(state)[0])
            elif op == "reg_m1_default":
                state["db"] = v; st.register(mk(state)[1])
            elif op == "reg_m1_version":
                state["vm"] = v; st.register(mk(state)[1])
            elif op == "reg_t1_deps":
                state["t1deps"] = True; st.register(mk(state)[2])
            elif op == "new_context":
                st = st.new_context()
            elif op == "make_t1":
                st.make(RUN, "t1", processor="single_thread")
            elif op == "get_m1":
                st.get_array(RUN, "m1", processor="single_thread", progress_bar=False)
            elif op == "get_t1_ctx2":
                ctx.make_context(mk(state), storage=[fe], config=dict(state["cfg"])).get_array(
                    RUN, "t1", processor="single_thread", progress_bar=False)
            after = {d: st.key_for(RUN, d).lineage_hash for d in TYPES}
            for d in TYPES:
                if (eff(old)[d] == eff(state)[d]) != (before[d] == after[d]):
                    bad.append(f"step {op}: key({d}) changed={before[d] != after[d]} but tracked lineage changed="
                               f"{eff(old)[d] != eff(state)[d]}")
        fresh = ctx.make_context(mk(state), storage=[MemFrontend()], config=dict(state["cfg"]))
        for d in TYPES:
            if st.key_for(RUN, d).lineage_hash != fresh.key_for(RUN, d).lineage_hash:
                bad.append(f"key({d})")
        for d in ("m1", "t1"):
            a = st.get_array(RUN, d, processor="single_thread", progress_bar=False)["val"].tolist()
            b = fresh.get_array(RUN, d, processor="single_thread", progress_bar=False)["val"].tolist()
            if a != b:
                bad.append(f"values({d}): {a} vs fresh {b}")
    return {"ok": not bad, "detail": "; ".join(bad) or "agrees with a fresh context", "label": "history:"}


def sym_fuzzy(kind, obj=True, tuple_option=False, dict_option=False):
    """Fuzzy matching: stored data accepted iff lineages are equal after deleting the fuzzy types / options; nothing is
    saved under fuzzy matching."""
    import strax

    _BNAME[0] = "b"
    _MIX[0] = None
    # tuple_option: an ancestor has a tracked option with a tuple value, identical on both sides (never fuzzy)
    _TUP[0] = (fresh_int("tu0"), 3) if tuple_option else ({0: fresh_int("tu0"), 1: 2} if dict_option else None)
    da = fresh_int("da"); db = fresh_int("db"); vm = fresh_int("v_m1")
    da2 = fresh_int("da2"); db2 = fresh_int("db2"); vm2 = fresh_int("v_m12")
    fe = tok_frontend()
    st = ctx.make_context([mk_src(da, 0, 1, obj), mk_m1(db, vm, vm, obj), mk_t1(obj)], storage=[fe])
    st.make(RUN, "m1", processor="single_thread")
    opts = dict(fuzzy_for=("m1",)) if kind == "type" else dict(fuzzy_for_options=("b",))
    st2 = ctx.make_context([mk_src(da2, 0, 1, obj), mk_m1(db2, vm2, vm2, obj), mk_t1(obj)], storage=[fe], **opts)
    n_before = len(fe.backends[0].store)
    stored = st2.is_stored(RUN, "m1")
    if kind == "type":
        want = da == da2  # everything about m1 itself is ignored, its ancestors must agree
    else:
        want = sand(da == da2, vm == vm2)  # only option b is ignored
    prove(iff(want, stored), f"fuzzy:{kind}: accepted iff lineages agree outside the fuzzy parts (accepted={stored})")
    st2.get_array(RUN, "t1", processor="single_thread", progress_bar=False)
    prove(len(fe.backends[0].store) == n_before, "fuzzy:data computed under fuzzy matching was written")
    return stored


def nat_fuzzy(params, model):
    inj = _setup_tok_only()
    try:
        label = core.concrete_run(lambda: sym_fuzzy(**params, obj=False), model)
    finally:
        inj.restore()
    return {"ok": label is None, "detail": label or "holds", "label": label}


def _setup_tok_only():
    """native replay of the fuzzy obligation: only the hash token is stubbed (no array shims)"""
    import strax
    import strax.utils

    inj = arrays.Injector()

    def dh(thing, length=10):
        return Tok(strax.hashablize(thing))

    inj.set(strax, "deterministic_hash", dh)
    inj.inject(strax.utils, deterministic_hash=dh)
    return inj


def sym_order():
    """Option insertion order does not change the key."""
    _BNAME[0] = "b"
    _MIX[0] = None
    _TUP[0] = None
    x = fresh_int("x"); y = fresh_int("y")
    st1 = ctx.make_context([mk_src(1, 2, 3), mk_m1(4, 5, 5), mk_t1()], storage=[tok_frontend()])
    st2 = ctx.make_context([mk_src(1, 2, 3), mk_m1(4, 5, 5), mk_t1()], storage=[tok_frontend()])
    st1.set_config(dict(a=x)); st1.set_config(dict(b=y))
    st2.set_config(dict(b=y)); st2.set_config(dict(a=x))
    for d in TYPES:
        prove(struct_eq(st1.key_for(RUN, d).lineage_hash.struct, st2.key_for(RUN, d).lineage_hash.struct),
              "order:key depends on option insertion order")
    return "ok"


# ---------------------------------------------------------------------------- the real hash function (no token)
def _universe():
    """Option values whose Python equality, JSON form and iteration order differ in the ways that matter for a key."""
    from immutabledict import immutabledict

    return [0, 1, 2, -1, True, False, 0.0, 1.0, -0.0, 2.5, 10 ** 20, 1e20, "1", "1.0", "a", "", "True", None, "None",
            (1,), (1.0,), (True,), [1], (1, 2), (2, 1), [1, 2], ((1,), 2), (1, (2,)), (1, 2, 3), ("ab",), ("a", "b"),
            {"x": 1}, {"x": 1.0}, {"x": 2}, {"y": 1}, {"x": 1, "y": 2}, dict([("y", 2), ("x", 1)]),
            immutabledict(x=1), immutabledict(x=2), np.int64(1), np.int32(1), np.float64(1.0), np.float64(2.5),
            np.array([1, 2]), np.array([1.0, 2.0]), np.array([[1, 2]]),
            {"alpha", "beta", "gamma"}, {"gamma", "beta", "alpha", "alpha"}, {"alpha", "beta"}, {1, 2}, {2, 1},
            ({"x": 1},), ({"x": 2},)]


def canon(v):
    """Reference model: what a key may depend on - the JSON type and value of every leaf and the container shape
    (list == tuple == array; mapping == sorted pairs; set == sorted elements).  Equal canon <=> same option value."""
    from collections.abc import Mapping

    if isinstance(v, bool):
        return ("b", v)
    if isinstance(v, (int, np.integer)):
        return ("i", int(v))
    if isinstance(v, (float, np.floating)):
        return ("f", repr(float(v)))
    if isinstance(v, str):
        return ("s", v)
    if v is None:
        return ("n",)
    if isinstance(v, Mapping):
        return ("l", tuple(sorted(("l", (canon(k), canon(x))) for k, x in v.items())))
    if isinstance(v, (set, frozenset)):
        return ("l", tuple(sorted(canon(x) for x in v)))
    if isinstance(v, np.ndarray):
        return canon(v.tolist())
    if isinstance(v, (list, tuple)):
        return ("l", tuple(canon(x) for x in v))
    raise TypeError(type(v))


def _wrapped(v, wrap):
    if wrap == 0:
        return v
    if wrap == 1:  # the way an option value sits in a lineage
        return {"m1": ("Map_m1", "0.0.1", {"opt": v, "other": 3})}
    return (v, "x")


def _hash_pair_check(i, j, wrap):
    import strax

    U = _universe()
    a, b = _wrapped(U[i], wrap), _wrapped(U[j], wrap)
    try:
        ha = strax.deterministic_hash(a)
        hb = strax.deterministic_hash(b)
    except (TypeError, RecursionError):
        # a value the hash function refuses loudly (e.g. a tuple holding an immutabledict) cannot become a key at all
        return None
    same = canon(U[i]) == canon(U[j])
    if (ha == hb) != same:
        return (f"hashfn:values {U[i]!r} ({type(U[i]).__name__}) and {U[j]!r} ({type(U[j]).__name__}) "
                f"{'share the key ' + ha if ha == hb else 'get different keys'} (wrap {wrap}, hashed in this order)")
    if strax.deterministic_hash(_wrapped(U[i], wrap)) != ha or strax.deterministic_hash(_wrapped(U[j], wrap)) != hb:
        return "hashfn:hash of the same value changed on re-evaluation"
    return None


def sym_hashfn(i):
    """real deterministic_hash / hashablize / NumpyJSONEncoder (json and sha1 are C: values are concrete, the solver
    picks the pair and the wrapping): two option values share a key iff they are the same value."""
    n = len(_universe())
    j = core.concretize(fresh_int("j", 0, n - 1), cap=n + 1)
    wrap = core.concretize(fresh_int("wrap", 0, 2))
    bad = _hash_pair_check(i, j, wrap)
    prove(bad is None, bad or "hashfn:ok")
    return (j, wrap)


def nat_hashfn(params, model):
    bad = _hash_pair_check(params["i"], model["j"], model["wrap"])
    return {"ok": bad is None, "detail": bad or "distinct values, distinct keys", "label": bad}


_SEED_TABLES = {}


def _hash_table():
    import strax

    return [strax.deterministic_hash(_wrapped(v, 1)) for v in _universe()]


def _seed_table(seed):
    """keys computed by a fresh interpreter started with PYTHONHASHSEED=seed (same strax as this check)"""
    import json
    import os
    import subprocess
    import sys

    if seed not in _SEED_TABLES:
        env = dict(os.environ, PYTHONHASHSEED=str(seed), NUMBA_DISABLE_JIT="1")
        out = subprocess.run([sys.executable, "-W", "ignore", "-c",
                              "import json, harness.C02 as m; print('TABLE' + json.dumps(m._hash_table()))"],
                             capture_output=True, text=True, env=env, timeout=300,
                             cwd=os.path.dirname(os.path.dirname(os.path.abspath(__file__))))
        line = [l for l in out.stdout.splitlines() if l.startswith("TABLE")]
        if not line:
            raise RuntimeError(f"hash table subprocess failed: {out.stderr[-400:]}")
        _SEED_TABLES[seed] = json.loads(line[0][5:])
    return _SEED_TABLES[seed]


def _seed_check(k, s1, s2):
    t1, t2 = _seed_table(s1), _seed_table(s2)
    if t1[k] != t2[k]:
        v = _universe()[k]
        return (f"hashseed:key of option value {v!r} ({type(v).__name__}) differs between processes: {t1[k]} with "
                f"PYTHONHASHSEED={s1}, {t2[k]} with PYTHONHASHSEED={s2}")
    return None


def sym_hashseed():
    """keys are identical across processes and hash seeds: the solver picks the value and the two seeds"""
    k = core.concretize(fresh_int("k", 0, len(_universe()) - 1), cap=len(_universe()) + 1)
    s1 = core.concretize(fresh_int("s1", 0, 3))
    s2 = core.concretize(fresh_int("s2", 0, 3))
    assume(s1 < s2)
    bad = _seed_check(k, s1, s2)
    prove(bad is None, bad or "hashseed:ok")
    return k


def nat_hashseed(params, model):
    bad = _seed_check(model["k"], model["s1"], model["s2"])
    return {"ok": bad is None, "detail": bad or "same key in every process", "label": bad}


# ---------------------------------------------------------------------------- automatic plugin version (__version__ = None)
def _auto_plugin():
    import strax

    class AutoVersioned(strax.Plugin):
        """a plugin that asks for the automatic version: a hash of its own attributes"""
        __version__ = None
        provides = ("autov",); depends_on = (); data_kind = "kav"
        dtype = [(("t", "time"), np.int64), (("e", "endtime"), np.int64)]
        scale = 3

        def compute(self, chunk_i):
            return None

    return AutoVersioned


def _auto_version_here():
    return _auto_plugin().version()


_AUTO = {}


def _auto_version_in_fresh_interpreter(tag):
    import os
    import subprocess
    import sys

    if tag not in _AUTO:
        env = dict(os.environ, PYTHONHASHSEED="0", NUMBA_DISABLE_JIT="1", VERIF_TAG=str(tag))
        out = subprocess.run([sys.executable, "-W", "ignore", "-c",
                              "import os\nx = [bytearray(64) for _ in range(int(os.environ['VERIF_TAG']) * 1000)]\n"
                              "import harness.C02 as m; print('AUTOV' + m._auto_version_here())"],
                             capture_output=True, text=True, env=env, timeout=300,
                             cwd=os.path.dirname(os.path.dirname(os.path.abspath(__file__))))
        line = [l for l in out.stdout.splitlines() if l.startswith("AUTOV")]
        if not line:
            raise RuntimeError(f"auto version subprocess failed: {out.stderr[-400:]}")
        _AUTO[tag] = line[0][5:]
    return _AUTO[tag]


def sym_autoversion():
    """The automatic version (and with it the storage key) of identical plugin code is the same in every process (same
    PYTHONHASHSEED even; the interpreters only differ in what they allocated before importing strax)."""
    a = core.concretize(fresh_int("p1", 0, 2))
    b = core.concretize(fresh_int("p2", 0, 2))
    assume(a < b)
    va, vb = _auto_version_in_fresh_interpreter(a), _auto_version_in_fresh_interpreter(b)
    prove(va == vb, f"autoversion:automatic version differs between processes: {va} vs {vb}")
    return [va, vb]


def nat_autoversion(params, model):
    va, vb = _auto_version_in_fresh_interpreter(model["p1"]), _auto_version_in_fresh_interpreter(model["p2"] + 10)
    return {"ok": va == vb, "label": "autoversion:automatic version differs between processes",
            "detail": f"{va} vs {vb}"}


def sym_twin():
    sym_history(["set_a", "make_t1"])
    prove(False, "twin:reachable")


def _grid(tier):
    import itertools

    g = []
    base = ["set_a", "set_b", "set_u", "reg_src_default", "reg_m1_default", "reg_m1_version", "new_context"]
    for op in base:
        g.append(dict(ops=[op]))
        g.append(dict(ops=["make_t1", op]))
        g.append(dict(ops=["get_m1", op, "get_m1"]))
        g.append(dict(ops=[op, "get_t1_ctx2"]))
    for a, b in itertools.product(base[:6], repeat=2):
        if a != b:
            g.append(dict(ops=["make_t1", a, b]))
    # a same-named class with the same version but another dependency list
    for h in (["reg_t1_deps"], ["make_t1", "reg_t1_deps"]):
        g.append(dict(ops=h))
    # one option taken by two plugins, untracked in src and TRACKED in m1 (the track flag is per plugin, not per name)
    for h in (["set_u"], ["make_t1", "set_u"], ["get_m1", "set_u", "get_m1"], ["set_u", "get_t1_ctx2"], ["make_t1", "set_u", "set_a"]):
        g.append(dict(ops=h, mixed=True))
    # an option named like the data type it configures (legal; the context hash merges both name spaces)
    for h in (["set_b"], ["make_t1", "set_b"], ["get_m1", "set_b", "get_m1"], ["set_b", "get_t1_ctx2"],
              ["make_t1", "reg_m1_default"], ["make_t1", "set_b", "reg_m1_version"]):
        g.append(dict(ops=h, bname="m1"))
    if tier != "quick":
        for a, b in itertools.product(base, repeat=2):
            g.append(dict(ops=["get_m1", a, "make_t1", b]))
    return g


MUTANTS = [
    dict(name="original F-C02b: sets hashed in iteration order", file="strax/utils.py",
         old="        elif isinstance(obj, set):\n", new="        elif False:\n"),
    dict(name="original F-C02c: registry merged into the config dict for the context hash", file="strax/context.py",
         old="        return strax.deterministic_hash((_base_hash_on_config, _base_hash_on_plugins))",
         new="        _base_hash_on_config.update(_base_hash_on_plugins)\n        return strax.deterministic_hash(_base_hash_on_config)"),
    dict(name="hash memoised on ==-equal values", file="strax/utils.py",
         old='    return b32encode(digest)[:length].decode("ascii").lower()\n',
         new='    memo = globals().setdefault("_MEMO", {})\n    try:\n        return memo.setdefault((hashable, length), '
             'b32encode(digest)[:length].decode("ascii").lower())\n    except TypeError:\n        '
             'return b32encode(digest)[:length].decode("ascii").lower()\n'),
    dict(name="untracked option enters the lineage", file="strax/context.py",
         old="                for option, setting in plugin.config.items()\n                if plugin.takes_config[option].track\n",
         new="                for option, setting in plugin.config.items()\n"),
    dict(name="version left out of the lineage", file="strax/context.py",
         old="        plugin.lineage = {last_provide: (plugin.__class__.__name__, plugin.version(), configs)}",
         new="        plugin.lineage = {last_provide: (plugin.__class__.__name__, '0', configs)}"),
    dict(name="context hash ignores config", file="strax/context.py",
         old="        _base_hash_on_config = deepcopy(self.config)", new="        _base_hash_on_config = dict()"),
    dict(name="ancestors' lineage not inherited", file="strax/context.py",
         old="            plugin.lineage.update(plugin.deps[d_depends].lineage)", new="            pass"),
    dict(name="fuzzy_for_options ignored", file="strax/storage/common.py",
         old="                    if option_name not in fuzzy_for_options", new="                    if True"),
]

OBLIGATIONS = [
    Ob("history", sym_history, _grid, nat_history, setup=_setup, witnesses=1,
       doc="after any history: keys and get_array values equal a brand-new context's; key(d) changes iff tracked "
           "option / version of d or an ancestor changed"),
    Ob("fuzzy", sym_fuzzy, lambda tier: [dict(kind="type"), dict(kind="option"), dict(kind="option", tuple_option=True),
                                         dict(kind="type", tuple_option=True), dict(kind="option", dict_option=True)], nat_fuzzy, setup=_setup, witnesses=1),
    Ob("order", sym_order, lambda tier: [dict()], None, setup=_setup, witnesses=0),
    Ob("hashfn", sym_hashfn, lambda tier: [dict(i=k) for k in range(len(_universe()))], nat_hashfn, witnesses=1,
       doc="real deterministic_hash on a typed universe of option values (ordered pairs, three wrappings): same key iff "
           "same value; stable on re-evaluation"),
    Ob("autoversion", sym_autoversion, lambda tier: [dict()], nat_autoversion, witnesses=0,
       doc="__version__ = None: the automatic version is identical in fresh interpreters"),
    Ob("hashseed", sym_hashseed, lambda tier: [dict()], nat_hashseed, witnesses=1,
       doc="keys computed in fresh interpreters under PYTHONHASHSEED 0..3 agree"),
    Ob("twin", sym_twin, lambda tier: [dict()], None, setup=_setup, expect_cex=True),
]
