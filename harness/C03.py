"""C03 — saving then loading returns the same rows, ranges and consistent metadata.

The real DataDirectory / FileSytemBackend / FileSaver / Saver.save_from / Rechunker / StorageBackend.loader run
on symbolic chunk sequences in a real scratch directory (temp dirs, renames, metadata json); only the byte layer
(save_file / load_file) is a handle store.  Compression codecs are NOT claimed.
"""
import os
import shutil
import tempfile
import warnings

import numpy as np

from symx import core, arrays
from symx.core import fresh_int, assume, prove, sand, sor, snot, implies, iff
from symx.run import Ob
from harness import common as H, ctx

LEVEL = "model_checking"
FUNCTIONS = ["strax.storage.common.Saver.save_from", "Saver.save", "Saver.close", "strax.chunk.Rechunker.receive/flush/"
             "get_splits", "strax.storage.files.FileSaver.__init__/_save_chunk/_save_chunk_metadata/_flush_metadata/_close",
             "FileSytemBackend._get_metadata/_read_chunk/_saver", "DataDirectory._find/_folder_matches",
             "StorageBackend.loader/_read_and_format_chunk", "strax.utils.iter_chunk_meta", "dirname_to_prefix",
             "Context.make/get_iter/get_metadata", "SaverSpy"]
BOUNDS = {
    "quick": "<=3 chunks, <=4 rows (overlapping rows, empty and zero-duration chunks); dtype templates time+endtime, "
             "time+length+dt, array-valued field, titled fields; rechunk off / on with 1-3 row targets; single-thread "
             "processor (SaverSpy) and, for six configurations, the threaded processor's saver thread (Saver.save_from) "
             "under one round-robin schedule",
    "thorough": "<=4 chunks, <=5 rows",
}
ASSUMPTIONS = ["byte layer stubbed: a chunk file holds a handle into an in-memory table (temp name + rename like the "
               "original); bit-identity through blosc/zstd/lz4/bz2 and np.frombuffer is NOT claimed",
               "metadata json is written for real; symbolic integers go through placeholders restored on load",
               "all time values in [0, 2^62)"]
OUTSIDE = ["compression codecs (C extensions)", "thread-pool timing of saves (synchronous stub executor only)"]
STUBS = ["strax.save_file/load_file -> handle store", "strax.storage.files.json -> proxy-aware codec", "np/int/min/max shims"]
RUN = "0"

DTYPES = {
    "end": np.dtype([("time", np.int64), ("endtime", np.int64), ("id", np.int64)]),
    "len": np.dtype([("time", np.int64), ("length", np.int32), ("dt", np.int16), ("id", np.int64)]),
    "arr": np.dtype([("time", np.int64), ("endtime", np.int64), ("id", np.int64), ("wf", np.int16, (3,))]),
    "titled": np.dtype([(("Start", "time"), np.int64), (("End", "endtime"), np.int64), (("Ident", "id"), np.int64)]),
    # a structured dtype with padding between its fields (align=True): legal numpy, and what multi-field indexing returns
    "aligned": np.dtype([("time", np.int64), ("endtime", np.int64), ("flag", np.int8), ("id", np.int64)], align=True),
}


def _setup():
    inj = ctx.setup()
    ctx.filestore_shims(inj)
    return inj


def P_src(layout, dtype_name, obj, rechunk, tsm):
    import strax

    D = DTYPES[dtype_name]

    class Src(strax.Plugin):
        provides = ("src",); depends_on = (); data_kind = "ksrc"
        dtype = arrays.obj_dtype(D) if obj else D
        rechunk_on_save = rechunk
        chunk_target_size_mb = tsm if tsm is not None else strax.DEFAULT_CHUNK_SIZE_MB

        def source_finished(self):
            return True

        def is_ready(self, chunk_i):
            return chunk_i < len(layout.chunks)

        def compute(self, chunk_i):
            rows = layout.chunks[chunk_i]
            a = arrays.make(D, len(rows)) if obj else np.zeros(len(rows), D)
            for q, (t, e, i) in enumerate(rows):
                a["time"][q], a["id"][q] = t, i
                if "endtime" in D.names:
                    a["endtime"][q] = e
                else:
                    a["length"][q], a["dt"][q] = e - t, 1
                if "wf" in D.names:
                    a["wf"][q] = [i, i + 1, i + 2]
            return self.chunk(start=layout.bounds[chunk_i], end=layout.bounds[chunk_i + 1], data=a)

    return Src


def _itemsize(dtype_name):
    return arrays.obj_dtype(DTYPES[dtype_name]).itemsize, DTYPES[dtype_name].itemsize


def _tsm(rows, itemsize):
    for eps in (0.0, 0.25, 0.5):
        v = (rows + eps) * itemsize / 1e6
        if int((v * 1e6) // itemsize) == rows:
            return v
    raise AssertionError


def _make(st, proc):
    if proc == "single":
        st.make(RUN, "src", processor="single_thread")
        return
    # threaded processor: the saver thread runs the real Saver.save_from (its own chunk counter and Rechunker
    # loop); one deterministic round-robin schedule (the mailbox obligations of C05 cover the schedules)
    from symx import conc
    from harness import mbox

    with mbox.SchedRun(conc.POLICIES["rr"]) as s:
        try:
            st.make(RUN, "src", processor="threaded_mailbox")
        finally:
            s.finish()


def _roundtrip(L, dtype_name, obj, rechunk, target_rows, path, proc="single"):
    import strax

    isz = _itemsize(dtype_name)[0 if obj else 1]
    tsm = _tsm(target_rows, isz) if rechunk else None
    P = [P_src(L, dtype_name, obj, rechunk, tsm)]
    st = ctx.make_context(P, storage=[strax.DataDirectory(path)], timeout=2)
    _make(st, proc)
    # a brand-new context (same plugin class, nothing computed): everything comes from the files
    st2 = ctx.make_context(P, storage=[strax.DataDirectory(path, readonly=True)], forbid_creation_of=("src",))
    chunks = list(st2.get_iter(RUN, "src", processor="single_thread", progress_bar=False))
    md = st2.get_metadata(RUN, "src")
    return chunks, md


def _check(chunks, md, L, dtype_name, rechunk):
    S, E = L.bounds[0], L.bounds[-1]
    rows = L.rows
    ctx.check_tiling(chunks, S, E, "roundtrip")
    for c in chunks:
        prove(tuple(c.data.dtype.names) == tuple(DTYPES[dtype_name].names),
              f"roundtrip:loaded rows have fields {c.data.dtype.names}, written were {DTYPES[dtype_name].names}")
    ids = [int(x) for c in chunks for x in c.data["id"]]
    prove(ids == [i for _, _, i in rows], f"roundtrip:rows lost/duplicated/reordered: {ids}")
    k = 0
    for c in chunks:
        for q in range(len(c.data)):
            t, e, i = rows[k]
            prove(c.data["time"][q] == t, "roundtrip:time changed")
            if "endtime" in c.data.dtype.names:
                prove(c.data["endtime"][q] == e, "roundtrip:endtime changed")
            else:
                prove(sand(c.data["length"][q] == e - t, c.data["dt"][q] == 1), "roundtrip:length/dt changed")
            if "wf" in c.data.dtype.names:
                prove([int(v) for v in c.data["wf"][q]] == [i, i + 1, i + 2], "roundtrip:array field changed")
            k += 1
    written = L.bounds
    if not rechunk:
        prove(len(chunks) == len(L.chunks), "roundtrip:number of chunks changed without rechunking")
        for c, j in zip(chunks, range(len(L.chunks))):
            prove(sand(c.start == written[j], c.end == written[j + 1]), "roundtrip:chunk boundary changed without rechunking")
    else:
        for c in chunks[:-1]:
            cut = c.end
            is_written = sor(*[cut == b for b in written])
            free = sand(*[snot(sand(t < cut, cut < e)) for t, e, _ in rows]) if rows else True
            prove(free, "roundtrip:rechunked boundary straddles a row")
            prove(sor(is_written, sand(*[sor(e <= cut, t >= cut) for t, e, _ in rows])), "roundtrip:boundary neither written nor in a gap")
    # ---- metadata agrees with what was loaded
    prove("writing_ended" in md and "exception" not in md, "metadata:completion marker")
    prove(sand(md["start"] == S, md["end"] == E), "metadata:overall start/end")
    prove(md["run_id"] == RUN and md["data_type"] == "src", "metadata:run id / data type")
    prove(len(md["chunks"]) == len(chunks), "metadata:number of chunks")
    for n, (ci, c) in enumerate(zip(md["chunks"], chunks)):
        prove(ci["chunk_i"] == n, "metadata:chunk numbering not dense from 0")
        prove(ci["n"] == len(c.data), "metadata:row count")
        prove(sand(ci["start"] == c.start, ci["end"] == c.end), "metadata:chunk start/end")
        prove(ci["run_id"] == RUN, "metadata:chunk run id")
        if len(c.data):
            e0 = c.data["endtime"][0] if "endtime" in c.data.dtype.names else c.data["time"][0] + c.data["length"][0] * c.data["dt"][0]
            e1 = c.data["endtime"][-1] if "endtime" in c.data.dtype.names else c.data["time"][-1] + c.data["length"][-1] * c.data["dt"][-1]
            prove(sand(ci["first_time"] == c.data["time"][0], ci["last_time"] == c.data["time"][-1],
                       ci["first_endtime"] == e0, ci["last_endtime"] == e1), "metadata:first/last row times")
            prove("filename" in ci, "metadata:chunk file name missing")
        prove(ci["nbytes"] == c.data.nbytes, "metadata:byte size")
    return [len(c.data) for c in chunks]


def sym_roundtrip(layout, dtype_name="end", rechunk=False, target=1, proc="single"):
    S = fresh_int("S", 0, H.T_MAX)
    E = fresh_int("E", 0, H.T_MAX)
    L = ctx.sym_layout("src_", layout, S, E=E)
    path = tempfile.mkdtemp(prefix="verif_c03_")
    try:
        chunks, md = _roundtrip(L, dtype_name, True, rechunk, target, path, proc)
        return _check(chunks, md, L, dtype_name, rechunk)
    finally:
        shutil.rmtree(path, ignore_errors=True)


def nat_roundtrip(params, model):
    """Native replay with REAL bytes (default compressor) and compiled code."""
    S, E = model["S"], model["E"]
    L = ctx.conc_layout(model, "src_", params["layout"], S, E=E)
    path = tempfile.mkdtemp(prefix="verif_c03n_")
    try:
        with warnings.catch_warnings():
            warnings.simplefilter("ignore")
            try:
                chunks, md = _roundtrip(L, params.get("dtype_name", "end"), False, params.get("rechunk", False),
                                        params.get("target", 1), path, params.get("proc", "single"))
            except Exception as e:
                return {"ok": False, "detail": f"raised {type(e).__name__}: {e}"}
        label = core.concrete_run(lambda: _check(chunks, md, L, params.get("dtype_name", "end"), params.get("rechunk", False)), model)
        return {"ok": label is None, "detail": label or "round trip and metadata consistent", "label": label}
    finally:
        shutil.rmtree(path, ignore_errors=True)


def sym_twin():
    sym_roundtrip([1, 1])
    prove(False, "twin:reachable")


def _grid(tier):
    lays = [[1], [2], [0], [1, 1], [2, 1], [0, 1], [1, 0], [0, 2], [2, 2], [1, 1, 1], [1, 0, 1], [0, 0, 1]] if tier == "quick" else \
        [[1], [2], [3], [0], [1, 1], [2, 1], [1, 2], [0, 2], [2, 0], [2, 2], [1, 1, 1], [2, 1, 1], [1, 0, 2], [1, 1, 1, 1], [3, 2]]
    g = []
    for l in lays:
        g.append(dict(layout=l))
        for tgt in (1, 2, 3):
            if tgt < sum(l) or tgt == 1:
                g.append(dict(layout=l, rechunk=True, target=tgt))
    # saved by the threaded processor's saver thread (Saver.save_from): merging targets make some receive() calls
    # return no chunk, splitting targets several
    for l, tgt in (([1, 1], None), ([1, 1, 1], 3), ([1, 1, 1], 2), ([2, 1], 1), ([0, 1, 1], 2), ([1, 0, 1], 1)):
        g.append(dict(layout=l, proc="threaded", **(dict(rechunk=True, target=tgt) if tgt else {})))
    g.append(dict(layout=[2, 1], dtype_name="aligned"))
    for dn in ("len", "arr", "titled"):
        g.append(dict(layout=[2, 1], dtype_name=dn))
        g.append(dict(layout=[1, 1, 1], dtype_name=dn, rechunk=True, target=2))
    return g


MUTANTS = [
    dict(name="saver advances the chunk counter once per receive()", file="strax/storage/common.py",
         old="                for chunk in chunks:\n                    new_f = self.save(chunk=chunk, chunk_i=chunk_i, executor=executor)",
         new="                chunk_i += 0 if chunks else 1\n                for chunk in chunks:\n                    new_f = self.save(chunk=chunk, chunk_i=chunk_i, executor=executor)"),
    dict(name="last_time taken from the first row", file="strax/storage/common.py",
         old='for desc, i in (("first", 0), ("last", -1)):', new='for desc, i in (("first", 0), ("last", 0)):'),
    dict(name="metadata end taken from first chunk", file="strax/storage/common.py",
         old='self.md["end"] = self.md["chunks"][-1]["end"]', new='self.md["end"] = self.md["chunks"][0]["end"]'),
    dict(name="empty chunks not recorded", file="strax/storage/common.py",
         old="        self._save_chunk_metadata(chunk_info)\n        return future", new="        if len(chunk):\n            self._save_chunk_metadata(chunk_info)\n        return future"),
    dict(name="rechunker splits 500 ns later", file="strax/chunk.py",
         old='t=chunk.data["time"][index] - int(DEFAULT_CHUNK_SPLIT_NS // 2),\n                allow_early_split=False,\n            )\n            chunks.append(_chunk)',
         new='t=chunk.data["time"][index] + int(DEFAULT_CHUNK_SPLIT_NS // 2),\n                allow_early_split=True,\n            )\n            chunks.append(_chunk)'),
]

OBLIGATIONS = [
    Ob("roundtrip", sym_roundtrip, _grid, nat_roundtrip, setup=_setup, witnesses=2,
       doc="rows, order, overall range, contiguity, boundaries (equal / subset-or-gap) and metadata consistency"),
    Ob("twin", sym_twin, lambda tier: [dict()], None, setup=_setup, expect_cex=True),
]
