"""C04 — a crash or I/O failure never leaves wrong data visible as valid.

Every file-system operation issued by strax.storage.files / strax.io while making a target is counted; the fault
position k and the fault kind are solver variables (one path per feasible value, so the set of paths is complete
by construction).  Kinds: an OSError raised at operation k; process death just before / just after operation k
(modelled by a directory snapshot: no handler of the dying process runs).  Afterwards a FRESH context looks at the
directory.  Data is concrete (real bytes, default compressor): the solver's role is the fault schedule, hence level
fault_enumeration.
"""
import os
import shutil
import tempfile
import threading
import warnings

import numpy as np

from symx import core, conc
from symx.core import fresh_int, assume, prove
from symx.run import Ob
from harness import ctx

LEVEL = "fault_enumeration"
FUNCTIONS = ["strax.storage.files.FileSaver.__init__/_save_chunk/_save_chunk_metadata/_flush_metadata/_close",
             "strax.io.save_file/_save_file", "strax.storage.common.Saver.save_from/save/close", "SaverSpy",
             "SingleThreadProcessor.iter", "ThreadedMailboxProcessor.iter", "StorageFrontend.find (broken-data check)",
             "StorageFrontend._can_overwrite", "DataDirectory._find", "Context.is_stored/get_array/make"]
BOUNDS = {
    "quick": "graph src -> m1 -> (sa, sb): 3 chunks; configurations single-thread / threaded with max_workers=2 "
             "(thread-pool saving) x rechunk on/off; EVERY counted file-system operation x {exception, death before, "
             "death after}; one retry",
    "thorough": "adds threaded without pool, 4 chunks, two retries",
}
ASSUMPTIONS = ["a file-system operation is atomic (partial writes inside one write() are not modelled; save_file's "
               "temp-then-rename is itself two counted steps)", "process death = directory snapshot handed to a fresh "
               "Context (no handler of the dying process runs)", "data is concrete; faults are the quantified dimension"]
OUTSIDE = ["forked (inlined) savers in worker processes", "power-loss reordering of metadata vs data", "partial writes"]
STUBS = ["strax.storage.files.{os,shutil,open} and strax.io.{os,open} -> counting / fault-injecting wrappers"]
RUN = "0"
TYPES = ["src", "m1", "sa", "sb"]
TARGET = "sb"
LAY = ctx.Layout([0, 100, 200, 300], [[(1, 5, 0), (20, 30, 1)], [(110, 120, 2)], [(210, 215, 3), (250, 260, 4)]])


class InjectedFault(OSError):
    pass


class FaultLayer:
    def __init__(self, root):
        self.root = root
        self.n = 0
        self.log = []
        self.k = None
        self.snap_before = None  # index -> take snapshot before that op
        self.snap_dir = None
        self.lock = threading.Lock()
        self.fired = False

    def op(self, name, path):
        with self.lock:
            idx = self.n
            self.n += 1
            self.log.append((name, os.path.relpath(str(path), self.root) if str(path).startswith(self.root) else str(path)))
            if self.snap_dir is not None and self.snap_before == idx:
                shutil.copytree(self.root, self.snap_dir)
            if self.k is not None and idx == self.k:
                self.fired = True
                raise InjectedFault(f"injected I/O fault at operation {idx}: {name} {path}")

    def after(self, idx_holder):
        pass


def install(fl):
    """Wrap the file-system entry points of strax.storage.files and strax.io."""
    import builtins
    import types

    import strax.io as sio
    import strax.storage.files as sf
    from symx import arrays

    real_os, real_shutil, real_open = os, shutil, builtins.open

    class OsProxy(types.ModuleType):
        def __getattr__(self, name):
            return getattr(real_os, name)

        def makedirs(self, p, *a, **k):
            fl.op("makedirs", p)
            return real_os.makedirs(p, *a, **k)

        def rename(self, a, b):
            fl.op("rename", b)
            return real_os.rename(a, b)

        def remove(self, p):
            fl.op("remove", p)
            return real_os.remove(p)

    class ShutilProxy(types.ModuleType):
        def __getattr__(self, name):
            return getattr(real_shutil, name)

        def rmtree(self, p, *a, **k):
            # removal of a directory tree is a SEQUENCE of file-system operations: a fault or a crash can hit between
            # any two of them (e.g. metadata gone, directory still there)
            for dirpath, dirnames, filenames in real_os.walk(p, topdown=False):
                for fn in sorted(filenames):
                    fl.op("unlink", real_os.path.join(dirpath, fn))
                    real_os.unlink(real_os.path.join(dirpath, fn))
                fl.op("rmdir", dirpath)
                real_os.rmdir(dirpath)

    class FileProxy:
        def __init__(self, f, path):
            self.f, self.path = f, path

        def write(self, data):
            fl.op("write", self.path)
            return self.f.write(data)

        def __getattr__(self, name):
            return getattr(self.f, name)

        def __enter__(self):
            self.f.__enter__()
            return self

        def __exit__(self, *a):
            return self.f.__exit__(*a)

    def open_proxy(path, mode="r", *a, **k):
        f = real_open(path, mode, *a, **k)
        if "w" in mode or "a" in mode:
            return FileProxy(f, path)
        return f

    inj = arrays.Injector()
    inj.inject(sf, os=OsProxy("os"), shutil=ShutilProxy("shutil"), open=open_proxy, print=lambda *a, **k: None)
    inj.inject(sio, os=OsProxy("os"), open=open_proxy)
    return inj


def plugins(rechunk, fail=False):
    P = [ctx.P_source("src", "ksrc", LAY, False, rechunk_on_save=False),
         ctx.P_map("m1", "src", False, rechunk_on_save=rechunk, fail_at=1 if fail else None),
         ctx.P_split2(["sa", "sb"], "m1", False, 6, rechunk_on_save=rechunk)]
    for p in P:
        p.chunk_target_size_mb = 2 * 32 / 1e6 + 1e-7 if rechunk else 200
    return P


def run_make(root, cfg, fl=None, fail=False):
    """One `make` of the target in a new Context on `root`; returns the exception raised (or None)."""
    import strax

    ctx.COUNTS.clear()  # the failing plugin variant counts its compute calls
    st = ctx.make_context(plugins(cfg["rechunk"], fail), storage=[strax.DataDirectory(root)], timeout=10)
    kw = dict(processor="single_thread") if cfg["proc"] == "single" else dict(processor="threaded_mailbox")
    if cfg.get("workers"):
        kw["max_workers"] = cfg["workers"]
    try:
        st.make(RUN, TARGET, progress_bar=False, **kw)
        return None
    except BaseException as e:  # noqa
        if isinstance(e, core.SymxControl):
            raise
        return e


def reference(cfg):
    import strax

    root = tempfile.mkdtemp(prefix="verif_c04_ref_")
    try:
        st = ctx.make_context(plugins(cfg["rechunk"]), storage=[strax.DataDirectory(root)])
        return {d: st.get_array(RUN, d, processor="single_thread", progress_bar=False) for d in TYPES}
    finally:
        shutil.rmtree(root, ignore_errors=True)


def inspect(root, cfg, ref, label):
    """A fresh context looks at the directory: whatever is reported stored must load completely and be correct."""
    import strax

    st = ctx.make_context(plugins(cfg["rechunk"]), storage=[strax.DataDirectory(root, readonly=True)],
                          forbid_creation_of=tuple(TYPES))
    state = {}
    for d in TYPES:
        stored = st.is_stored(RUN, d)
        state[d] = stored
        if stored:
            try:
                got = st.get_array(RUN, d, processor="single_thread", progress_bar=False)
            except Exception as e:
                prove(False, f"{label}:{d} is reported stored but does not load: {type(e).__name__}")
            ok = len(got) == len(ref[d]) and all((got[f] == ref[d][f]).all() for f in ref[d].dtype.names)
            prove(ok, f"{label}:{d} is reported stored but differs from the correct result")
    return state


def count_ops(cfg):
    root = tempfile.mkdtemp(prefix="verif_c04_cnt_")
    if cfg.get("prior"):
        assert run_make(root, cfg, fail=True) is not None  # an earlier attempt died of a plugin exception: broken data
    fl = FaultLayer(root)
    inj = install(fl)
    try:
        e = run_make(root, cfg)
        assert e is None, e
        return fl.n, list(fl.log)
    finally:
        inj.restore()
        shutil.rmtree(root, ignore_errors=True)


def sym_fault(cfg, kind, retries=1):
    cfg = dict(cfg)
    ref = reference(cfg)
    K, oplog = count_ops(cfg)
    k = core.concretize(fresh_int("k", 0, K - 1), cap=4096)
    base = tempfile.mkdtemp(prefix="verif_c04_")
    root = os.path.join(base, "data")
    os.makedirs(root)
    if cfg.get("prior"):
        run_make(root, cfg, fail=True)  # broken data of an earlier failed attempt lies in the directory
    fl = FaultLayer(root)
    inj = install(fl)
    try:
        if kind == "exception":
            fl.k = k
            exc = run_make(root, cfg)
            fl.k = None
            parent_dir_creation = oplog[k] == ("makedirs", ".")  # a frontend that cannot write is skipped by design
            if fl.fired and not parent_dir_creation:
                prove(exc is not None, f"fault:op {k} {oplog[k] if k < len(oplog) else ''}: a save failed but make() "
                                       f"reported success")
            check_root = root
        else:
            # process death: the directory as it is just before / after operation k
            fl.snap_before = k if kind == "death_before" else k + 1
            fl.snap_dir = os.path.join(base, "snap")
            exc = run_make(root, cfg)
            if not os.path.exists(fl.snap_dir):
                # death after the last operation: the final directory
                shutil.copytree(root, fl.snap_dir)
            check_root = fl.snap_dir
            fl.snap_dir = None
        inj.restore()
        inj = None
        state = inspect(check_root, cfg, ref, f"fault:{kind}")
        # retries: an identical request recomputes and stores the correct data without manual cleanup
        for r in range(retries):
            e2 = run_make(check_root, cfg)
            prove(e2 is None, f"fault:{kind}: retry raised {type(e2).__name__}: {str(e2)[:80]}")
        import strax

        st = ctx.make_context(plugins(cfg["rechunk"]), storage=[strax.DataDirectory(check_root, readonly=True)],
                              forbid_creation_of=tuple(TYPES))
        prove(st.is_stored(RUN, TARGET), f"fault:{kind}: target not stored after the retry")
        inspect(check_root, cfg, ref, f"fault:{kind}:after retry")
        return [k, kind, oplog[k] if k < len(oplog) else None, state]
    finally:
        if inj is not None:
            inj.restore()
        shutil.rmtree(base, ignore_errors=True)


def nat_fault(params, model):
    """Replay: the same fault schedule (k from the model) on the native code; no solver involved."""
    label = core.concrete_run(lambda: sym_fault(**params), model)
    return {"ok": label is None, "detail": label or "holds", "label": label}


def sym_twin():
    sym_fault(dict(proc="single", rechunk=False), "exception")
    prove(False, "twin:reachable")


CONFIGS = {
    "quick": [dict(proc="single", rechunk=False), dict(proc="single", rechunk=True),
              dict(proc="threaded", rechunk=False, workers=2), dict(proc="single", rechunk=False, prior=True)],
    "thorough": [dict(proc="single", rechunk=False), dict(proc="single", rechunk=True),
                 dict(proc="threaded", rechunk=False, workers=2), dict(proc="threaded", rechunk=True, workers=2),
                 dict(proc="threaded", rechunk=False), dict(proc="single", rechunk=False, prior=True),
                 dict(proc="threaded", rechunk=False, workers=2, prior=True)],
}


def _grid(tier):
    return [dict(cfg=c, kind=k, retries=1 if tier == "quick" else 2) for c in CONFIGS[tier]
            for k in ("exception", "death_before", "death_after")]


def _setup():
    import logging

    logging.disable(logging.CRITICAL)
    warnings.simplefilter("ignore")
    return None


MUTANTS = [
    dict(name="writing_ended written although an exception is pending", file="strax/storage/common.py",
         old='        if exc_info and sys.exc_info()[1] is not self._outside_exception:\n            self.md["exception"] = exc_info\n        elif self.got_exception is not None:',
         new='        if False:\n            pass\n        elif self.got_exception is not None:'),
    dict(name="original F-C04b: pending futures polled twice", file="strax/storage/common.py", only="pool_race",
         old="                    pending = [f for f in pending if f not in done]", new="                    pending = [f for f in pending if not f.done()]"),
    dict(name="original F-C04c: folder without metadata still found", file="strax/storage/files.py",
         old="        if exists and not self._has_metadata(dirname):", new="        if False:"),
    dict(name="data directory not written to _temp first", file="strax/storage/files.py",
         old='        self.tempdirname = dirname + "_temp"', new='        self.tempdirname = dirname'),
    dict(name="recorded exception ignored when looking for data", file="strax/storage/common.py",
         old='            if "exception" in meta:', new='            if False:'),
]

# ---------------------------------------------------------------------------- thread-pool saving: when a write completes
def sym_pool_race(nchunks, bad):
    """Real Saver.save_from with an executor whose futures complete at a solver-chosen moment: the future of chunk
    `bad` (its write FAILS) turns 'done' at its k-th done() poll (k = 0: at once, large k: only at close).  Whatever k
    is, the failure must surface - raised out of save_from, kept in got_exception, or recorded in the metadata - and
    the data must not be finalised as complete."""
    import concurrent.futures as cf
    import strax

    k = core.concretize(fresh_int("k", 0, 2 * nchunks + 1))

    class Fut(cf.Future):
        def __init__(self, flip_after, exc):
            super().__init__()
            self.polls, self.flip_after, self.exc = 0, flip_after, exc

        def _complete(self):
            if not super().done():
                if self.exc is not None:
                    self.set_exception(self.exc)
                else:
                    self.set_result(None)

        def done(self):
            self.polls += 1
            if self.polls > self.flip_after:
                self._complete()
            return super().done()

        def exception(self, timeout=None):
            self._complete()
            return super().exception(timeout)

        def result(self, timeout=None):
            self._complete()
            return super().result(timeout)

    MemFrontend, MemBackend, MemSaver = ctx.make_storage_classes()

    class PoolSaver(MemSaver):
        def _save_chunk(self, data, chunk_info, executor=None):
            i = chunk_info["chunk_i"]
            if i != bad:
                self.entry["chunks"][i] = data
            f = Fut(k if i == bad else 0, OSError("disk full") if i == bad else None)
            return dict(filename=f"mem-{i}"), f

    be = MemBackend()
    md = dict(run_id="0", data_type="x", data_kind="k", dtype="d", compressor="none", lineage={}, lineage_hash="h",
              chunk_target_size_mb=200)
    saver = PoolSaver("key", md, be)
    dt = np.dtype([("time", np.int64), ("endtime", np.int64)])

    def source():
        for i in range(nchunks):
            a = np.zeros(1, dt)
            a["time"], a["endtime"] = 10 * i, 10 * i + 1
            yield strax.Chunk(start=10 * i, end=10 * i + 10, data=a, dtype=dt, data_type="x", data_kind="k", run_id="0")

    import concurrent.futures

    orig_wait = strax.storage.common.wait

    def wait_stub(fs, timeout=None, return_when=None):
        for f in fs:
            f._complete()
        return set(fs), set()

    strax.storage.common.wait = wait_stub
    raised = None
    try:
        try:
            saver.save_from(source(), rechunk=False, executor=object())
        except OSError as e:
            raised = e
    finally:
        strax.storage.common.wait = orig_wait
    reported = raised is not None or saver.got_exception is not None or "exception" in saver.md
    prove(reported, f"pool_race:write of chunk {bad} failed on the pool (future done at its poll {k}) but nothing reports it")
    prove(not ("writing_ended" in saver.md and "exception" not in saver.md),
          f"pool_race:data finalised as complete although the write of chunk {bad} failed (future done at its poll {k})")
    return k


def nat_pool_race(params, model):
    label = core.concrete_run(lambda: sym_pool_race(**params), model)
    return {"ok": label is None, "detail": label or "failure reported", "label": label}


OBLIGATIONS = [
    Ob("fault", sym_fault, _grid, nat_fault, setup=_setup, witnesses=1, max_paths=5000,
       doc="for every counted file-system operation and fault kind: stored => loads and correct; retry succeeds; a "
           "failed save is never reported as success"),
    Ob("pool_race", sym_pool_race, lambda tier: [dict(nchunks=n, bad=b) for n in (2, 3) for b in range(n)], nat_pool_race,
       setup=_setup, witnesses=1,
       doc="thread-pool saving: the poll at which the failing write's future turns done is chosen by the solver"),
    Ob("twin", sym_twin, lambda tier: [dict()], None, setup=_setup, expect_cex=True),
]
