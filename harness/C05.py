"""C05 — a mailbox delivers every message exactly once, in order, to every subscriber.

Rely/guarantee step obligations on the REAL critical sections of strax.mailbox.Mailbox: every section
(lock acquire or wake-up -> lock release or block) is executed symbolically from an arbitrary state
satisfying the invariant (what other threads could have left behind); message count / history length
are unbounded, subscribers and queue length are bounded.
"""
import z3

from symx import core, conc
from symx.core import (SymInt, fresh_int, fresh_bool, assume, prove, sand, sor, snot, implies, iff, smin)
from symx.run import Ob
from harness import mbox
from harness.mbox import Sim, has, same_entries, payload, StopSection

LEVEL = "model_checking"
FUNCTIONS = ["strax.mailbox.Mailbox.__init__", "Mailbox.send", "Mailbox._read", "Mailbox.close", "Mailbox.kill",
             "Mailbox._can_fetch", "Mailbox._has_msg", "Mailbox._get_msg", "Mailbox._lowest_msg_number",
             "Mailbox._send_from", "divide_outputs", "Mailbox.kill_from_exception"]
BOUNDS = {
    "quick": "subscribers 1..2, queue length <= 3, capacity 1..3 and lazy, all driver masks with >=1 driver; "
             "message numbers, read counters and n_sent unbounded symbolic integers (any run length)",
    "thorough": "subscribers 1..3, queue length <= 5, capacity 1..4 and lazy",
}
ASSUMPTIONS = [
    "rely/guarantee: all Mailbox state is mutated only under the one re-entrant lock, wait_for releases it; a "
    "section started from ANY invariant state over-approximates every interleaving (the invariant is proved "
    "inductive section by section in this same check)",
    "one sender thread per mailbox (strax wiring); readers only advance their own counter",
    "payload of message k is an uninterpreted function of k (payload identity is preserved, not computed on)",
    "CPython threading.Condition / RLock are trusted; weak fairness of the OS scheduler for termination",
    "timeout expiry paths are not executed (they are reachable only from a deadlock state, which is refuted as a "
    "state lemma)",
]
OUTSIDE = ["more than 3 subscribers / queue longer than the bound", "fairness", "worker pools completing futures "
           "concurrently (a Future message is replaced by its result(): checked with already-completed futures)"]
STUBS = ["strax.mailbox.threading -> havoc stub (no threads)", "int -> keeps proxies", "min -> ite merging", "logging"]


def _masks(nsubs):
    out = []
    for bits in range(1, 2**nsubs):
        out.append([bool(bits >> j & 1) for j in range(nsubs)])
    return out


# ---------------------------------------------------------------------------- send
def sym_send(nsubs, cap, lazy):
    """send() entered from any invariant state, including blocking on a full queue and resuming from a
    re-havocked state with a stale message number."""
    sim = Sim(nsubs, lazy, cap, lmax=(4 if lazy else cap))
    mb = sim.mb
    pre = sim.havoc(closed=None, sender="sending")
    n0 = pre["n"]
    x = payload(n0)
    blocked = {"n": 0}
    last = {"st": pre}

    def on_wait(cond, pred):
        prove(cond.name == "write", "send:waits on the wrong condition")
        prove(not lazy, "send:lazy mailbox blocked a sender on capacity")
        prove(len(mb._mailbox) >= cap, "send:blocked although there is room")
        same_entries(mb._mailbox, last["st"]["heap"], "send:state changed before blocking")
        blocked["n"] += 1
        # other threads run: readers advance, nobody else sends or closes (single sender)
        st = sim.havoc(tie_n=n0, closed=False, sender="sending")
        assume(pred())  # woken with a true predicate (a false one means: keep waiting)
        last["st"] = st
        sim.reset_notes()
        return True

    sim.wait_handler = on_wait
    import strax

    try:
        mb.send(x)
        outcome = "sent"
    except strax.MailBoxAlreadyClosed:
        outcome = "closed"
    except strax.InvalidMessageNumber:
        outcome = "invalid"
    except strax.MailboxKilled:
        outcome = "killed"
    prove((outcome == "closed") == bool(pre["closed"]), "send:closed mailbox must refuse (and only then)")
    prove(outcome != "invalid", "send:default numbering rejected as invalid")
    if outcome != "sent":
        same_entries(mb._mailbox, pre["heap"], "send:refused send changed the queue")
        return outcome
    st = last["st"]
    post = sim.snapshot()
    prove(post["n"] == n0 + 1, "send:n_sent not incremented exactly once")
    prove(len(post["heap"]) == len(st["heap"]) + 1, "send:queue length")
    same_entries(st["heap"] + [(n0, x)], post["heap"], "send:queue is not old queue + (n, msg)")
    for j in range(nsubs):
        prove(sand(post["r"][j] == st["r"][j]), "send:touched a reader's counter")
    prove(sim.notes["read"] >= 1, "send:readers not notified of the new message")
    sim.prove_inv(post, "send:inv")
    # lost wake-up: a reader waiting for any number q whose predicate flips must have been notified
    q = fresh_int("q")
    flips = sand(snot(has(st["heap"], q)), has(post["heap"], q))
    prove(implies(flips, sim.notes["read"] >= 1), "send:lost wake-up of a reader")
    if lazy:
        # the fetcher's predicate cannot flip to true by a send (so no notification is owed)
        mb2_pre = _can_fetch_on(sim, st)
        mb2_post = _can_fetch_on(sim, post)
        prove(implies(sand(snot(mb2_pre), mb2_post), sim.notes["fetch"] >= 1), "send:lost wake-up of the fetcher")
    return f"sent after {blocked['n']} waits"


def _can_fetch_on(sim, st):
    """Evaluate the REAL _can_fetch on a snapshot."""
    mb = sim.mb
    cur = sim.snapshot()
    _install(mb, st)
    try:
        return _as_bool(mb._can_fetch())
    finally:
        _install(mb, cur)


def _as_bool(v):
    return False if v is None else v


def _install(mb, st):
    mb._n_sent = st["n"]
    mb._subscribers_have_read = list(st["r"])
    mb._subscriber_waiting_for = list(st["w"])
    mb._mailbox = list(st["heap"])
    mb.closed, mb.killed, mb.force_killed = st["closed"], st["killed"], st["force_killed"]


# ---------------------------------------------------------------------------- explicit numbering
def sym_send_explicit(nsubs, cap):
    sim = Sim(nsubs, False, cap, lmax=cap, numbering="explicit")
    mb = sim.mb
    pre = sim.havoc(closed=False)
    k = fresh_int("k", 0, mbox.N_MAX)
    for h, _ in pre["heap"]:
        assume(h != k)  # caller sends each number once
    x = payload(k)
    m = smin(*pre["r"]) if nsubs > 1 else pre["r"][0]
    last = {"st": pre}

    def on_wait(cond, pred):
        # The sender is about to block (its predicate is false on the current state).  With every displacement < capacity
        # this must not be a deadlock: the next message the slowest reader needs has to be queued already.  (For the
        # real predicate - queue full - this is the explicit_deadlock state lemma; proving it HERE ties the lemma to
        # whatever condition the real send() actually blocks on.)
        st0 = last["st"]
        m0 = smin(*st0["r"]) if nsubs > 1 else st0["r"][0]
        d = fresh_int("d", 0, cap - 1)
        assume(implies(m0 + 1 <= st0["n"] - 1 - d, has(st0["heap"], m0 + 1)))  # all numbers <= n-1-d were sent
        assume(sand(k >= st0["n"] - d, k <= st0["n"] + d))  # the message being sent (position n) obeys the bound as well
        # ... and so will the rest: every number <= n - d other than k must have been sent before position n
        assume(implies(sand(m0 + 1 <= st0["n"] - d, m0 + 1 != k), has(st0["heap"], m0 + 1)))
        prove(has(st0["heap"], m0 + 1), "send_explicit:sender blocks while the next message the slowest reader needs is "
                                        "not queued (deadlock although every displacement < capacity)")
        st = sim.havoc(tie_n=pre["n"], closed=False)
        for h, _ in st["heap"]:
            assume(h != k)
        assume(smin(*st["r"]) >= m if nsubs > 1 else st["r"][0] >= m)
        assume(pred())
        last["st"] = st
        return True

    sim.wait_handler = on_wait
    import strax

    try:
        mb.send(x, msg_number=k)
        outcome = "sent"
    except strax.InvalidMessageNumber:
        outcome = "invalid"
    prove(iff(k <= m, outcome == "invalid"), "send_explicit:rejects iff number already read by all")
    if outcome == "sent":
        st, post = last["st"], sim.snapshot()
        same_entries(st["heap"] + [(k, x)], post["heap"], "send_explicit:queue is not old queue + (k, msg)")
        for i, (h, v) in enumerate(post["heap"]):
            if i:
                prove(post["heap"][(i - 1) // 2][0] < h, "send_explicit:heap order broken")
        prove(len(post["heap"]) <= cap, "send_explicit:capacity exceeded")
    return outcome


def sym_explicit_deadlock(nsubs, cap):
    """State lemma: with capacity > largest displacement, a full queue always holds the next message
    the slowest reader needs (so sender-blocked + reader-blocked cannot happen)."""
    sim = Sim(nsubs, False, cap, lmax=cap, numbering="explicit")
    st = sim.havoc(closed=False, min_len=cap)
    d = fresh_int("d", 0, cap - 1)  # largest displacement < capacity
    m = smin(*st["r"]) if nsubs > 1 else st["r"][0]
    n = st["n"]
    # displacement bound: message k is sent at a send index <= k + d, so after n sends every k <= n-1-d was sent
    assume(implies(m + 1 <= n - 1 - d, has(st["heap"], m + 1)))
    prove(has(st["heap"], m + 1), "explicit:full queue lacks the next needed message (deadlock possible)")
    return "ok"


# ---------------------------------------------------------------------------- read
def sym_read(nsubs, j, cap, lazy, drivers, phase, numbering="default"):
    """_read for subscriber j, one section kind per run (sections are independent inductive steps):
    phase 'entry0': first entry (next_number = 0) from any invariant state -> grab or block;
    phase 'resume': woken from a wait in ANY invariant state with ANY reader position (closure cell
                    rewritten) -> grab / yield / garbage-collect / notify;
    phase 'entry':  a later entry (next_number symbolic) from any invariant state -> grab or block."""
    sim = Sim(nsubs, lazy, cap, drivers=drivers, lmax=(4 if lazy else cap), numbering=numbering)
    mb = sim.mb
    fix_closed = False if numbering == "explicit" else None
    sec = {"i": 0, "pre": None, "post": None, "nn": 0, "checked": 0}
    gen = mb._read(subscriber_i=j)
    vals = []

    def cheap_state(nn, waiting):
        """exactly message nn queued, nobody else behind: a state used only to move the reader on."""
        mb._n_sent = nn + 1
        mb._subscribers_have_read = [nn - 1] * nsubs
        mb._subscriber_waiting_for = [None] * nsubs
        mb._subscriber_waiting_for[j] = waiting
        mb._subscriber_can_drive = list(drivers)
        mb._mailbox = [(nn, payload(nn))]
        mb.closed = mb.killed = mb.force_killed = False
        return sim.snapshot()

    def on_acquire():
        if sec["post"] is not None and sec["target"]:
            check_section()
            raise StopSection()
        sec["i"] += 1
        if sec["i"] == 1:
            if phase == "entry0":
                st, sec["target"] = sim.havoc(tie_r={j: -1}, waiting={j: None}, closed=fix_closed), True
            else:
                # empty mailbox: the reader blocks at once
                mb._n_sent = 0
                mb._subscribers_have_read = [-1] * nsubs
                mb._subscriber_waiting_for = [None] * nsubs
                mb._subscriber_can_drive = list(drivers)
                mb._mailbox = []
                st, sec["target"] = sim.snapshot(), False
            sec["pre"], sec["nn"], sec["post"] = st, 0, None
        else:
            # phase 'entry': second acquisition, reader position is symbolic by now
            nn = sec["post"]["r"][j] + 1
            del vals[:]
            st = sim.havoc(tie_r={j: nn - 1}, waiting={j: None}, closed=fix_closed)
            sec["pre"], sec["nn"], sec["post"], sec["target"] = st, nn, None, True
        sim.reset_notes()

    def on_release():
        sec["post"] = sim.snapshot()
        sec["notes"] = dict(sim.notes)
        sec["can_fetch_post"] = _as_bool(mb._can_fetch()) if lazy else None

    def on_wait(cond, pred):
        pre = sec["pre"]
        if sec["target"]:
            prove(cond.name == "read", "read:waits on the wrong condition")
            prove(snot(has(pre["heap"], sec["nn"])), "read:blocked although its message is queued")
            now = sim.snapshot()
            prove(now["w"][j] == sec["nn"], "read:demand not published before blocking")
            same_entries(now["heap"], pre["heap"], "read:queue changed before blocking")
            for k2 in range(nsubs):
                prove(now["r"][k2] == pre["r"][k2], "read:counters changed before blocking")
            if lazy:
                cf_pre = _can_fetch_on(sim, pre)
                cf_now = _as_bool(mb._can_fetch())
                prove(implies(sand(snot(cf_pre), cf_now), sim.notes["fetch"] >= 1),
                      "read:lost wake-up of the fetcher when publishing demand")
            sec["checked"] += 1
            raise StopSection()
        # --- other threads run; wake up with ANY reader position (closure cell rewritten)
        nn = fresh_int(f"nn{sim.k}", 0, mbox.N_MAX)
        mbox.next_number_cell(pred).cell_contents = nn
        if phase == "resume":
            st = sim.havoc(tie_r={j: nn - 1}, waiting={j: nn}, closed=fix_closed)
            assume(pred())
            sec["target"] = True
        else:
            st = cheap_state(nn, nn)
            sec["target"] = False
        sec["pre"], sec["nn"], sec["post"] = st, nn, None
        sim.reset_notes()
        return True

    def check_section():
        pre, post, nn = sec["pre"], sec["post"], sec["nn"]
        got = list(vals)
        finished = sec.get("finished", False)
        kk = len(got) + (1 if finished else 0)
        prove(kk >= 1, "read:section yielded nothing")
        for p in range(kk):
            num = nn + p
            if p < len(got):
                prove(sor(*[sand(h == num, v is not StopIteration and v == got[p]) for h, v in pre["heap"]]),
                      f"read:yield {p} is not the queued message number next+{p}")
                prove(got[p] == payload(num), "read:delivered payload differs from what was sent under that number")
            else:
                prove(sor(*[sand(h == num, v is StopIteration) for h, v in pre["heap"]]),
                      "read:terminated without the end marker being the next message")
        prove(snot(has(pre["heap"], nn + kk)) if not finished else True, "read:left an available message unread")
        prove(post["r"][j] == nn + kk - 1, "read:own counter is not the last number read")
        for k2 in range(nsubs):
            if k2 != j:
                prove(post["r"][k2] == pre["r"][k2], "read:touched another reader's counter")
        prove(post["n"] == pre["n"], "read:touched n_sent")
        prove(post["w"][j] is None, "read:demand not cleared")
        mpost = smin(*post["r"]) if nsubs > 1 else post["r"][0]
        # garbage collection: exactly the messages read by everybody are dropped
        for h, v in post["heap"]:
            prove(sor(*[sand(h == h2, mbox._same(v, v2)) for h2, v2 in pre["heap"]]), "read:queue gained an entry")
            prove(h > mpost, "read:kept a message everybody has read")
        for h, v in pre["heap"]:
            prove(implies(h > mpost, has(post["heap"], h)), "read:dropped a message somebody still needs")
        sim.prove_inv(post, "read:inv")
        if not lazy:
            prove(implies(sand(len(pre["heap"]) >= cap, len(post["heap"]) < cap), sec["notes"]["write"] >= 1),
                  "read:lost wake-up of the blocked sender")
        else:
            cf_pre = _can_fetch_on(sim, pre)
            prove(implies(sand(snot(cf_pre), sec["can_fetch_post"]), sec["notes"]["fetch"] >= 1),
                  "read:lost wake-up of the fetcher")
        sec["checked"] += 1

    sim.acquire_handler, sim.release_handler, sim.wait_handler = on_acquire, on_release, on_wait
    try:
        while True:
            try:
                v = next(gen)
            except StopIteration:
                sec["finished"] = True
                if sec["target"]:
                    check_section()
                break
            vals.append(v)
    except StopSection:
        pass
    if not sec["checked"]:
        raise core.PathAbort("no target section reached on this path")
    return sec["i"]


# ---------------------------------------------------------------------------- close / future
def sym_close(nsubs, cap, lazy):
    sim = Sim(nsubs, lazy, cap, lmax=(4 if lazy else cap))
    mb = sim.mb
    pre = sim.havoc(closed=False, sender="closing")
    last = {"st": pre}

    def on_wait(cond, pred):
        st = sim.havoc(tie_n=pre["n"], closed=False, sender="closing")
        assume(pred())
        last["st"] = st
        return True

    sim.wait_handler = on_wait
    mb.close()
    post, st = sim.snapshot(), last["st"]
    prove(post["closed"] is True, "close:not closed")
    same_entries(st["heap"] + [(pre["n"], StopIteration)], post["heap"], "close:end marker is not message n_sent")
    prove(post["n"] == pre["n"] + 1, "close:n_sent")
    sim.prove_inv(post, "close:inv")
    import strax

    raised = False
    try:
        mb.send(payload(post["n"]))
    except strax.MailBoxAlreadyClosed:
        raised = True
    prove(raised, "close:later send accepted")
    return "ok"


def sym_future(pos):
    """A Future message is replaced by its result()."""
    from concurrent.futures import Future

    sim = Sim(1, False, 3, lmax=3)
    mb = sim.mb
    nn = fresh_int("nn", 0, mbox.N_MAX)
    mb._n_sent = nn + 3
    mb._subscribers_have_read = [nn - 1]
    mb._subscriber_waiting_for = [None]
    mb._subscriber_can_drive = [True]
    entries = []
    for p in range(3):
        v = payload(nn + p)
        if p == pos:
            f = Future()
            f.set_result(v)
            v = f
        entries.append((nn + p, v))
    mb._mailbox = entries
    gen = mb._read(0)
    mbox.next_number_cell  # noqa
    # the generator starts at next_number=0: tie nn to 0 for this concrete-position check
    assume(nn == 0)
    got = [next(gen) for _ in range(3)]
    for p in range(3):
        prove(got[p] == payload(nn + p), "future:not replaced by its result / order")
    return "ok"


# ---------------------------------------------------------------------------- deadlock state lemma
def sym_no_deadlock(nsubs, cap, lazy, drivers, sender):
    """No invariant state has every thread blocked on a false predicate (default numbering).
    sender: 'send' (blocked in send on can_write), 'gate' (lazy: blocked on _can_fetch), 'closed' (finished)."""
    sim = Sim(nsubs, lazy, cap, drivers=drivers, lmax=(4 if lazy else cap))
    mb = sim.mb
    st = sim.havoc(closed=(sender == "closed"))
    conds = []
    for j in range(nsubs):
        # reader j is either finished (read the end marker) or blocked waiting for r_j+1 with a false predicate
        finished = sand(st["closed"], st["r"][j] == st["n"] - 1) if st["closed"] else False
        blocked = sand(st["w"][j] is not None, snot(_as_bool(mb._has_msg(st["r"][j] + 1))))
        conds.append(sor(finished, blocked))
    all_finished = sand(*[sand(st["closed"], st["r"][j] == st["n"] - 1) for j in range(nsubs)]) if st["closed"] else False
    if sender == "send":
        if lazy:
            return "n/a"
        conds.append(snot(len(mb._mailbox) < mb.max_messages))
    elif sender == "gate":
        if not lazy:
            return "n/a"
        conds.append(snot(_as_bool(mb._can_fetch())))
    stuck = sand(*conds, snot(all_finished))
    prove(snot(stuck), f"deadlock:every thread blocked with a false predicate (sender {sender})")
    return "ok"


# ---------------------------------------------------------------------------- real threads, scheduler
def sym_sched_run(nsubs, nmsg, cap, lazy, drivers, policy, dev):
    """The real Mailbox with real sender/reader threads under the deterministic scheduler: canonical
    policy plus `dev` solver-chosen deviations.  Every reader must receive exactly the sent sequence."""
    import strax.mailbox as mbm

    pol = mbox.deviating_policy(conc.POLICIES[policy], dev)
    maxlen = {"v": 0}
    with mbox.SchedRun(pol) as s:
        mb = mbm.Mailbox("mb", timeout=1, lazy=lazy, max_messages=cap)
        got = [[] for _ in range(nsubs)]

        def reader(it, j):
            for x in it:
                got[j].append(x)
                maxlen["v"] = max(maxlen["v"], len(mb._mailbox))
                s.pause()

        def source():
            for i in range(nmsg):
                maxlen["v"] = max(maxlen["v"], len(mb._mailbox))
                yield ("msg", i)

        for j in range(nsubs):
            mb.add_reader(reader, j=j, can_drive=drivers[j])
        mb.add_sender(source())
        mb.start()
        s.finish()
        prove(s.deadlock is None, f"sched:deadlock {s.deadlock} trace={s.trace}")
        for j in range(nsubs):
            prove(got[j] == [("msg", i) for i in range(nmsg)], f"sched:reader {j} got {got[j]} trace={s.trace}")
        prove(all(t.exc is None for t in s.tasks), f"sched:thread raised {[t.exc for t in s.tasks]}")
        if not lazy:
            prove(maxlen["v"] <= cap, "sched:eager queue exceeded capacity")
        prove(len(mb._mailbox) == 0, "sched:messages left in the queue after everybody finished")
    return s.trace


def nat_sched_run(params, model):
    """Replay: same run with the deviations fixed by the model (no symbols)."""
    import strax.mailbox as mbm

    devs = {}
    for k, v in model.items():
        if k.startswith("dev") and not k.endswith("_i") and v:
            devs[int(k[3:])] = model.get(k + "_i", 0)
    base = conc.POLICIES[params["policy"]]
    cnt = {"k": 0}

    def pol(s, r):
        cnt["k"] += 1
        canon = base(s, r)
        if cnt["k"] in devs and len(r) > 1:
            others = [t for t in r if t is not canon]
            return others[min(devs[cnt["k"]], len(others) - 1)]
        return canon

    nsubs, nmsg = params["nsubs"], params["nmsg"]
    with mbox.SchedRun(pol) as s:
        mb = mbm.Mailbox("mb", timeout=1, lazy=params["lazy"], max_messages=params["cap"])
        got = [[] for _ in range(nsubs)]

        maxlen = {"v": 0}

        def reader(it, j):
            for x in it:
                got[j].append(x)
                maxlen["v"] = max(maxlen["v"], len(mb._mailbox))
                s.pause()

        def source():
            for i in range(nmsg):
                maxlen["v"] = max(maxlen["v"], len(mb._mailbox))
                yield ("msg", i)

        for j in range(nsubs):
            mb.add_reader(reader, j=j, can_drive=params["drivers"][j])
        mb.add_sender(source())
        mb.start()
        s.finish()
    ok = s.deadlock is None and all(g == [("msg", i) for i in range(nmsg)] for g in got)
    if not params["lazy"]:
        ok = ok and maxlen["v"] <= params["cap"]
    return {"ok": ok, "detail": f"deadlock={s.deadlock} got={got} maxlen={maxlen['v']} trace={s.trace}"}


# ---------------------------------------------------------------------------- divide_outputs
def sym_divide(nout, nmsg, fail_at, flow):
    fail_at = tuple(fail_at) if fail_at is not None else None
    return _sym_divide(nout, nmsg, fail_at, flow)


def _sym_divide(nout, nmsg, fail_at, flow):
    """divide_outputs is sequential: with recording mailboxes, the k-th dict's component d is the k-th message
    of mailbox d; all outputs closed at the end, or all killed when the source / a send raises."""
    import strax

    class Rec:
        def __init__(self, name):
            self.name, self.sent, self.closed, self.killed, self.log = name, [], False, None, __import__("logging").getLogger("x")
            self._lock = conc.HavocThreading(conc.Hooks()).RLock()

        def send(self, x):
            if fail_at == ("send", self.name, len(self.sent)):
                raise ZeroDivisionError("send failed")
            self.sent.append(x)

        def close(self):
            self.closed = True

        def kill_from_exception(self, e, reraise=True):
            self.killed = e

        def _can_fetch(self):
            return True

    names = [f"o{i}" for i in range(nout)]
    mbs = {d: Rec(d) for d in names}
    toks = {(d, k): fresh_int(f"{d}_{k}") for d in names for k in range(nmsg)}
    thrown = []

    def source():
        try:
            for k in range(nmsg):
                if fail_at == ("source", k):
                    raise KeyError("source failed")
                yield {d: toks[(d, k)] for d in names}
        except ZeroDivisionError as e:
            thrown.append(e)
            raise

    raised, r = False, None
    try:
        strax.divide_outputs(source(), mbs, lazy=False, flow_freely=tuple(names[:1]) if flow else ())
    except (KeyError, ZeroDivisionError) as e:
        raised, r = True, e
    if fail_at is None:
        prove(not raised, "divide:raised without a failure")
        for d in names:
            prove(len(mbs[d].sent) == nmsg, "divide:message count")
            for k in range(nmsg):
                prove(mbs[d].sent[k] == toks[(d, k)], "divide:k-th message of an output is not the k-th result")
            prove(mbs[d].closed and mbs[d].killed is None, "divide:output not closed")
    else:
        prove(raised, "divide:failure swallowed")
        for d in names:
            prove(mbs[d].killed is r and not mbs[d].closed, "divide:an output mailbox was not killed with the exception")
            for k, v in enumerate(mbs[d].sent):
                prove(v == toks[(d, k)], "divide:wrong message before the failure")
        if fail_at[0] == "send":
            prove(len(thrown) == 1, "divide:source not informed of the failing send")
    return "ok"


def sym_twin_read():
    sym_read(2, 0, 2, False, [True, True], "resume")
    prove(False, "twin:reachable")


def sym_twin_send():
    sym_send(2, 2, False)
    prove(False, "twin:reachable")


# ---------------------------------------------------------------------------- grids
def _caps(tier):
    return [1, 2, 4] if tier == "quick" else [1, 2, 3, 4, 5]


def _subs(tier):
    return [1, 2] if tier == "quick" else [1, 2, 3]


def _g_send(tier):
    g = [dict(nsubs=s, cap=c, lazy=False) for s in _subs(tier) for c in _caps(tier)]
    g += [dict(nsubs=s, cap=None, lazy=True) for s in _subs(tier)]
    return g


def _g_read(tier):
    g = []
    for s in _subs(tier):
        for j in range(s):
            for ph in ("entry0", "resume", "entry"):
                for c in _caps(tier):
                    g.append(dict(nsubs=s, j=j, cap=c, lazy=False, drivers=[True] * s, phase=ph))
                for mask in _masks(s):
                    g.append(dict(nsubs=s, j=j, cap=None, lazy=True, drivers=mask, phase=ph))
            for ph in ("entry0", "resume"):
                for c in _caps(tier):
                    if c >= 2:
                        g.append(dict(nsubs=s, j=j, cap=c, lazy=False, drivers=[True] * s, phase=ph, numbering="explicit"))
    return g


def _g_dead(tier):
    g = []
    for s in _subs(tier):
        for c in _caps(tier):
            for snd in ("send", "closed"):
                g.append(dict(nsubs=s, cap=c, lazy=False, drivers=[True] * s, sender=snd))
        for mask in _masks(s):
            for snd in ("gate", "closed"):
                g.append(dict(nsubs=s, cap=None, lazy=True, drivers=mask, sender=snd))
    return g


def _g_sched(tier):
    g = []
    dev = 1 if tier == "quick" else 2
    for pol in ("lowest", "highest", "rr"):
        for nsubs, masks in ((1, [[True]]), (2, [[True, True], [True, False]])) + ((((3, [[True, False, True]]),)) if tier != "quick" else ()):
            for cap in ((1, 2) if tier == "quick" else (1, 2, 3, 4)):
                g.append(dict(nsubs=nsubs, nmsg=3 if tier == "quick" else 4, cap=cap, lazy=False,
                              drivers=[True] * nsubs, policy=pol, dev=dev))
            for mask in masks:
                g.append(dict(nsubs=nsubs, nmsg=3 if tier == "quick" else 4, cap=None, lazy=True, drivers=mask,
                              policy=pol, dev=dev))
    return g


def _g_divide(tier):
    g = [dict(nout=o, nmsg=m, fail_at=None, flow=f) for o in (1, 2, 3) for m in (0, 1, 3) for f in (False, True)]
    g += [dict(nout=2, nmsg=3, fail_at=["source", k], flow=False) for k in range(3)]
    g += [dict(nout=2, nmsg=3, fail_at=["send", d, k], flow=False) for d in ("o0", "o1") for k in range(3)]
    return g


def _nat_stub(params, model):
    return {"ok": None, "detail": "no concrete replay registered"}


# ---------------------------------------------------------------------------- undelivered messages held (eager mode)
def sym_held(cap):
    """Eager mailbox of capacity `cap`, one subscriber, one thread: send until the mailbox refuses, let the subscriber
    take d messages (d chosen by the solver), send again until it refuses.  Undelivered = accepted - handed to the
    subscriber; the property bounds it by the capacity."""
    import strax

    d = core.concretize(fresh_int("d", 1, cap))
    mb = strax.Mailbox(name="mb", max_messages=cap, timeout=0.02, lazy=False)
    sub = mb.subscribe()
    accepted = 0

    def fill():
        nonlocal accepted
        while True:
            try:
                mb.send(("payload", accepted))
            except strax.MailboxFullTimeout:
                return
            accepted += 1
            if accepted > 4 * cap + 4:
                return

    fill()
    prove(accepted == cap, f"held:a fresh mailbox of capacity {cap} accepted {accepted} messages")
    delivered = 0
    for _ in range(d):
        next(sub)
        delivered += 1
    fill()
    prove(accepted - delivered <= cap, f"held:capacity {cap}: {accepted} accepted, {delivered} delivered -> "
                                       f"{accepted - delivered} undelivered messages held")
    return [accepted, delivered]


def nat_held(params, model):
    label = core.concrete_run(lambda: sym_held(**params), model)
    return {"ok": label is None, "detail": label or "never more than the capacity", "label": label}


# ---------------------------------------------------------------------------- completeness of the rely invariant
def sym_inv_reach(nsubs, cap, lazy, numbering="default", nreal=3, order=None):
    """Soundness guard for every 'from any invariant state' obligation above: each state that real sender / reader
    threads reach (all schedules of a small run, stateful DFS) must be one of the states Sim.havoc ranges over.  A
    state outside means the rely invariant is too STRONG (a reachable region would silently be left unexamined)."""
    drivers = [True] + [False] * (nsubs - 1) if lazy else [True] * nsubs
    states, runs = mbox.enumerate_states(nsubs, lazy, cap, drivers, nreal, order=order)
    missing = []
    for st in states:
        if not mbox.covered_by_invariant(st, nsubs, lazy, cap, drivers, numbering):
            missing.append(st)
    prove(len(states) >= 3, "inv_reach:enumeration found almost no states (vacuous)")
    prove(not missing, f"inv_reach:{len(missing)} of {len(states)} reachable states are excluded by the invariant, e.g. "
                       f"{missing[:2]}")
    return [len(states), runs]


def nat_inv_reach(params, model):
    # a failure here is a defect of the verification machinery (over-constrained rely), never of strax
    return {"ok": None, "detail": "reachable state outside the rely invariant: the invariant must be weakened"}


def _g_inv(tier):
    g = []
    for nsubs in (1, 2):
        for cap in ((1, 2) if tier == "quick" else (1, 2, 3)):
            g.append(dict(nsubs=nsubs, cap=cap, lazy=False, nreal=3 if tier == "quick" else 4))
        g.append(dict(nsubs=nsubs, cap=None, lazy=True, nreal=3 if tier == "quick" else 4))
    for cap, order in ((2, [1, 0, 2]), (3, [2, 0, 1, 3]), (3, [1, 2, 0, 3]), (4, [3, 0, 1, 2])):
        for nsubs in (1, 2):
            g.append(dict(nsubs=nsubs, cap=cap, lazy=False, numbering="explicit", order=order))
    return g


OBLIGATIONS = [
    Ob("held", sym_held, lambda tier: [dict(cap=c) for c in (1, 2, 4)], nat_held, setup=mbox.setup, witnesses=1,
       doc="eager mode: undelivered messages held (queue + the batch a reader has taken but not handed over) <= capacity"),
    Ob("inv_reach", sym_inv_reach, _g_inv, nat_inv_reach, setup=mbox.setup, witnesses=0,
       doc="every state reached by real threads (all schedules, small runs) satisfies the rely invariant"),
    Ob("send", sym_send, _g_send, mbox.nat_rg(sym_send), setup=mbox.setup, witnesses=1,
       doc="send from any invariant state (incl. block on full queue + stale number): pushes exactly (n,msg), "
           "n_sent+1, notifies readers, invariant kept, eager capacity respected, closed refuses"),
    Ob("send_explicit", sym_send_explicit, lambda tier: [dict(nsubs=s, cap=c) for s in _subs(tier) for c in _caps(tier)],
       mbox.nat_rg(sym_send_explicit), setup=mbox.setup, witnesses=1, doc="explicit numbers: rejected iff already read by all; heap order kept"),
    Ob("explicit_deadlock", sym_explicit_deadlock,
       lambda tier: [dict(nsubs=s, cap=c) for s in _subs(tier) for c in _caps(tier)], None, setup=mbox.setup,
       witnesses=0, doc="capacity > displacement => a full queue holds the next needed message"),
    Ob("read", sym_read, _g_read, mbox.nat_rg(sym_read), setup=mbox.setup, witnesses=1,
       doc="reader sections from any invariant state: yields exactly the queued messages next.. in order with the "
           "sent payloads, advances only its own counter, drops exactly what everybody has read, clears/publishes "
           "demand, owes no wake-up"),
    Ob("close", sym_close, _g_send, mbox.nat_rg(sym_close), setup=mbox.setup, witnesses=0),
    Ob("future", sym_future, lambda tier: [dict(pos=p) for p in range(3)], None, setup=mbox.setup, witnesses=0),
    Ob("no_deadlock", sym_no_deadlock, _g_dead, mbox.nat_rg(sym_no_deadlock), setup=mbox.setup, witnesses=1,
       doc="state lemma: no invariant state with all threads blocked on false predicates"),
    Ob("sched_run", sym_sched_run, _g_sched, nat_sched_run, setup=mbox.setup, witnesses=1,
       doc="real Mailbox + real threads under the deterministic scheduler, canonical policies + solver-chosen "
           "deviations: every reader receives exactly the sent sequence, no deadlock, capacity respected"),
    Ob("divide", sym_divide, _g_divide, mbox.nat_rg(sym_divide), setup=mbox.setup, witnesses=1,
       doc="divide_outputs: k-th result dict -> k-th message of each output; closed at end; all killed on failure"),
    Ob("twin_read", sym_twin_read, lambda tier: [dict()], None, setup=mbox.setup, expect_cex=True),
    Ob("twin_send", sym_twin_send, lambda tier: [dict()], None, setup=mbox.setup, expect_cex=True),
]


MUTANTS = [
    dict(name="send blocks on message number minus slowest reader instead of queue length", file="strax/mailbox.py",
         old="                return len(self._mailbox) < self.max_messages or self.killed",
         new="                return (msg_number - min(self._subscribers_have_read, default=-1) - 1) < self.max_messages or self.killed"),
    dict(name="gc uses > instead of >= (keeps a read message)", file="strax/mailbox.py",
         old="min(self._subscribers_have_read) >= self._lowest_msg_number", new="min(self._subscribers_have_read) > self._lowest_msg_number"),
    dict(name="gc uses max instead of min (drops unread messages)", file="strax/mailbox.py",
         old="                    min(self._subscribers_have_read) >= self._lowest_msg_number", new="                    max(self._subscribers_have_read) >= self._lowest_msg_number"),
    dict(name="send does not notify readers", file="strax/mailbox.py",
         old="            self._n_sent += 1\n            self._read_condition.notify_all()", new="            self._n_sent += 1"),
    dict(name="reader does not wake the blocked sender", file="strax/mailbox.py",
         old="                self._write_condition.notify_all()\n\n            for msg_number, msg in to_yield:", new="\n            for msg_number, msg in to_yield:"),
    dict(name="capacity check off by one", file="strax/mailbox.py",
         old="return len(self._mailbox) < self.max_messages or self.killed", new="return len(self._mailbox) <= self.max_messages or self.killed"),
    dict(name="reader publishes no demand", file="strax/mailbox.py",
         old="                    self._subscriber_waiting_for[subscriber_i] = next_number\n", new="                    pass\n"),
    dict(name="reader counter off by one", file="strax/mailbox.py",
         old="self._subscribers_have_read[subscriber_i] = next_number - 1", new="self._subscribers_have_read[subscriber_i] = next_number"),
    dict(name="close forgets the flag", file="strax/mailbox.py",
         old="            self.send(StopIteration)\n            self.closed = True", new="            self.send(StopIteration)"),
    dict(name="divide_outputs does not close outputs", file="strax/mailbox.py",
         old="    else:\n        for m in mbs_to_kill:\n            m.close()", new="    else:\n        for m in mbs_to_kill[:-1]:\n            m.close()"),
]
