"""C06 — failures reach the caller and never hang the pipeline.

(1) Mailbox level, all schedules (rely/guarantee): from ANY invariant state, kill() wakes every kind of waiter and
    makes every predicate true; send/_read entered or resumed on a killed mailbox leave at once with MailboxKilled;
    a kill racing with a blocked send/_read (state re-havocked with killed set) is handled by the re-checks.
(2) Processor level: the real pipeline with a failure injected at a solver-chosen (stage, chunk) position, on the
    single-thread processor and on the threaded processor under the deterministic scheduler (canonical policies +
    solver-chosen deviations): the caller receives the ORIGINAL exception, no deadlock, every thread ends, nothing
    is left stored as valid; abandoning the iterator stops all threads.
"""
import warnings

import numpy as np

from symx import core, conc
from symx.core import fresh_int, fresh_bool, assume, prove, sand, sor, snot, implies, iff
from symx.run import Ob
from harness import common as H, ctx, mbox, C05
from harness.mbox import Sim, payload, StopSection

LEVEL = "model_checking"
FUNCTIONS = ["strax.mailbox.Mailbox.kill", "Mailbox.kill_from_exception", "Mailbox.send", "Mailbox._read",
             "Mailbox._send_from", "divide_outputs", "Mailbox._can_fetch", "ThreadedMailboxProcessor.iter",
             "SingleThreadProcessor.iter", "PostOffice", "SaverSpy", "Context.get_iter (exception relay)",
             "Saver.save_from/close", "Plugin.iter"]
BOUNDS = {
    "quick": "mailbox: subscribers 1..2, queue <= 3, capacity 1..3 / lazy, unbounded message numbers; pipeline: chain "
             "src->m1->(sa,sb) with savers, 3 chunks, failure position = every (stage, chunk) for stages source / mid "
             "plugin / multi-output plugin / loader / saver of target / saver of side output / consumer; lazy and eager; "
             "3 canonical schedules, <=1 deviation",
    "thorough": "subscribers 1..3, queue <= 5; 4 chunks; <=2 deviations",
}
ASSUMPTIONS = C05.ASSUMPTIONS + [
    "pipeline level: deterministic scheduler (canonical policies + bounded deviations); all-schedule claim by "
    "composition: (L1) mailbox kill lemma above, (L2) ThreadedMailboxProcessor.iter kills every mailbox upstream before "
    "joining, (L3) plugin compute terminates",
]
OUTSIDE = ["worker pools / process death of pool workers", "all OS schedules at pipeline level"]
STUBS = C05.STUBS + ["in-memory storage frontend"]
RUN = "0"


# ---------------------------------------------------------------------------- mailbox level
def sym_kill(nsubs, cap, lazy, drivers, upstream):
    """kill from any invariant state: flags set, all three conditions notified, every waiter predicate true."""
    sim = Sim(nsubs, lazy, cap, drivers=drivers, lmax=(4 if lazy else cap))
    mb = sim.mb
    pre = sim.havoc(closed=None)
    sim.reset_notes()
    mb.kill(upstream=upstream, reason=("X", "Y", None))
    prove(mb.killed is True and mb.force_killed == upstream, "kill:flags")
    prove(sim.notes["read"] >= 1 and sim.notes["write"] >= 1 and sim.notes["fetch"] >= 1,
          "kill:a class of waiters was not woken (readers / blocked sender / fetch gate)")
    q = fresh_int("q")
    prove(C05._as_bool(mb._has_msg(q)), "kill:reader predicate still false")
    if lazy:
        prove(C05._as_bool(mb._can_fetch()), "kill:fetch gate still closed")
    # second kill is a no-op and does not lose the reason
    mb.kill(upstream=False, reason="other")
    prove(mb.killed_because == ("X", "Y", None), "kill:reason overwritten by a second kill")
    return "ok"


def sym_send_killed(nsubs, cap, lazy, mode):
    """send on a (force-)killed mailbox; kill racing with a sender blocked on a full queue."""
    import strax

    sim = Sim(nsubs, lazy, cap, lmax=(4 if lazy else cap))
    mb = sim.mb
    if mode == "race":
        if lazy:
            return "n/a"
        pre = sim.havoc(closed=False, min_len=cap, sender="sending")
        force = bool(fresh_bool("force"))

        def on_wait(cond, pred):
            st = sim.havoc(tie_n=pre["n"], closed=False, killed=True, force_killed=force, sender="sending")
            assume(pred())
            return True

        sim.wait_handler = on_wait
    else:
        force = mode == "force"
        pre = sim.havoc(closed=False, killed=True, force_killed=force, sender="sending")
    before = sim.snapshot()
    raised = False
    try:
        mb.send(payload(pre["n"]))
    except strax.MailboxKilled:
        raised = True
    prove(raised == force, "send_killed:force-killed must raise MailboxKilled, plainly killed must drop silently")
    after = sim.snapshot()
    prove(len(after["heap"]) == len(mb._mailbox) and after["n"] == mb._n_sent, "send_killed:state")
    if mode != "race":
        C05.same_entries(before["heap"], after["heap"], "send_killed:queue changed on a killed mailbox")
    return "ok"


def sym_read_killed(nsubs, j, cap, lazy, mode):
    """_read entered on a killed mailbox, or woken by a kill: raises MailboxKilled (never blocks, never yields)."""
    import strax

    sim = Sim(nsubs, lazy, cap, lmax=(4 if lazy else cap))
    mb = sim.mb
    gen = mb._read(subscriber_i=j)
    state = {"i": 0}

    def on_acquire():
        state["i"] += 1
        if mode == "entry":
            sim.havoc(tie_r={j: -1}, waiting={j: None}, killed=True, force_killed=bool(fresh_bool("force")))
        else:
            mb._n_sent = 0
            mb._subscribers_have_read = [-1] * nsubs
            mb._subscriber_waiting_for = [None] * nsubs
            mb._subscriber_can_drive = [True] * nsubs
            mb._mailbox = []

    def on_wait(cond, pred):
        nn = fresh_int("nn", 0, mbox.N_MAX)
        mbox.next_number_cell(pred).cell_contents = nn
        sim.havoc(tie_r={j: nn - 1}, waiting={j: nn}, killed=True, force_killed=bool(fresh_bool("force")))
        prove(pred(), "read_killed:reader predicate false on a killed mailbox (would keep waiting)")
        return True

    sim.acquire_handler, sim.wait_handler = on_acquire, on_wait
    raised, got = False, None
    try:
        got = next(gen)
    except strax.MailboxKilled as e:
        raised = True
        prove(e.args[0] == "because", "read_killed:kill reason not relayed")
    except StopIteration:
        pass
    prove(raised, "read_killed:reader of a killed mailbox did not raise MailboxKilled")
    return "ok"


def sym_sender_exception(lazy, via, when):
    """_send_from / divide_outputs: an exception from the source iterator or from send() kills the mailbox(es) with
    that exception and is thrown into the source."""
    import strax

    sim = Sim(1, lazy, 2, lmax=2)
    mb = sim.mb
    mb._n_sent, mb._subscribers_have_read, mb._subscriber_waiting_for = 0, [-1], [0]
    mb._subscriber_can_drive, mb._mailbox = [True], []
    thrown = []

    class Boom(Exception):
        pass

    def source():
        try:
            if when == "source":
                raise Boom("source failed")
            yield payload(0) if via == "send_from" else {"a": payload(0)}
            yield payload(1) if via == "send_from" else {"a": payload(1)}
        except strax.MailBoxAlreadyClosed as e:
            thrown.append(e)
            raise

    if when == "send":
        mb.closed = True  # every send raises MailBoxAlreadyClosed
    raised = None
    try:
        if via == "send_from":
            mb._send_from(source())
        else:
            strax.divide_outputs(source(), {"a": mb}, lazy=lazy)
    except (Boom, strax.MailBoxAlreadyClosed) as e:
        raised = e
    prove(raised is not None, "sender_exception:swallowed")
    prove(mb.killed and mb.killed_because is not None and mb.killed_because[1] is raised,
          "sender_exception:mailbox not killed with the original exception")
    if when == "send":
        prove(len(thrown) == 1, "sender_exception:source not informed of the failing send")
    return "ok"


# ---------------------------------------------------------------------------- processor level
LAY = ctx.Layout([0, 100, 200, 300], [[(1, 5, 0), (20, 30, 1)], [(110, 120, 2)], [(210, 215, 3), (250, 260, 4)]])
STAGES = ["source", "mid", "multi", "loader", "saver_target", "saver_side", "saver_sibling", "consumer", "exhaust", "apply"]
# "saver_sibling": the saver of the OTHER output (sa, listed first in provides) of the multi-output plugin that makes the
# target (sb) fails
# "apply": the consumer-side code that runs inside get_iter for every chunk (a function registered under
# apply_data_function) raises at chunk j while the pipeline itself is healthy
# "exhaust": a plugin that computes only once all its input has arrived fails - i.e. AFTER the source is exhausted and
# the savers of the upstream data types have been closed


class Boom(Exception):
    pass


def _pipeline(stage, j, obj, L, fe_classes):
    import strax

    MemFrontend, MemBackend, MemSaver = fe_classes
    fe = MemFrontend()
    be = fe.backends[0]
    P = [ctx.P_source("src", "ksrc", L, obj, fail_at=j if stage == "source" else None),
         ctx.P_map("m1", "src", obj, fail_at=j if stage == "mid" else None, rechunk_on_save=False),
         ctx.P_split2(["sa", "sb"], "m1", obj, 6, rechunk_on_save=False)]
    if stage == "multi":
        orig = P[2].compute

        def compute(self, **kw):
            n = ctx.COUNTS.get("sa", 0)
            if n == j:
                raise ZeroDivisionError("multi-output plugin fails")
            return orig(self, **kw)
        P[2].compute = compute
    if stage == "exhaust":
        Ex = ctx.P_exhaust("ex", "sb", obj)

        def compute_ex(self, **kw):
            raise ZeroDivisionError("exhaust plugin fails after all input was consumed")
        Ex.compute = compute_ex
        P.append(Ex)
    if stage == "loader":
        # src is already stored; reading its j-th chunk fails
        stA = ctx.make_context([P[0]], storage=[fe])
        stA.make(RUN, "src", processor="single_thread")
        real_read = be._read_chunk

        def bad_read(backend_key, chunk_info, dtype, compressor):
            if chunk_info["chunk_i"] == j and "-src-" in backend_key:
                raise ZeroDivisionError("loader fails")
            return real_read(backend_key, chunk_info, dtype, compressor)
        be._read_chunk = bad_read
    if stage in ("saver_target", "saver_side", "saver_sibling"):
        which = {"saver_target": "sb", "saver_side": "m1", "saver_sibling": "sa"}[stage]
        real_saver = be._saver

        def _saver(key, metadata, **kw):
            s = real_saver(key, metadata, **kw)
            if f"-{which}-" in key:
                real = s._save_chunk

                def bad(data, chunk_info, executor=None):
                    if chunk_info["chunk_i"] == j:
                        raise ZeroDivisionError(f"saver of {which} fails")
                    return real(data, chunk_info, executor)
                s._save_chunk = bad
            return s
        be._saver = _saver
    return P, fe


def sym_failure(stage, proc="single", lazy=True, policy="lowest", dev=0, sym_layout=False):
    """Failure at chunk j (chosen by the solver) of the given stage; target sb, side outputs saved."""
    import strax

    j = core.concretize(fresh_int("j", 0, 2 if stage != "exhaust" else 0))
    obj = sym_layout
    if sym_layout:
        S = fresh_int("S", 0, H.T_MAX); E = fresh_int("E", 0, H.T_MAX)
        L = ctx.sym_layout("src_", [1, 1, 1], S, E=E)
    else:
        L = LAY
    ctx.COUNTS.clear()
    P, fe = _pipeline(stage, j, obj, L, ctx.make_storage_classes())
    st = ctx.make_context(P, storage=[fe], allow_lazy=lazy, max_messages=2 if not lazy else 4, timeout=1)
    if stage == "apply":
        seen = {"n": 0}

        def bad_apply(data, run_id, targets):
            seen["n"] += 1
            if seen["n"] - 1 == j:
                raise ZeroDivisionError("apply_data_function fails")
            return data
        st.set_context_config(dict(apply_data_function=(bad_apply,)))
    got, exc = [], None

    def consume():
        nonlocal exc
        it = st.get_iter(RUN, "ex" if stage == "exhaust" else "sb",
                         processor="single_thread" if proc == "single" else "threaded_mailbox",
                         progress_bar=False)
        try:
            for n, c in enumerate(it):
                got.append(c)
                if stage == "consumer" and n == j:
                    it.close()  # the consumer abandons the iterator
                    break
        except Exception as e:  # noqa
            exc = e

    if proc == "single":
        consume()
        sched = None
    else:
        pol = mbox.deviating_policy(conc.POLICIES[policy], dev)
        with mbox.SchedRun(pol) as s:
            consume()
            s.finish()
        sched = s
        prove(s.deadlock is None, f"failure:{stage}@{j}: pipeline hung (deadlock {s.deadlock})")
        alive = [t.name for t in s.tasks[1:] if t.state != "done"]
        prove(not alive, f"failure:{stage}@{j}: threads still alive after the caller got control back: {alive}")
    if stage == "consumer":
        # strax relays an OutsideException through the pipeline on purpose when the caller closes the iterator
        prove(exc is None or type(exc).__name__ == "OutsideException", f"failure:consumer: closing the iterator raised {exc!r}")
    else:
        prove(exc is not None, f"failure:{stage}@{j}: no exception reached the caller (silently truncated data: "
                               f"{len(got)} chunks)")
        prove(isinstance(exc, ZeroDivisionError), f"failure:{stage}@{j}: caller received {type(exc).__name__} instead of "
                                                  f"the original exception")
    # nothing of this request is stored as valid data unless it was completely written
    st2 = ctx.make_context(P, storage=[fe])
    for d in ("m1", "sa", "sb"):
        if st2.is_stored(RUN, d):
            md = st2.get_metadata(RUN, d)
            prove("exception" not in md and sum(c["n"] for c in md["chunks"]) == (5 if d != "sa" else 3),
                  f"failure:{stage}@{j}: incomplete {d} is reported as stored")
    return [stage, j, type(exc).__name__ if exc else None]


def nat_failure(params, model):
    label = core.concrete_run(lambda: sym_failure(**params), model)
    return {"ok": label is None, "detail": label or "holds", "label": label}


def sym_twin():
    sym_failure("mid")
    prove(False, "twin:reachable")


def _setup():
    inj = ctx.setup()
    inj2 = mbox.setup()
    inj.saved.extend(inj2.saved)
    return inj


def _g_mb(tier):
    subs = [1, 2] if tier == "quick" else [1, 2, 3]
    caps = [1, 2, 4] if tier == "quick" else [1, 2, 3, 4, 5]
    g = []
    for s in subs:
        for c in caps:
            g.append(dict(nsubs=s, cap=c, lazy=False, drivers=[True] * s))
        g.append(dict(nsubs=s, cap=None, lazy=True, drivers=[True] + [False] * (s - 1)))
    return g


def _g_fail(tier):
    g = []
    for stg in STAGES:
        g.append(dict(stage=stg, proc="single"))
        for lazy in (True, False):
            for pol in ("lowest", "highest", "rr"):
                g.append(dict(stage=stg, proc="threaded", lazy=lazy, policy=pol, dev=0 if tier == "quick" else 1))
    for stg in ("mid", "saver_side"):
        g.append(dict(stage=stg, proc="single", sym_layout=True))
        g.append(dict(stage=stg, proc="threaded", lazy=True, policy="rr", dev=1))
    return g


MUTANTS = [
    dict(name="kill does not wake blocked senders", file="strax/mailbox.py", only="kill",
         old="            self._read_condition.notify_all()\n            self._write_condition.notify_all()\n            self._fetch_new_condition.notify_all()",
         new="            self._read_condition.notify_all()\n            self._fetch_new_condition.notify_all()"),
    dict(name="reader does not re-check killed after waiting", file="strax/mailbox.py", only="read_killed",
         old="                if self.killed:\n                    self.log.debug(f\"Reader finds {self.name} killed\")\n                    raise MailboxKilled(self.killed_because)",
         new="                if False:\n                    raise MailboxKilled(self.killed_because)"),
    dict(name="processor does not kill the other mailboxes", file="strax/processors/threaded_mailbox.py", only="failure",
         old="                    m.kill(upstream=True, reason=reason)", new="                    pass"),
    dict(name="sender thread swallows exceptions", file="strax/mailbox.py", only="sender_exception,failure",
         old="        except Exception as e:\n            self.kill_from_exception(e)\n        else:",
         new="        except Exception as e:\n            self.close()\n        else:"),
]

OBLIGATIONS = [
    Ob("kill", sym_kill, lambda tier: [dict(p, upstream=u) for p in _g_mb(tier) for u in (True, False)],
       mbox.nat_rg(sym_kill), setup=mbox.setup, witnesses=1),
    Ob("send_killed", sym_send_killed, lambda tier: [dict(nsubs=p["nsubs"], cap=p["cap"], lazy=p["lazy"], mode=m)
                                                     for p in _g_mb(tier) for m in ("force", "plain", "race")],
       mbox.nat_rg(sym_send_killed), setup=mbox.setup, witnesses=1),
    Ob("read_killed", sym_read_killed, lambda tier: [dict(nsubs=p["nsubs"], j=j, cap=p["cap"], lazy=p["lazy"], mode=m)
                                                     for p in _g_mb(tier) for j in range(p["nsubs"]) for m in ("entry", "woken")],
       mbox.nat_rg(sym_read_killed), setup=mbox.setup, witnesses=1),
    Ob("sender_exception", sym_sender_exception,
       lambda tier: [dict(lazy=l, via=v, when=w) for l in (False, True) for v in ("send_from", "divide") for w in ("source", "send")],
       mbox.nat_rg(sym_sender_exception), setup=mbox.setup, witnesses=1),
    Ob("failure", sym_failure, _g_fail, nat_failure, setup=_setup, witnesses=1,
       doc="failure at a solver-chosen (stage, chunk): original exception reaches the caller, no hang, all threads end, "
           "nothing incomplete is stored as valid"),
    Ob("twin", sym_twin, lambda tier: [dict()], None, setup=_setup, expect_cex=True),
]
