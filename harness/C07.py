"""C07 — splitting, concatenating, merging and rechunking obey the laws of chunking.

Real code executed symbolically: Chunk.__init__/split/concatenate/merge, split_array,
_split_runs_in_chunk/_merge_*_in_chunk/_mergable_check, Rechunker.receive/flush/get_splits,
strax.diff, merge_arrs/merged_dtype.
"""
import warnings

import numpy as np

from symx import core, arrays
from symx.core import fresh_int, fresh_bool, assume, prove, sand, sor, ite, implies, iff, snot, smax, smin
from symx.run import Ob
from harness import common as H

LEVEL = "model_checking"
FUNCTIONS = [
    "strax.chunk.Chunk.__init__", "Chunk.split", "Chunk.concatenate", "Chunk.merge", "split_array",
    "_split_runs_in_chunk", "_merge_runs_in_chunk", "_mergable_check", "_merge_subruns_in_chunk",
    "_merge_superrun_in_chunk", "_pop_out_empty_run_id", "_sorted_subruns_check", "Rechunker.receive",
    "Rechunker.flush", "Rechunker.get_splits", "strax.processing.general.diff", "strax.utils.merge_arrs",
    "strax.utils.merged_dtype", "continuity_check",
]
BOUNDS = {
    "quick": "rows<=4 per chunk (split, both modes, split time anywhere on Z); <=3 chunks x <=2 rows into "
             "concatenate/merge; rechunker: <=3 input chunks, <=5 rows total, target 1..3 rows; 1..2 runs in "
             "sub/superrun annotations; times in [0,2^62)",
    "thorough": "rows<=5 per chunk; rechunker <=4 chunks, <=6 rows, target 1..4 rows; <=3 annotated runs",
}
ASSUMPTIONS = [
    "all time values in [0, 2^62) (no int64 wrap-around)",
    "rows sorted by start time, inside the chunk's [start,end] (the laws of chunking); overlaps, shared "
    "endpoints and zero-length rows allowed",
    "the 500-row look-back window of Chunk.__init__ is larger than every bound used here",
    "NUMBA_DISABLE_JIT=1 (split_array, diff run as Python source); witnesses replayed on compiled code",
    "Chunk.__repr__ replaced by a constant (formatting only)",
]
OUTSIDE = ["arrays beyond the size bounds", "dtype merging is concrete (numpy dtypes are not solver objects)",
           "target sizes are realised through chunk.target_size_mb values that give an exact row count"]
STUBS = ["np constructors -> object arrays", "min/max -> ite merging", "int -> keeps proxies", "Chunk.__repr__"]

DT = H.DT_END
ITEMSIZE = 24


def _setup():
    warnings.simplefilter("ignore")
    return H.setup_strax()


def sym_rows(prefix, n, S, E):
    ts, es = [], []
    for i in range(n):
        t = fresh_int(f"{prefix}t{i}", 0, H.T_MAX)
        e = fresh_int(f"{prefix}e{i}", 0, H.T_MAX)
        assume(sand(t >= (ts[-1] if ts else S), e >= t, e <= E))
        ts.append(t)
        es.append(e)
    return ts, es


def mk_chunk(ts, es, S, E, ids=None, data_type="x", run_id="0", subruns=None, superrun=None, tsm=200,
             data_kind="k", dtype=DT):
    import strax

    a = H.arr_end(ts, es, ids) if core.active() else None
    return strax.Chunk(data_type=data_type, data_kind=data_kind, dtype=arrays.obj_dtype(dtype), run_id=run_id,
                       start=S, end=E, data=a, subruns=subruns, superrun=superrun, target_size_mb=tsm)


def conc_chunk(model, prefix, n, S, E, data_type="x", run_id="0", subruns=None, superrun=None, tsm=200,
               id0=0, data_kind="k"):
    import strax

    a = H.conc_end(model, prefix, n)
    a["id"] += id0
    return strax.Chunk(data_type=data_type, data_kind=data_kind, dtype=DT, run_id=run_id, start=int(S), end=int(E),
                       data=a, subruns=subruns, superrun=superrun, target_size_mb=tsm)


def ids_of(c):
    return [int(x) for x in c.data["id"]]


# ---------------------------------------------------------------------------- split
def sym_split(n, early):
    import strax

    S = fresh_int("S", 0, H.T_MAX)
    E = fresh_int("E", 0, H.T_MAX)
    assume(E >= S)
    ts, es = sym_rows("a", n, S, E)
    t = fresh_int("t", -H.T_MAX, 2 * H.T_MAX)
    tau = fresh_int("tau")  # Skolem constant
    c = mk_chunk(ts, es, S, E)
    tc = smax(smin(t, E), S)
    straddle = sor(*[sand(ts[i] < tc, tc < es[i]) for i in range(n)]) if n else False
    raised, r = H.expect_raises(strax.CannotSplit, c.split, t, early)
    if early:
        prove(not raised, "split:early mode must never refuse")
    else:
        prove(iff(straddle, raised) if core.is_sym(straddle) else straddle == raised,
              f"split:refuses iff a row straddles t (raised={raised})")
    if raised:
        return "CannotSplit"
    c1, c2 = r
    i1, i2 = ids_of(c1), ids_of(c2)
    prove(i1 + i2 == list(range(n)), "split:rows of the halves do not concatenate to the original")
    prove(sand(c1.start == S, c2.end == E, c1.end == c2.start), "split:halves not adjacent / range changed")
    cut = c1.end
    for i in i1:
        prove(sand(es[i] <= cut, ts[i] >= S), f"split:left row {i} not entirely left of the cut")
    for i in i2:
        prove(sand(ts[i] >= cut, es[i] <= E), f"split:right row {i} not entirely right of the cut")
    if early:
        prove(sand(cut <= tc, cut >= S), "split:early cut not at/before the requested time")
        if n:
            # latest admissible: every tau in (cut, clamp(t)] is straddled by some row
            prove(implies(sand(cut < tau, tau <= tc), sor(*[sand(ts[i] < tau, tau < es[i]) for i in range(n)])),
                  "split:early cut is not the latest admissible time")
        else:
            prove(cut == tc, "split:early cut moved without rows")
    else:
        prove(cut == tc, "split:strict cut not at the (clamped) requested time")
    # inverse: concatenate restores the chunk
    back = strax.Chunk.concatenate([c1, c2])
    prove(sand(back.start == S, back.end == E), "split:concatenate(split) changes the range")
    prove(ids_of(back) == list(range(n)), "split:concatenate(split) changes the rows")
    return [i1, i2]


def nat_split(params, model):
    import strax

    n, early = params["n"], params["early"]
    S, E, t = model["S"], model["E"], model["t"]
    c = conc_chunk(model, "a", n, S, E)
    ts, es = c.data["time"], c.data["endtime"]
    tc = max(min(t, E), S)
    straddle = any(ts[i] < tc < es[i] for i in range(n))
    raised, r = H.expect_raises(strax.CannotSplit, c.split, t, early)
    if raised:
        ok = (not early) and straddle
        return {"ok": ok, "detail": f"CannotSplit early={early} straddle={straddle}"}
    c1, c2 = r
    ok = (not straddle) or early
    why = []
    if not ok:
        why.append("accepted although a row straddles")
    cut = c1.end
    if ids_of(c1) + ids_of(c2) != list(range(n)):
        ok = False; why.append("rows changed")
    if not (c1.start == S and c2.end == E and c1.end == c2.start):
        ok = False; why.append("not adjacent")
    if any(es[i] > cut for i in ids_of(c1)) or any(ts[i] < cut for i in ids_of(c2)):
        ok = False; why.append("row on the wrong side")
    if early:
        if cut > tc:
            ok = False; why.append("cut after t")
        # latest admissible by brute force over candidate times (row starts and tc)
        cands = [x for x in set([tc] + [int(v) for v in ts]) if S <= x <= tc]
        adm = [x for x in cands if not any(ts[i] < x < es[i] for i in range(n))]
        # rows are split by index, equal starts may forbid a candidate; admissible by definition of property
        if adm and max(adm) > cut:
            # need index-consistent: all rows with start >= x must be preceded only by rows ending <= x
            best = max(adm)
            ok = False; why.append(f"later admissible time {best} > cut {cut}")
    else:
        if cut != tc:
            ok = False; why.append("cut != t")
    back = strax.Chunk.concatenate([c1, c2])
    if not (back.start == S and back.end == E and ids_of(back) == list(range(n))):
        ok = False; why.append("concatenate not inverse")
    return {"ok": ok, "detail": "; ".join(why) + f" rows={c.data.tolist()} S={S} E={E} t={t} cut={cut}"}


# ---------------------------------------------------------------------------- concatenate acceptance
def sym_concat(k, nrows):
    import strax

    chunks, bounds = [], []
    nid = 0
    for j in range(k):
        S = fresh_int(f"S{j}", 0, H.T_MAX)
        E = fresh_int(f"E{j}", 0, H.T_MAX)
        assume(E >= S)
        ts, es = sym_rows(f"c{j}", nrows, S, E)
        chunks.append(mk_chunk(ts, es, S, E, ids=list(range(nid, nid + nrows))))
        nid += nrows
        bounds.append((S, E))
    # documented acceptance: each chunk starts at/after the previous one's end (in order, non-overlapping)
    in_order = sand(*[bounds[j][0] >= bounds[j - 1][1] for j in range(1, k)])
    raised, r = H.expect_raises(ValueError, strax.Chunk.concatenate, chunks)
    prove(iff(snot(in_order), raised) if core.is_sym(in_order) else (not in_order) == raised,
          f"concat:rejects iff overlapping or out of order (raised={raised})")
    if raised:
        return "rejected"
    prove(sand(r.start == bounds[0][0], r.end == bounds[-1][1]), "concat:range")
    prove(ids_of(r) == list(range(nid)), "concat:rows")
    return "ok"


def nat_concat(params, model):
    import strax

    k, nrows = params["k"], params["nrows"]
    chunks = [conc_chunk(model, f"c{j}", nrows, model[f"S{j}"], model[f"E{j}"], id0=j * nrows) for j in range(k)]
    in_order = all(chunks[j].start >= chunks[j - 1].end for j in range(1, k))
    raised, r = H.expect_raises(ValueError, strax.Chunk.concatenate, chunks)
    if raised:
        return {"ok": not in_order, "detail": f"rejected in_order={in_order}"}
    ok = in_order and r.start == chunks[0].start and r.end == chunks[-1].end and ids_of(r) == list(range(k * nrows))
    return {"ok": ok, "detail": f"accepted in_order={in_order}"}


def sym_concat_mismatch(kind):
    import strax

    S = fresh_int("S", 0, H.T_MAX)
    M = fresh_int("M", 0, H.T_MAX)
    E = fresh_int("E", 0, H.T_MAX)
    assume(sand(S <= M, M <= E))
    a = mk_chunk([], [], S, M)
    b = mk_chunk([], [], M, E, data_type="y" if kind == "data_type" else "x", run_id="1" if kind == "run_id" else "0")
    raised, r = H.expect_raises(ValueError, strax.Chunk.concatenate, [a, b])
    prove(raised, f"concat_mismatch:{kind} accepted")
    if kind == "run_id":
        r = strax.Chunk.concatenate([a, b], allow_superrun=True)
        prove(sand(r.start == S, r.end == E), "concat_mismatch:superrun concat range")
        prove(r.run_id is None and list(r.superrun) == ["0", "1"], "concat_mismatch:superrun bookkeeping")
        prove(sand(r.superrun["0"]["start"] == S, r.superrun["0"]["end"] == M, r.superrun["1"]["start"] == M,
                   r.superrun["1"]["end"] == E), "concat_mismatch:superrun spans")
    return "ok"


def nat_concat_mismatch(params, model):
    import strax

    kind = params["kind"]
    S, M, E = model["S"], model["M"], model["E"]
    a = conc_chunk(model, "a", 0, S, M)
    b = conc_chunk(model, "a", 0, M, E, data_type="y" if kind == "data_type" else "x",
                   run_id="1" if kind == "run_id" else "0")
    raised, r = H.expect_raises(ValueError, strax.Chunk.concatenate, [a, b])
    return {"ok": raised, "detail": f"raised={raised}"}


# ---------------------------------------------------------------------------- merge
DT_A = np.dtype([("time", np.int64), ("endtime", np.int64), ("id", np.int64), ("x", np.int64)])
DT_B = np.dtype([("time", np.int64), ("endtime", np.int64), ("id", np.int64), ("y", np.int64), ("x", np.int64)])
# 'narrow' variant: the shared column x is int16 in the first data type and int64 in the second
DT_A16 = np.dtype([("time", np.int64), ("endtime", np.int64), ("id", np.int64), ("x", np.int16)])


def sym_merge(n, variant):
    """Same-kind merge: accept iff equal length, equal range, same kind/run; later array wins."""
    import strax

    S1 = fresh_int("S1", 0, H.T_MAX); E1 = fresh_int("E1", 0, H.T_MAX)
    S2 = fresh_int("S2", 0, H.T_MAX); E2 = fresh_int("E2", 0, H.T_MAX)
    assume(sand(E1 >= S1, E2 >= S2))
    lo, hi = smax(S1, S2), smin(E1, E2)
    ts, es = [], []
    for i in range(n):
        t = fresh_int(f"at{i}", 0, H.T_MAX); e = fresh_int(f"ae{i}", 0, H.T_MAX)
        assume(sand(t >= (ts[-1] if ts else lo), e >= t, e <= hi))
        ts.append(t); es.append(e)
    n2 = n + 1 if variant == "len" else n
    a = arrays.make(DT_A, n)
    b = arrays.make(DT_B, n2)
    xs_a = [fresh_int(f"xa{i}") for i in range(n)]
    xs_b = [fresh_int(f"xb{i}") for i in range(n2)]
    if variant == "narrow":
        # values of the shared column that fit the second array's int64 but not the first one's int16: either the merge
        # is refused or the later array's values survive unchanged (decided natively: the proxies have no width)
        for v in xs_b:
            assume(sand(v >= 2**15, v < 2**31))
        for v in xs_a:
            assume(sand(v >= 0, v < 2**15))
    for i in range(n):
        a["time"][i], a["endtime"][i], a["id"][i], a["x"][i] = ts[i], es[i], i, xs_a[i]
    for i in range(n2):
        j = min(i, n - 1) if n else 0
        b["time"][i] = ts[j] if n else lo
        b["endtime"][i] = es[j] if n else lo
        b["id"][i], b["x"][i], b["y"][i] = i, xs_b[i], 7
    if n == 0 and n2 == 1:
        assume(lo <= hi)
    ca = strax.Chunk(data_type="a", data_kind="k", dtype=arrays.obj_dtype(DT_A), run_id="0", start=S1, end=E1, data=a)
    cb = strax.Chunk(data_type="b", data_kind="k2" if variant == "kind" else "k", dtype=arrays.obj_dtype(DT_B),
                     run_id="1" if variant == "run" else "0", start=S2, end=E2, data=b)
    same_range = sand(S1 == S2, E1 == E2)
    must_accept = sand(same_range, variant in ("ok", "narrow"))
    raised, r = H.expect_raises(ValueError, strax.Chunk.merge, [ca, cb], "m")
    if variant == "narrow" and raised:
        return "rejected"  # refusing columns of different dtype is fine
    prove(iff(snot(must_accept), raised) if core.is_sym(must_accept) else (not must_accept) == raised,
          f"merge:{variant} accepts iff equal length/range/kind/run (raised={raised})")
    if raised:
        return "rejected"
    prove(sand(r.start == S1, r.end == E1), "merge:range")
    prove(len(r) == n and r.data_type == "m" and r.data_kind == "k", "merge:len/kind")
    prove(set(r.data.dtype.names) == {"time", "endtime", "id", "x", "y"}, "merge:fields")
    for i in range(n):
        prove(sand(r.data["x"][i] == xs_b[i], r.data["time"][i] == ts[i], r.data["y"][i] == 7),
              "merge:later array must win on shared fields")
    return "ok"


def nat_merge(params, model):
    import strax

    n, variant = params["n"], params["variant"]
    n2 = n + 1 if variant == "len" else n
    dta = DT_A16 if variant == "narrow" else DT_A
    a = np.zeros(n, dta); b = np.zeros(n2, DT_B)
    lo = max(model["S1"], model["S2"])
    for i in range(n):
        a[i] = (model[f"at{i}"], model[f"ae{i}"], i, model[f"xa{i}"])
    for i in range(n2):
        j = min(i, n - 1) if n else 0
        b[i] = (model[f"at{j}"] if n else lo, model[f"ae{j}"] if n else lo, i, 7, model[f"xb{i}"])
    try:
        ca = strax.Chunk(data_type="a", data_kind="k", dtype=dta, run_id="0", start=model["S1"], end=model["E1"], data=a)
        cb = strax.Chunk(data_type="b", data_kind="k2" if variant == "kind" else "k", dtype=DT_B,
                         run_id="1" if variant == "run" else "0", start=model["S2"], end=model["E2"], data=b)
    except ValueError as e:
        return {"ok": None, "detail": f"precondition not met natively: {e}"}
    must = variant in ("ok", "narrow") and model["S1"] == model["S2"] and model["E1"] == model["E2"]
    raised, r = H.expect_raises(ValueError, strax.Chunk.merge, [ca, cb], "m")
    if raised:
        return {"ok": (not must) or variant == "narrow", "detail": f"rejected must_accept={must}"}
    got = [int(v) for v in r.data["x"]]
    ok = must and got == [model[f"xb{i}"] for i in range(n)]
    return {"ok": ok, "label": "merge:shared column of different dtype silently cast" if variant == "narrow" else None,
            "detail": f"accepted must_accept={must}; merged x = {got} ({r.data.dtype['x']}), later array has "
                      f"{[model[f'xb{i}'] for i in range(n)]}"}


# ---------------------------------------------------------------------------- sub/superrun bookkeeping
def sym_runs_split(nruns):
    """Superrun-annotated chunk: spans after split partition the parent's spans at t; concatenate restores."""
    import strax

    bnds = [fresh_int(f"B{i}", 0, H.T_MAX) for i in range(nruns + 1)]
    for i in range(nruns):
        assume(bnds[i + 1] > bnds[i])
    S, E = bnds[0], bnds[-1]
    names = [f"r{i}" for i in range(nruns)]
    sub = {names[i]: {"start": bnds[i], "end": bnds[i + 1]} for i in range(nruns)}
    t = fresh_int("t", 0, H.T_MAX)
    c = mk_chunk([], [], S, E, run_id="_sup", subruns=dict(sub), superrun=None)
    prove(c.is_superrun and c.promised_continuity, "runs:not recognised as superrun chunk")
    c1, c2 = c.split(t)
    tc = smax(smin(t, E), S)
    for cc, side in ((c1, "L"), (c2, "R")):
        got = cc.subruns
        for i, nm in enumerate(names):
            lo = bnds[i] if side == "L" else smax(bnds[i], tc)
            hi = smin(bnds[i + 1], tc) if side == "L" else bnds[i + 1]
            nonempty = hi > lo
            if got is not None and nm in got:
                prove(sand(nonempty, got[nm]["start"] == lo, got[nm]["end"] == hi), f"runs:{side} span of {nm} wrong")
            else:
                prove(snot(nonempty), f"runs:{side} lost run {nm}")
    if c1.subruns is not None and c2.subruns is not None:
        back = strax.Chunk.concatenate([c1, c2])
        prove(list(back.subruns) == names, "runs:concatenate lost/reordered runs")
        for i, nm in enumerate(names):
            prove(sand(back.subruns[nm]["start"] == bnds[i], back.subruns[nm]["end"] == bnds[i + 1]),
                  "runs:concatenate does not restore the spans")
    return "ok"


def nat_runs_split(params, model):
    import strax

    nr = params["nruns"]
    b = [model[f"B{i}"] for i in range(nr + 1)]
    names = [f"r{i}" for i in range(nr)]
    sub = {names[i]: {"start": b[i], "end": b[i + 1]} for i in range(nr)}
    c = conc_chunk(model, "a", 0, b[0], b[-1], run_id="_sup", subruns=sub)
    t = model["t"]
    c1, c2 = c.split(t)
    tc = max(min(t, b[-1]), b[0])
    ok = True
    for cc, side in ((c1, "L"), (c2, "R")):
        want = {}
        for i, nm in enumerate(names):
            lo = b[i] if side == "L" else max(b[i], tc)
            hi = min(b[i + 1], tc) if side == "L" else b[i + 1]
            if hi > lo:
                want[nm] = {"start": lo, "end": hi}
        got = cc.subruns or {}
        ok = ok and got == want
    return {"ok": ok, "detail": f"L={c1.subruns} R={c2.subruns} b={b} t={t}"}


def sym_super_split(nruns):
    """Chunks of `nruns` DIFFERENT runs glued together (allow_superrun, as Plugin.iter does with the input of a
    first-level superrun plugin): run_id is None and the `superrun` annotation lists the runs.  Splitting at any time
    and concatenating the halves again must give back the annotation."""
    import strax

    bnds = [fresh_int(f"B{i}", 0, H.T_MAX) for i in range(nruns + 1)]
    for i in range(nruns):
        assume(bnds[i + 1] > bnds[i])
    names = [f"r{i}" for i in range(nruns)]
    parts = [mk_chunk([], [], bnds[i], bnds[i + 1], run_id=names[i]) for i in range(nruns)]
    whole = strax.Chunk.concatenate(parts, allow_superrun=True)
    t = fresh_int("t", 0, H.T_MAX)
    c1, c2 = whole.split(t)
    back = strax.Chunk.concatenate([c1, c2], allow_superrun=True)
    prove(sand(back.start == bnds[0], back.end == bnds[-1]), "super_split:range not restored")
    prove(list(back.superrun) == names, f"super_split:runs lost / reordered: {list(back.superrun)}")
    for i, nm in enumerate(names):
        prove(sand(back.superrun[nm]["start"] == bnds[i], back.superrun[nm]["end"] == bnds[i + 1]),
              "super_split:span of a run not restored")
    return "ok"


def nat_super_split(params, model):
    import strax

    nr = params["nruns"]
    b = [model[f"B{i}"] for i in range(nr + 1)]
    names = [f"r{i}" for i in range(nr)]
    dt = np.dtype([("time", np.int64), ("endtime", np.int64)])
    parts = [strax.Chunk(start=b[i], end=b[i + 1], data=np.zeros(0, dt), dtype=dt, data_type="x", data_kind="k",
                         run_id=names[i]) for i in range(nr)]
    try:
        whole = strax.Chunk.concatenate(parts, allow_superrun=True)
        c1, c2 = whole.split(model["t"])
        back = strax.Chunk.concatenate([c1, c2], allow_superrun=True)
    except Exception as e:
        return {"ok": False, "label": "super_split:raised", "detail": f"raised {type(e).__name__}: {str(e)[:200]}"}
    want = {names[i]: {"start": b[i], "end": b[i + 1]} for i in range(nr)}
    return {"ok": back.superrun == want, "detail": f"back={back.superrun} want={want}"}


# ---------------------------------------------------------------------------- rechunker
def _tsm(rows):
    """A target_size_mb that makes Rechunker.get_splits assume exactly `rows` rows per chunk."""
    for eps in (0.0, 0.25, 0.5):
        v = (rows + eps) * ITEMSIZE / 1e6
        if int((v * 1e6) // ITEMSIZE) == rows:
            return v
    raise AssertionError


def sym_rechunk(layout, target):
    """layout: rows per input chunk, e.g. [2,1,2]."""
    import strax

    k = len(layout)
    bnds = [fresh_int(f"B{i}", 0, H.T_MAX) for i in range(k + 1)]
    for i in range(k):
        assume(bnds[i + 1] >= bnds[i])
    tsm = _tsm(target)
    chunks, allt, alle = [], [], []
    nid = 0
    for j, nr in enumerate(layout):
        ts, es = sym_rows(f"c{j}", nr, bnds[j], bnds[j + 1])
        chunks.append(mk_chunk(ts, es, bnds[j], bnds[j + 1], ids=list(range(nid, nid + nr)), tsm=tsm))
        nid += nr
        allt += ts
        alle += es
    rc = strax.Rechunker(rechunk=True, run_id="0")
    out = []
    try:
        for c in chunks:
            out += rc.receive(c)
        out += rc.flush()
    except (ValueError, IndexError, strax.CannotSplit, AssertionError, ZeroDivisionError) as e:
        prove(False, f"rechunk:raised {type(e).__name__} on a valid chunk stream")
    prove(len(out) >= 1, "rechunk:no output")
    prove(sand(out[0].start == bnds[0], out[-1].end == bnds[-1]), "rechunk:overall range changed")
    ids = []
    for i, c in enumerate(out):
        if i:
            prove(c.start == out[i - 1].end, "rechunk:output not contiguous")
        ids += ids_of(c)
        for r in ids_of(c):
            prove(sand(allt[r] >= c.start, alle[r] <= c.end), "rechunk:row outside its chunk")
    prove(ids == list(range(nid)), "rechunk:rows lost / duplicated / reordered")
    # cuts: every output boundary is an input boundary or falls in a row-free gap
    for c in out[:-1]:
        cut = c.end
        is_in = sor(*[cut == b for b in bnds])
        free = sand(*[snot(sand(allt[r] < cut, cut < alle[r])) for r in range(nid)]) if nid else True
        prove(free, "rechunk:cut straddles a row")
        in_gap = sand(*[sor(alle[r] <= cut, allt[r] >= cut) for r in range(nid)]) if nid else True
        prove(sor(is_in, in_gap), "rechunk:new cut neither an input boundary nor in a row-free gap")
    return [ids_of(c) for c in out]


def nat_rechunk(params, model):
    import strax

    layout, target = params["layout"], params["target"]
    k = len(layout)
    b = [model[f"B{i}"] for i in range(k + 1)]
    tsm = _tsm(target)
    chunks, nid = [], 0
    for j, nr in enumerate(layout):
        chunks.append(conc_chunk(model, f"c{j}", nr, b[j], b[j + 1], tsm=tsm, id0=nid))
        nid += nr
    rc = strax.Rechunker(rechunk=True, run_id="0")
    out = []
    try:
        for c in chunks:
            out += rc.receive(c)
        out += rc.flush()
    except Exception as e:
        return {"ok": False, "detail": f"Rechunker raised {type(e).__name__}: {e} on rows "
                                       f"{[c.data.tolist() for c in chunks]} bounds={b} target_rows={target}",
                "label": f"rechunk:raised {type(e).__name__}"}
    ids = [i for c in out for i in ids_of(c)]
    ok = ids == list(range(nid)) and out[0].start == b[0] and out[-1].end == b[-1]
    ok = ok and all(out[i].start == out[i - 1].end for i in range(1, len(out)))
    allrows = np.concatenate([c.data for c in chunks])
    for c in out[:-1]:
        ok = ok and not any(r["time"] < c.end < r["endtime"] for r in allrows)
    return {"ok": bool(ok), "detail": f"out={[(c.start, c.end, ids_of(c)) for c in out]}"}


def sym_twin_split(n):
    S = fresh_int("S", 0, H.T_MAX); E = fresh_int("E", 0, H.T_MAX)
    assume(E >= S)
    ts, es = sym_rows("a", n, S, E)
    t = fresh_int("t", -H.T_MAX, 2 * H.T_MAX)
    c = mk_chunk(ts, es, S, E)
    c.split(t, True)
    prove(False, "twin:reachable")


# ---------------------------------------------------------------------------- grids
def _g_rechunk(tier):
    if tier == "quick":
        layouts = [[1], [2], [3], [1, 1], [2, 1], [1, 2], [2, 2], [0, 2], [2, 0], [1, 1, 1], [2, 1, 1], [1, 0, 2],
                   [3, 2], [4], [5], [2, 2, 1]]
        targets = [1, 2, 3]
    else:
        layouts = [[n] for n in range(1, 7)] + [[a, b] for a in range(0, 4) for b in range(0, 4) if a + b] + \
                  [[a, b, c] for a in range(0, 3) for b in range(0, 3) for c in range(0, 3) if a + b + c] + \
                  [[1, 1, 1, 1], [2, 1, 1, 2], [2, 2, 2], [0, 3, 0, 3]]
        targets = [1, 2, 3, 4]
    return [dict(layout=l, target=t) for l in layouts for t in targets if t <= max(1, sum(l))]


OBLIGATIONS = [
    Ob("split", sym_split, lambda tier: [dict(n=n, early=e) for n in range(0, 5 if tier == "quick" else 6)
                                         for e in (False, True)], nat_split, setup=_setup,
       doc="adjacent halves, rows partition, refuse iff straddle, early = latest admissible, concatenate inverse"),
    Ob("concat", sym_concat, lambda tier: [dict(k=k, nrows=r) for k, r in
                                           ((2, 0), (2, 1), (2, 2), (3, 0), (3, 1)) + (((3, 2), (4, 1)) if tier != "quick" else ())],
       nat_concat, setup=_setup, doc="accept iff in order and non-overlapping"),
    Ob("concat_mismatch", sym_concat_mismatch, lambda tier: [dict(kind="data_type"), dict(kind="run_id")],
       nat_concat_mismatch, setup=_setup),
    Ob("merge", sym_merge, lambda tier: [dict(n=n, variant=v) for n in (0, 1, 2) for v in ("ok", "len", "kind", "run")] +
       [dict(n=1, variant="narrow"), dict(n=2, variant="narrow")],
       nat_merge, setup=_setup, doc="accept iff equal length/range/kind/run; later array wins"),
    Ob("super_split", sym_super_split, lambda tier: [dict(nruns=n) for n in ((1, 2, 3, 4) if tier == "quick" else (1, 2, 3, 4, 5))],
       nat_super_split, setup=_setup, witnesses=1,
       doc="chunks of several runs glued with allow_superrun: split anywhere + concatenate restores the superrun annotation"),
    Ob("runs_split", sym_runs_split, lambda tier: [dict(nruns=n) for n in ((1, 2) if tier == "quick" else (1, 2, 3))],
       nat_runs_split, setup=_setup, doc="sub/superrun spans partition at t; concatenate restores"),
    Ob("rechunk", sym_rechunk, _g_rechunk, nat_rechunk, setup=_setup,
       doc="contiguous, same rows, same range, cuts in row-free gaps, never raises on valid input"),
    Ob("twin_split", sym_twin_split, lambda tier: [dict(n=2)], None, setup=_setup, expect_cex=True),
]


MUTANTS = [
    dict(name="original F-C07: first gap never a candidate", file="strax/chunk.py", only="rechunk",
         old="        argmin = -1\n", new="        argmin = 0\n"),
    dict(name="split_array refuses to split between touching rows", file="strax/chunk.py", only="split",
         old='        if d["time"] >= latest_end_seen:\n            splittable_i = i', new='        if d["time"] > latest_end_seen:\n            splittable_i = i'),
    dict(name="concatenate accepts overlapping chunks", file="strax/chunk.py", only="concat",
         old="            if c.start < prev_end:", new="            if c.start < prev_end - 1:"),
    dict(name="merge: first array wins on shared fields", file="strax/utils.py", only="merge",
         old="    for arr in arrs:\n        for fn in arr.dtype.names:", new="    for arr in arrs[::-1]:\n        for fn in arr.dtype.names:"),
    dict(name="gap indices point at the row before the gap", file="strax/chunk.py", only="rechunk",
         old="        gap_indices = np.argwhere(strax.diff(data) > min_gap).flatten() + 1", new="        gap_indices = np.argwhere(strax.diff(data) > min_gap).flatten()"),
    dict(name="run spans of the right half keep the old start", file="strax/chunk.py", only="runs_split",
         old='            runs_second_chunk[run_id] = {"start": int(t), "end": run_start_end["end"]}',
         new='            runs_second_chunk[run_id] = {"start": run_start_end["start"], "end": run_start_end["end"]}'),
]
