"""C08 — plugins see time-aligned inputs and receive each input row exactly once.

The real Plugin.iter / _fetch_chunk / do_compute / _fix_output / Chunk.split/concatenate/merge run on
dependencies that arrive in independent symbolic chunkings; a recording compute() is the observer.
"""
import warnings

import numpy as np

from symx import core, arrays
from symx.core import fresh_int, assume, prove, sand, sor, implies, iff, snot
from symx.run import Ob
from harness import common as H

LEVEL = "model_checking"
FUNCTIONS = [
    "strax.plugins.plugin.Plugin.iter", "Plugin._fetch_chunk", "Plugin.do_compute", "Plugin._iter_compute",
    "Plugin._fix_output", "Plugin._check_dtype", "Plugin.chunk", "Plugin.superrun_transformation",
    "Plugin._check_subruns_uniqueness", "Plugin.dependencies_by_kind", "strax.utils.group_by_kind",
    "strax.chunk.Chunk.__init__", "Chunk.split", "Chunk.concatenate", "Chunk.merge", "split_array",
    "strax.utils.merge_arrs", "strax.utils.merged_dtype",
]
BOUNDS = {
    "quick": "1..3 dependencies in 1..2 data kinds, <=3 chunks per dependency, <=2 rows per chunk (<=3 rows per "
             "kind); chunk boundaries, row times and per-dependency run ends symbolic on Z",
    "thorough": "up to 3 dependencies / 3 kinds, <=3 chunks per dependency, <=4 rows per kind (a 4-dependency and a "
                "3-dependency 2+2+3-chunk configuration explore for hours and were dropped)",
}
ASSUMPTIONS = [
    "all time values in [0, 2^62)",
    "each dependency obeys the laws of chunking (contiguous chunks from a common start S, rows sorted and inside "
    "their chunk); same-kind dependencies carry the same rows (same times) in independent chunkings",
    "compute() is a recording stub; executor=None (futures are yielded unchanged and are outside this check)",
]
OUTSIDE = ["parallel executors", "online sources (is_ready / source_finished polling)", "more than 4 dependencies"]
STUBS = ["np constructors -> object arrays", "min/max -> ite merging", "int", "Chunk.__repr__", "Plugin.__repr__"]


def _setup():
    warnings.simplefilter("ignore")
    import strax.plugins.plugin as pp

    def extra(inj):
        inj.inject_default(pp, which=("np", "min", "max"))

    return H.setup_strax(extra=extra)


def _dep_dtype(name, obj):
    dt = np.dtype([("time", np.int64), ("endtime", np.int64), (f"id_{name}", np.int64)])
    return arrays.obj_dtype(dt) if obj else dt


OUT_DT = np.dtype([("time", np.int64), ("endtime", np.int64), ("n", np.int64)])


def build_plugin(deps, save_when, obj):
    """deps: list of (name, kind).  Returns (plugin, calls) with plugin.compute recording into calls."""
    import strax

    calls = []
    kinds = []
    for _, k in deps:
        if k not in kinds:
            kinds.append(k)

    class Dep(strax.Plugin):
        depends_on = ()
        provides = ("x",)
        dtype = OUT_DT

        def __init__(self, name, kind):
            self._name, self._kind = name, kind

        def data_kind_for(self, d):
            return self._kind

    def _compute(self, start, end):
        calls[-1]["start"], calls[-1]["end"] = start, end
        return arrays.make(OUT_DT, 0) if obj else np.zeros(0, OUT_DT)

    # compute must name the data kinds for Plugin.__init__'s signature inspection
    ns = {}
    exec("def compute(self, %s, start, end):\n    return self._compute(start, end)\n" % ", ".join(kinds), ns)

    class P(strax.Plugin):
        depends_on = tuple(n for n, _ in deps)
        provides = ("out",)
        data_kind = "out"
        dtype = arrays.obj_dtype(OUT_DT) if obj else OUT_DT
        compute = ns["compute"]

        def do_compute(self, chunk_i=None, **kwargs):
            calls.append({"chunks": {k: (v.start, v.end, v.data) for k, v in kwargs.items()}})
            return super().do_compute(chunk_i=chunk_i, **kwargs)

    P._compute = _compute
    P.save_when = save_when
    p = P()
    p.deps = {n: Dep(n, k) for n, k in deps}
    p.run_id = "0"
    p.lineage = {}
    return p, calls, kinds


def chunk_iter(chunks):
    for c in chunks:
        yield c


def sym_align(deps, save="ALWAYS", stair=False):
    """deps: list of [name, kind, layout(rows per chunk)].  stair: the rows are a CONCRETE staircase of interleaved
    rows of two kinds (row i of kind k = [4i + 2k, 4i + 2k + 3)): each trimming pass of Plugin.iter can move the common
    end back by one row only, so long staircases need many passes; the chunk boundaries stay symbolic."""
    import strax

    deps = [(d[0], d[1], list(d[2])) for d in deps]
    S = 0 if stair else fresh_int("S", 0, H.T_MAX)
    # rows per kind
    kind_rows = {}
    for name, kind, layout in deps:
        n = sum(layout)
        if kind in kind_rows:
            assert len(kind_rows[kind][0]) == n, "same-kind deps must have the same row count"
            continue
        if stair:
            ki = len(kind_rows)
            kind_rows[kind] = ([4 * i + 2 * ki for i in range(n)], [4 * i + 2 * ki + 3 for i in range(n)])
            continue
        ts, es = [], []
        for i in range(n):
            t = fresh_int(f"{kind}_t{i}", 0, H.T_MAX)
            e = fresh_int(f"{kind}_e{i}", 0, H.T_MAX)
            assume(sand(t >= (ts[-1] if ts else S), e > t))  # positive-length rows
            ts.append(t); es.append(e)
        kind_rows[kind] = (ts, es)
    ends = {}
    iters = {}
    for name, kind, layout in deps:
        ts, es = kind_rows[kind]
        k = len(layout)
        b = [S] + [fresh_int(f"{name}_b{j}", 0, H.T_MAX) for j in range(1, k + 1)]
        chunks, r0 = [], 0
        for j, nr in enumerate(layout):
            assume(b[j + 1] >= b[j])
            a = arrays.make(_dep_dtype(name, False), nr)
            for q in range(nr):
                i = r0 + q
                assume(sand(ts[i] >= b[j], es[i] <= b[j + 1]))
                a["time"][q], a["endtime"][q], a[f"id_{name}"][q] = ts[i], es[i], i
            r0 += nr
            chunks.append(strax.Chunk(data_type=name, data_kind=kind, dtype=_dep_dtype(name, True), run_id="0",
                                      start=b[j], end=b[j + 1], data=a))
        ends[name] = b[-1]
        iters[name] = chunk_iter(chunks)
    names = [d[0] for d in deps]
    equal_ends = sand(*[ends[n] == ends[names[0]] for n in names[1:]])
    p, calls, kinds = build_plugin([(n, k) for n, k, _ in deps], getattr(strax.SaveWhen, save), True)
    raised, r = H.expect_raises((RuntimeError, ValueError), lambda: list(p.iter(iters)))
    if raised:
        # an error is only legitimate when the dependencies do not end together
        prove(snot(equal_ends), f"align:raised {type(r).__name__} although all dependencies cover the same range")
        return f"raised {type(r).__name__}"
    # ---- no exception: every row delivered exactly once, in order; calls aligned and adjacent
    prove(len(calls) >= 1, "align:no compute call")
    E0 = ends[names[0]]
    delivered = {n: [] for n in names}
    prev_end = None
    for ci, c in enumerate(calls):
        rng = list(c["chunks"].values())
        st, en = rng[0][0], rng[0][1]
        for (s2, e2, _) in rng[1:]:
            prove(sand(s2 == st, e2 == en), "align:kinds cover different intervals in one compute call")
        prove(sand(c["start"] == st, c["end"] == en), "align:start/end passed to compute differ from inputs")
        prove(st == (S if prev_end is None else prev_end), "align:successive calls not adjacent / first not at run start")
        prev_end = en
        for kind, (s2, e2, data) in c["chunks"].items():
            dn = [n for n, k, _ in deps if k == kind]
            ts, es = kind_rows[kind]
            cols = [[int(x) for x in data[f"id_{n}"]] for n in dn]
            for col in cols[1:]:
                prove(col == cols[0], "align:same-kind inputs not row-aligned after merge")
            for n, col in zip(dn, cols):
                delivered[n] += col
            for i in cols[0]:
                prove(sand(ts[i] >= st, es[i] <= en), "align:row outside the interval of its compute call")
    for n, kind, layout in deps:
        prove(delivered[n] == list(range(sum(layout))),
              f"align:rows of {n} lost/duplicated/reordered: {delivered[n]}")
    prove(implies(equal_ends, prev_end == E0), "align:calls do not cover the run up to its end")
    return {n: delivered[n] for n in names}


def nat_align(params, model):
    import strax

    deps = [(d[0], d[1], list(d[2])) for d in params["deps"]]
    save = params.get("save", "ALWAYS")
    stair = params.get("stair", False)
    S = 0 if stair else model["S"]
    kinds_seen = []
    for _, kind, _ in deps:
        if kind not in kinds_seen:
            kinds_seen.append(kind)
    iters, ends, nrows = {}, {}, {}
    for name, kind, layout in deps:
        b = [S] + [model[f"{name}_b{j}"] for j in range(1, len(layout) + 1)]
        chunks, r0 = [], 0
        ki = kinds_seen.index(kind)
        for j, nr in enumerate(layout):
            a = np.zeros(nr, _dep_dtype(name, False))
            for q in range(nr):
                if stair:
                    a[q] = (4 * (r0 + q) + 2 * ki, 4 * (r0 + q) + 2 * ki + 3, r0 + q)
                else:
                    a[q] = (model[f"{kind}_t{r0 + q}"], model[f"{kind}_e{r0 + q}"], r0 + q)
            r0 += nr
            chunks.append(strax.Chunk(data_type=name, data_kind=kind, dtype=_dep_dtype(name, False), run_id="0",
                                      start=b[j], end=b[j + 1], data=a))
        iters[name] = chunk_iter(chunks)
        ends[name] = b[-1]
        nrows[name] = r0
    p, calls, kinds = build_plugin([(n, k) for n, k, _ in deps], getattr(strax.SaveWhen, save), False)
    equal = len(set(ends.values())) == 1
    with warnings.catch_warnings():
        warnings.simplefilter("ignore")
        raised, r = H.expect_raises((RuntimeError, ValueError), lambda: list(p.iter(iters)))
    if raised:
        return {"ok": not equal, "detail": f"raised {r!r} equal_ends={equal}"}
    delivered = {n: [] for n, _, _ in deps}
    ok, prev = True, S
    for c in calls:
        rng = {(v[0], v[1]) for v in c["chunks"].values()}
        ok = ok and len(rng) == 1 and list(rng)[0][0] == prev
        prev = list(rng)[0][1]
        for kind, (s2, e2, data) in c["chunks"].items():
            for n, k, _ in deps:
                if k == kind:
                    delivered[n] += [int(x) for x in data[f"id_{n}"]]
            ok = ok and all(r["time"] >= s2 and r["endtime"] <= e2 for r in data)
    ok = ok and all(delivered[n] == list(range(nrows[n])) for n in delivered)
    if equal:
        ok = ok and prev == list(ends.values())[0]
    return {"ok": bool(ok), "detail": f"delivered={delivered} calls={[(c['start'], c['end']) for c in calls]}"}


def sym_twin(deps):
    import strax

    sym_align(deps)
    prove(False, "twin:reachable")


# ---------------------------------------------------------------------------- grids
def _layouts(nchunks, nrows):
    """All ways to spread nrows rows over nchunks chunks with <=2 rows per chunk."""
    if nchunks == 1:
        return [[nrows]] if nrows <= 2 else []
    out = []
    for first in range(0, min(2, nrows) + 1):
        for rest in _layouts(nchunks - 1, nrows - first):
            out.append([first] + rest)
    return out


def _grid(tier):
    g = []
    # single dependency
    for l in ([1], [0, 1], [1, 1], [2, 1], [1, 0, 1]):
        g.append([["a", "ka", l]])
    # two dependencies of different kinds, independent chunkings
    pairs = [([1], [1]), ([1, 1], [1]), ([1], [1, 1]), ([1, 1], [1, 1]), ([2], [1, 1]), ([1, 1], [2]),
             ([0, 1], [1, 0]), ([1, 1, 1], [1, 1]), ([1, 1], [1, 1, 1]), ([2, 1], [1, 1]), ([1, 0, 1], [2]),
             ([1, 1], [0, 0]), ([0], [1, 1])]
    if tier != "quick":
        pairs += [([1, 1, 1], [1, 1, 1]), ([2, 1], [1, 2]), ([2, 2], [1, 1]), ([1, 2, 1], [2]), ([2, 1, 1], [1, 1]),
                  ([1, 1, 1], [2, 1]), ([0, 2], [1, 1, 0])]
    for la, lb in pairs:
        g.append([["a", "ka", la], ["b", "kb", lb]])
    # two dependencies of the same kind (row-aligned merge), different chunkings
    same = [([1], [1]), ([1, 1], [2]), ([2], [1, 1]), ([1, 1], [1, 1]), ([1, 0, 1], [2]), ([2, 1], [1, 2]),
            ([1, 1, 1], [2, 1])]
    for la, lb in same:
        g.append([["a", "k", la], ["b", "k", lb]])
    # three dependencies, two kinds
    tri = [([1, 1], [2], [1]), ([1], [1], [1, 1]), ([2], [1, 1], [1, 1])]
    if tier != "quick":
        # ([1, 1], [1, 1], [1, 1, 1]) and the four-dependency configuration were dropped: each explores for hours
        # (the thorough run of this property ran past 2.4 h on one of them) - stated as outside the bound
        tri += [([2, 1], [1, 2], [1, 1])]
    for la, lb, lc in tri:
        g.append([["a", "k", la], ["b", "k", lb], ["c", "kc", lc]])
    if tier != "quick":
        g.append([["a", "ka", [1]], ["b", "kb", [1, 1]], ["c", "kc", [1]]])
    out = [dict(deps=d) for d in g]
    # concrete staircases of n + n interleaved rows of two kinds, symbolic chunk boundaries
    for n in ((5, 6) if tier == "quick" else (5, 6, 8)):
        for first in (n, n - 1, n - 2):
            out.append(dict(deps=[["a", "ka", [first, n - first]], ["b", "kb", [n]]], stair=True))
    return out


OBLIGATIONS = [
    Ob("align", sym_align, _grid, nat_align, setup=_setup, witnesses=3,
       doc="every compute call gets one common interval for all kinds, calls adjacent from run start to end, each "
           "input row delivered exactly once in order, same-kind inputs row-aligned; an exception is raised only "
           "when dependencies end at different times, and whenever rows could not be delivered"),
    Ob("twin_align", sym_twin, lambda tier: [dict(deps=[["a", "ka", [1, 1]], ["b", "kb", [1]]])], None, setup=_setup,
       expect_cex=True),
]


MUTANTS = [
    dict(name="original F-C08b: trimming gives up after ten passes", file="strax/plugins/plugin.py",
         old="                    while True:\n                        all_ends = [x.end for x in inputs.values()]",
         new="                    for _pass in range(11):\n                        if _pass == 10:\n                            raise RuntimeError('unable to get time-consistent inputs after ten passes')\n                        all_ends = [x.end for x in inputs.values()]"),
    dict(name="original F-C08: trailing zero-duration chunk raises", file="strax/plugins/plugin.py",
         old="                    if buffer.end != _end or len(buffer) != _n:", new="                    if True:"),
    dict(name="other inputs fetched only while strictly shorter by one", file="strax/plugins/plugin.py",
         old="                                or self.input_buffer[d].end < this_chunk_end\n", new="                                or self.input_buffer[d].end < this_chunk_end - 1\n"),
    dict(name="leftover rows at the end not reported", file="strax/plugins/plugin.py",
         old="                    if buffer is not None and len(buffer):", new="                    if False:"),
    dict(name="other inputs split strictly at the pacemaker's end", file="strax/plugins/plugin.py",
         old="                        inputs[d], self.input_buffer[d] = self.input_buffer[d].split(\n                            t=this_chunk_end, allow_early_split=True\n                        )",
         new="                        inputs[d], self.input_buffer[d] = self.input_buffer[d].split(\n                            t=this_chunk_end, allow_early_split=False\n                        )"),
]
