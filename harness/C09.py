"""C09 — overlap-window plugins give chunking-independent results at chunk boundaries.

Real OverlapWindowPlugin.iter/do_compute/cache_beyond through the real single-thread pipeline on symbolic
chunkings of disjoint sorted inputs; oracle = the same window-local computation over the whole run.
"""
import warnings

import numpy as np

from symx import core, arrays
from symx.core import fresh_int, assume, prove, sand, sor, snot, implies, iff, ite
from symx.run import Ob
from harness import common as H, ctx

LEVEL = "model_checking"
FUNCTIONS = ["strax.plugins.overlap_window_plugin.OverlapWindowPlugin.iter", "OverlapWindowPlugin.do_compute",
             "OverlapWindowPlugin.cache_beyond", "OverlapWindowPlugin._get_window_size", "Plugin.iter",
             "Plugin.do_compute", "Chunk.split", "Chunk.concatenate", "split_array", "continuity_check",
             "SingleThreadProcessor", "PostOffice", "Context.get_iter"]
BOUNDS = {
    "quick": "input chunkings of <=3 chunks with <=3 rows in total, windows (0,0),(1,1),(3,3),(0,3),(3,0),"
             "(1,3); single- and two-output plugins; rows disjoint and sorted, all times symbolic on Z",
    "thorough": "<=3 chunks, <=3 rows with all six windows ([1,1,1] with two); 4-row layouts did not finish within "
                "hours and are outside",
}
ASSUMPTIONS = [
    "inputs disjoint and sorted by time (the plugin's documented precondition); positive-length rows",
    "computation is window-local by construction: result of row i depends on the rows j with "
    "endtime_j > time_i - w_left and time_j < endtime_i + w_right",
    "all time values in [0, 2^62)",
]
OUTSIDE = ["float windows", "computations that are not window-local", "threaded processor (same plugin code; wiring is C01)"]
STUBS = ctx_stubs = ["np constructors -> object arrays", "min/max/int shims", "formatting stubs"]

RUN = "0"
OUT = np.dtype([("time", np.int64), ("endtime", np.int64), ("id", np.int64), ("n", np.int64)])


def _setup():
    return ctx.setup()


def P_overlap(name, dep, obj, wl, wr, multi=False):
    import strax
    from immutabledict import immutabledict

    def count(x):
        r = ctx.new_arr(OUT, len(x), obj)
        for q in range(len(x)):
            r["time"][q], r["endtime"][q], r["id"][q] = x["time"][q], x["endtime"][q], x["id"][q]
            r["n"][q] = core.ssum([ite(sand(x["endtime"][p] > x["time"][q] - wl, x["time"][p] < x["endtime"][q] + wr), 1, 0)
                                   for p in range(len(x)) if p != q], 0)
        return r

    if not multi:
        class Ov(strax.OverlapWindowPlugin):
            provides = (name,)
            depends_on = (dep,)
            data_kind = f"k_{name}"
            dtype = ctx.dt(OUT, obj)

            def get_window_size(self):
                return (wl, wr)

            def compute(self, **kw):
                (x,) = kw.values()
                return count(x)
    else:
        class Ov(strax.OverlapWindowPlugin):
            provides = (name, name + "_b")
            depends_on = (dep,)
            data_kind = immutabledict({name: f"k_{name}", name + "_b": f"k_{name}b"})
            dtype = {name: ctx.dt(OUT, obj), name + "_b": ctx.dt(ctx.ROW, obj)}

            def get_window_size(self):
                return (wl, wr)

            def compute(self, **kw):
                (x,) = kw.values()
                b = ctx.new_arr(ctx.ROW, len(x), obj)
                for q in range(len(x)):
                    b["time"][q], b["endtime"][q], b["id"][q] = x["time"][q], x["endtime"][q], x["id"][q]
                return {name: count(x), name + "_b": b}

    Ov.__name__ = f"Ov_{name}"
    return Ov


def _run(layout, wl, wr, multi, obj, L, target):
    P = [ctx.P_source("src", "ksrc", L, obj), P_overlap("ov", "src", obj, wl, wr, multi)]
    st = ctx.make_context(P)
    return list(st.get_iter(RUN, target, processor="single_thread", progress_bar=False))


def _check(chunks, rows, wl, wr, S, E, target):
    ctx.check_tiling(chunks, S, E, "overlap")
    got = []
    for c in chunks:
        for q in range(len(c.data)):
            got.append({f: c.data[f][q] for f in c.data.dtype.names})
    ids = [int(g["id"]) for g in got]
    prove(ids == [i for _, _, i in rows], f"overlap:rows lost/duplicated/reordered at chunk boundaries: {ids}")
    if target == "ov":
        for g, (t, e, i) in zip(got, rows):
            n = core.ssum([ite(sand(e2 > t - wl, t2 < e + wr), 1, 0) for (t2, e2, i2) in rows if i2 != i], 0)
            prove(g["n"] == n, f"overlap:row {i} computed from incomplete neighbours")
            prove(sand(g["time"] == t, g["endtime"] == e), "overlap:times changed")
    return ids


def sym_overlap(layout, wl, wr, multi=False, target="ov"):
    S = fresh_int("S", 0, H.T_MAX)
    E = fresh_int("E", 0, H.T_MAX)
    L = ctx.sym_layout("src_", layout, S, disjoint=True, E=E)
    chunks = _run(layout, wl, wr, multi, True, L, target)
    return _check(chunks, L.rows, wl, wr, S, E, target)


def nat_overlap(params, model):
    S, E = model["S"], model["E"]
    L = ctx.conc_layout(model, "src_", params["layout"], S, E=E)
    target = params.get("target", "ov")
    with warnings.catch_warnings():
        warnings.simplefilter("ignore")
        try:
            chunks = _run(params["layout"], params["wl"], params["wr"], params.get("multi", False), False, L, target)
        except Exception as e:
            return {"ok": False, "detail": f"raised {type(e).__name__}: {e}"}
    label = core.concrete_run(lambda: _check(chunks, L.rows, params["wl"], params["wr"], S, E, target), model)
    return {"ok": label is None, "detail": label or "equals the whole-run computation", "label": label}


# ---------------------------------------------------------------------------- window given as a float / numpy integer
def sym_window_types(wkind):
    """get_window_size may return floats (explicitly allowed) or numpy integers.  Epoch-size timestamps (>= 2^60 ns),
    a chunk boundary at b = 200 mod 256, row A = [b-3, b-1) in the first chunk and row B = [b, b+2) in the second,
    window 10 on both sides: A and B are neighbours.  The symbolic run is exact; what is decided here is the machine
    arithmetic of the plugin's `end - 2 * window - 1`, by the native replay of the path witness."""
    S = fresh_int("S", 2**60, H.T_MAX)
    E = fresh_int("E", 0, H.T_MAX)
    L = ctx.sym_layout("src_", [1, 1], S, disjoint=True, E=E)
    b = L.bounds[1]
    (t0, e0, _), (t1, e1, _) = L.rows
    assume(sand(b % 256 == 200, t0 == b - 3, e0 == b - 1, t1 == b, e1 == b + 2, S <= b - 1000, E >= b + 1000))
    chunks = _run([1, 1], 10, 10, False, True, L, "ov")
    return _check(chunks, L.rows, 10, 10, S, E, "ov")


WINDOWS = {"float": 10.0, "float_pair": (10.0, 10.0), "np_int64": np.int64(10), "np_int32_pair": (np.int32(10), np.int32(10)),
           "int": 10}


def nat_window_types(params, model):
    S, E = model["S"], model["E"]
    L = ctx.conc_layout(model, "src_", [1, 1], S, E=E)
    w = WINDOWS[params["wkind"]]
    P = [ctx.P_source("src", "ksrc", L, False), P_overlap("ov", "src", False, 10, 10)]
    P[1].get_window_size = lambda self: w  # the computation uses 10 ns; only the declared window's TYPE varies
    with warnings.catch_warnings():
        warnings.simplefilter("ignore")
        try:
            st = ctx.make_context(P)
            chunks = list(st.get_iter(RUN, "ov", processor="single_thread", progress_bar=False))
        except Exception as e:
            return {"ok": False, "label": f"window_types:{params['wkind']} window raised",
                    "detail": f"window {w!r} ({type(w).__name__}) raised {type(e).__name__}: {e}"}
    label = core.concrete_run(lambda: _check(chunks, L.rows, 10, 10, S, E, "ov"), model)
    return {"ok": label is None, "label": f"window_types:{params['wkind']} window gives chunking-dependent results" if label else None,
            "detail": label or "equals the whole-run computation"}


# ---------------------------------------------------------------------------- two outputs whose rows interleave
def _links_plugin(obj, w):
    """Outputs: 'cp' = one row per input row; 'lk' = one row per pair of touching input rows, running from the centre of
    the first to the centre of the second - the rows of the two outputs interleave like a staircase, so the common
    cache / send boundary of the plugin has to be walked back row by row."""
    import strax
    from immutabledict import immutabledict

    class Links(strax.OverlapWindowPlugin):
        provides = ("cp", "lk")
        depends_on = ("src",)
        data_kind = immutabledict(cp="k_cp", lk="k_lk")
        dtype = dict(cp=ctx.dt(ctx.ROW, obj), lk=ctx.dt(ctx.ROW, obj))

        def get_window_size(self):
            return w

        def compute(self, ksrc):
            x = ksrc
            cp = ctx.new_arr(ctx.ROW, len(x), obj)
            for q in range(len(x)):
                cp["time"][q], cp["endtime"][q], cp["id"][q] = x["time"][q], x["endtime"][q], x["id"][q]
            pairs = [q for q in range(len(x) - 1) if int(x["endtime"][q]) == int(x["time"][q + 1])]
            lk = ctx.new_arr(ctx.ROW, len(pairs), obj)
            for o, q in enumerate(pairs):
                lk["time"][o] = (x["time"][q] + x["endtime"][q]) // 2
                lk["endtime"][o] = (x["time"][q + 1] + x["endtime"][q + 1]) // 2
                lk["id"][o] = x["id"][q]
            return dict(cp=cp, lk=lk)

    return Links


def _links_run(n, first, b1, obj, target):
    rows = [(10 * i, 10 * i + 10, i) for i in range(n)]  # a train of touching rows (concrete)
    L = ctx.Layout([0, b1, 10 * n + 50], [rows[:first], rows[first:]])
    st = ctx.make_context([ctx.P_source("src", "ksrc", L, obj), _links_plugin(obj, 10)])
    return list(st.get_iter(RUN, target, processor="single_thread", progress_bar=False)), 10 * n + 50


def _links_check(chunks, n, E, target):
    ctx.check_tiling(chunks, 0, E, "links")
    ids = [int(c.data["id"][q]) for c in chunks for q in range(len(c.data))]
    want = list(range(n)) if target == "cp" else list(range(n - 1))
    prove(ids == want, f"links:rows of {target} lost / duplicated at the chunk boundary: {ids}")
    return ids


def sym_links(n, first, target):
    b1 = fresh_int("b1", 0, H.T_MAX)
    assume(sand(b1 >= 10 * first, b1 <= 10 * first if first < n else b1 <= 10 * n + 50))
    chunks, E = _links_run(n, first, b1, True, target)
    return _links_check(chunks, n, E, target)


def nat_links(params, model):
    with warnings.catch_warnings():
        warnings.simplefilter("ignore")
        try:
            chunks, E = _links_run(params["n"], params["first"], model["b1"], False, params["target"])
        except Exception as e:
            return {"ok": False, "label": "links:raised", "detail": f"raised {type(e).__name__}: {e}"}
    label = core.concrete_run(lambda: _links_check(chunks, params["n"], E, params["target"]), model)
    return {"ok": label is None, "detail": label or "all rows once", "label": label}


def sym_twin():
    sym_overlap([1, 1], 1, 1)
    prove(False, "twin:reachable")


def _grid(tier):
    wins = [(0, 0), (1, 1), (3, 3), (0, 3), (3, 0), (1, 3)]
    g = []
    if tier == "quick":
        for l in ([1], [2], [1, 1], [0, 1], [1, 0]):
            for wl, wr in wins:
                g.append(dict(layout=l, wl=wl, wr=wr))
        for l in ([2, 1], [1, 2]):
            for wl, wr in ((1, 1), (0, 3), (3, 0)):
                g.append(dict(layout=l, wl=wl, wr=wr))
        g += [dict(layout=[1, 0, 1], wl=1, wr=3), dict(layout=[0, 1, 1], wl=0, wr=0)]
    else:
        # [2, 2], [2, 1, 1], [1, 2, 1] and [1, 1, 1, 1] with all six windows ran for more than 3 hours on 8 cores
        # (about 20 CPU-hours) without finishing; with two windows each, and [1, 1, 1] with all six, the tier still
        # had not finished after 40 minutes next to other jobs: the 4-row layouts are outside the thorough bound too
        for l in ([1], [2], [1, 1], [0, 1], [1, 0], [2, 1], [1, 2], [1, 0, 1], [0, 1, 1]):
            for wl, wr in wins:
                g.append(dict(layout=l, wl=wl, wr=wr))
        for wl, wr in ((1, 1), (0, 3)):
            g.append(dict(layout=[1, 1, 1], wl=wl, wr=wr))
    for l in ([1, 1], [2, 1]):
        for tgt in ("ov", "ov_b"):
            g.append(dict(layout=l, wl=1, wr=3, multi=True, target=tgt))
    return g


MUTANTS = [
    dict(name="original F-C09: window kept as a float", file="strax/plugins/overlap_window_plugin.py", only="window_types",
         old="            window_size = int(np.ceil(window_size))\n", new=""),
    dict(name="results sent one window too early", file="strax/plugins/overlap_window_plugin.py",
         old="invalid_beyond = int(end - 2 * window_size[1] - 1)", new="invalid_beyond = int(end)"),
    dict(name="input cache too short", file="strax/plugins/overlap_window_plugin.py",
         old="cache_inputs_beyond = int(self.sent_until - 2 * window_size[0] - 1)", new="cache_inputs_beyond = int(self.sent_until)"),
    dict(name="final flush dropped", file="strax/plugins/overlap_window_plugin.py",
         old="        yield self.cached_results\n", new="        pass\n"),
    dict(name="already-sent results not dropped", file="strax/plugins/overlap_window_plugin.py",
         old="            result = result.split(t=self.sent_until, allow_early_split=False)[1]", new="            pass"),
]

OBLIGATIONS = [
    Ob("overlap", sym_overlap, _grid, nat_overlap, setup=_setup, witnesses=2, max_paths=400000,
       doc="concatenated output == one computation over the whole run; output chunks contiguous"),
    Ob("links", sym_links, lambda tier: [dict(n=n, first=f, target=t) for n in ((14,) if tier == "quick" else (14, 20))
                                         for f in (n, n - 1, n // 2) for t in ("cp", "lk")], nat_links, setup=_setup,
       witnesses=1, doc="two-output plugin whose outputs interleave (train of touching rows): nothing lost at the boundary"),
    Ob("window_types", sym_window_types, lambda tier: [dict(wkind=k) for k in WINDOWS], nat_window_types, setup=_setup,
       witnesses=1, doc="float / numpy-integer windows at epoch-size timestamps, decided natively"),
    Ob("twin", sym_twin, lambda tier: [dict()], None, setup=_setup, expect_cex=True),
]
