"""C09 — overlap-window plugins give chunking-independent results at chunk boundaries.

Real OverlapWindowPlugin.iter/do_compute/cache_beyond through the real single-thread pipeline on symbolic
chunkings of disjoint sorted inputs; oracle = the same window-local computation over the whole run.
"""
import warnings

import numpy as np

from symx import core, arrays
from symx.core import fresh_int, assume, prove, sand, sor, snot, implies, iff, ite
from symx.run import Ob
from harness import common as H, ctx

LEVEL = "model_checking"
FUNCTIONS = ["strax.plugins.overlap_window_plugin.OverlapWindowPlugin.iter", "OverlapWindowPlugin.do_compute",
             "OverlapWindowPlugin.cache_beyond", "OverlapWindowPlugin._get_window_size", "Plugin.iter",
             "Plugin.do_compute", "Chunk.split", "Chunk.concatenate", "split_array", "continuity_check",
             "SingleThreadProcessor", "PostOffice", "Context.get_iter"]
BOUNDS = {
    "quick": "input chunkings of <=3 chunks with <=3 rows in total, windows (0,0),(1,1),(3,3),(0,3),(3,0),"
             "(1,3); single- and two-output plugins; rows disjoint and sorted, all times symbolic on Z",
    "thorough": "3 chunks x <=2 rows (<=4 rows), 4 chunks x 1 row, all six windows",
}
ASSUMPTIONS = [
    "inputs disjoint and sorted by time (the plugin's documented precondition); positive-length rows",
    "computation is window-local by construction: result of row i depends on the rows j with "
    "endtime_j > time_i - w_left and time_j < endtime_i + w_right",
    "all time values in [0, 2^62)",
]
OUTSIDE = ["float windows", "computations that are not window-local", "threaded processor (same plugin code; wiring is C01)"]
STUBS = ctx_stubs = ["np constructors -> object arrays", "min/max/int shims", "formatting stubs"]

RUN = "0"
OUT = np.dtype([("time", np.int64), ("endtime", np.int64), ("id", np.int64), ("n", np.int64)])


def _setup():
    return ctx.setup()


def P_overlap(name, dep, obj, wl, wr, multi=False):
    import strax
    from immutabledict import immutabledict

    def count(x):
        r = ctx.new_arr(OUT, len(x), obj)
        for q in range(len(x)):
            r["time"][q], r["endtime"][q], r["id"][q] = x["time"][q], x["endtime"][q], x["id"][q]
            r["n"][q] = core.ssum([ite(sand(x["endtime"][p] > x["time"][q] - wl, x["time"][p] < x["endtime"][q] + wr), 1, 0)
                                   for p in range(len(x)) if p != q], 0)
        return r

    if not multi:
        class Ov(strax.OverlapWindowPlugin):
            provides = (name,)
            depends_on = (dep,)
            data_kind = f"k_{name}"
            dtype = ctx.dt(OUT, obj)

            def get_window_size(self):
                return (wl, wr)

            def compute(self, **kw):
                (x,) = kw.values()
                return count(x)
    else:
        class Ov(strax.OverlapWindowPlugin):
            provides = (name, name + "_b")
            depends_on = (dep,)
            data_kind = immutabledict({name: f"k_{name}", name + "_b": f"k_{name}b"})
            dtype = {name: ctx.dt(OUT, obj), name + "_b": ctx.dt(ctx.ROW, obj)}

            def get_window_size(self):
                return (wl, wr)

            def compute(self, **kw):
                (x,) = kw.values()
                b = ctx.new_arr(ctx.ROW, len(x), obj)
                for q in range(len(x)):
                    b["time"][q], b["endtime"][q], b["id"][q] = x["time"][q], x["endtime"][q], x["id"][q]
                return {name: count(x), name + "_b": b}

    Ov.__name__ = f"Ov_{name}"
    return Ov


def _run(layout, wl, wr, multi, obj, L, target):
    P = [ctx.P_source("src", "ksrc", L, obj), P_overlap("ov", "src", obj, wl, wr, multi)]
    st = ctx.make_context(P)
    return list(st.get_iter(RUN, target, processor="single_thread", progress_bar=False))


def _check(chunks, rows, wl, wr, S, E, target):
    ctx.check_tiling(chunks, S, E, "overlap")
    got = []
    for c in chunks:
        for q in range(len(c.data)):
            got.append({f: c.data[f][q] for f in c.data.dtype.names})
    ids = [int(g["id"]) for g in got]
    prove(ids == [i for _, _, i in rows], f"overlap:rows lost/duplicated/reordered at chunk boundaries: {ids}")
    if target == "ov":
        for g, (t, e, i) in zip(got, rows):
            n = core.ssum([ite(sand(e2 > t - wl, t2 < e + wr), 1, 0) for (t2, e2, i2) in rows if i2 != i], 0)
            prove(g["n"] == n, f"overlap:row {i} computed from incomplete neighbours")
            prove(sand(g["time"] == t, g["endtime"] == e), "overlap:times changed")
    return ids


def sym_overlap(layout, wl, wr, multi=False, target="ov"):
    S = fresh_int("S", 0, H.T_MAX)
    E = fresh_int("E", 0, H.T_MAX)
    L = ctx.sym_layout("src_", layout, S, disjoint=True, E=E)
    chunks = _run(layout, wl, wr, multi, True, L, target)
    return _check(chunks, L.rows, wl, wr, S, E, target)


def nat_overlap(params, model):
    S, E = model["S"], model["E"]
    L = ctx.conc_layout(model, "src_", params["layout"], S, E=E)
    target = params.get("target", "ov")
    with warnings.catch_warnings():
        warnings.simplefilter("ignore")
        try:
            chunks = _run(params["layout"], params["wl"], params["wr"], params.get("multi", False), False, L, target)
        except Exception as e:
            return {"ok": False, "detail": f"raised {type(e).__name__}: {e}"}
    label = core.concrete_run(lambda: _check(chunks, L.rows, params["wl"], params["wr"], S, E, target), model)
    return {"ok": label is None, "detail": label or "equals the whole-run computation", "label": label}


def sym_twin():
    sym_overlap([1, 1], 1, 1)
    prove(False, "twin:reachable")


def _grid(tier):
    wins = [(0, 0), (1, 1), (3, 3), (0, 3), (3, 0), (1, 3)]
    g = []
    if tier == "quick":
        for l in ([1], [2], [1, 1], [0, 1], [1, 0]):
            for wl, wr in wins:
                g.append(dict(layout=l, wl=wl, wr=wr))
        for l in ([2, 1], [1, 2]):
            for wl, wr in ((1, 1), (0, 3), (3, 0)):
                g.append(dict(layout=l, wl=wl, wr=wr))
        g += [dict(layout=[1, 0, 1], wl=1, wr=3), dict(layout=[0, 1, 1], wl=0, wr=0)]
    else:
        for l in ([1], [2], [1, 1], [0, 1], [1, 0], [2, 1], [1, 2], [1, 1, 1], [1, 0, 1], [2, 2], [2, 1, 1], [1, 2, 1],
                  [1, 1, 1, 1]):
            for wl, wr in wins:
                g.append(dict(layout=l, wl=wl, wr=wr))
    for l in ([1, 1], [2, 1]):
        for tgt in ("ov", "ov_b"):
            g.append(dict(layout=l, wl=1, wr=3, multi=True, target=tgt))
    return g


MUTANTS = [
    dict(name="results sent one window too early", file="strax/plugins/overlap_window_plugin.py",
         old="invalid_beyond = int(end - 2 * window_size[1] - 1)", new="invalid_beyond = int(end)"),
    dict(name="input cache too short", file="strax/plugins/overlap_window_plugin.py",
         old="cache_inputs_beyond = int(self.sent_until - 2 * window_size[0] - 1)", new="cache_inputs_beyond = int(self.sent_until)"),
    dict(name="final flush dropped", file="strax/plugins/overlap_window_plugin.py",
         old="        yield self.cached_results\n", new="        pass\n"),
    dict(name="already-sent results not dropped", file="strax/plugins/overlap_window_plugin.py",
         old="            result = result.split(t=self.sent_until, allow_early_split=False)[1]", new="            pass"),
]

OBLIGATIONS = [
    Ob("overlap", sym_overlap, _grid, nat_overlap, setup=_setup, witnesses=2, max_paths=400000,
       doc="concatenated output == one computation over the whole run; output chunks contiguous"),
    Ob("twin", sym_twin, lambda tier: [dict()], None, setup=_setup, expect_cex=True),
]
