"""C10 — time-range, row and column selections commute with chunking and storage.

Real Context.get_iter / to_absolute_time_range / get_components (partial request) / StorageBackend.loader pruning /
apply_time_range / apply_selection on data stored under a symbolic chunking; the range endpoints are symbolic.
"""
import warnings

import numpy as np

from symx import core, arrays, conc
from symx.core import fresh_int, assume, prove, sand, sor, snot, implies, iff, ite
from symx.run import Ob
from harness import common as H, ctx, mbox

LEVEL = "model_checking"
FUNCTIONS = ["strax.context.Context.get_iter", "Context.to_absolute_time_range", "Context.estimate_run_start_and_end",
             "Context.get_components", "Context._get_partial_loader_for", "strax.storage.common.StorageBackend.loader",
             "StorageBackend._read_and_format_chunk", "StorageBackend.apply_time_range", "strax.utils.apply_selection",
             "apply_keep_columns", "parse_selection (callables)", "Chunk.split", "split_array", "MergeOnlyPlugin",
             "Saver.save_from/save", "Rechunker"]
BOUNDS = {
    "quick": "stored layouts of <=3 chunks / <=4 rows (overlapping rows allowed), optionally rechunked on save; range "
             "endpoints a<b anywhere on Z; both time_selection modes; selection callable with symbolic threshold; "
             "keep/drop column sets; time_range / seconds_range / time_within; one and two same-kind targets; both "
             "processors; seconds_range endpoints k/512 and k/1000 s with an epoch-size run start; a time_range together "
             "with a seconds_range or a time_within row",
    "thorough": "<=4 chunks / <=5 rows",
}
ASSUMPTIONS = ["all time values in [0, 2^62); the run has positive duration", "selection given as a callable (numexpr "
               "strings are a C extension)", "seconds_range: integer seconds symbolically; fractional seconds are concrete dyadic / decimal fractions whose "
               "float arithmetic is executed as such, decided by the native replay of the path witnesses"]
OUTSIDE = ["selection strings (numexpr)", "float seconds_range other than the listed fractions (an FP lemma over all "
           "k/1000 did not finish: z3 unknown at 120 s, cvc5 time-out at 300 s)", "frontends other than the in-memory one"]
STUBS = ["np constructors -> object arrays", "min/max/int shims", "formatting stubs", "scheduler for the threaded run"]
RUN = "0"


def _setup():
    return ctx.setup()


def _plugins(L, obj, rechunk):
    return [ctx.P_source("src", "ksrc", L, obj), ctx.P_map("m1", "src", obj, kind="kk", rechunk_on_save=rechunk),
            ctx.P_map("m2", "src", obj, kind="kk", offset=7, rechunk_on_save=False)]


def _store(L, obj, rechunk, tsm):
    MemFrontend, _, _ = ctx.make_storage_classes()
    fe = MemFrontend()
    P = _plugins(L, obj, rechunk)
    if tsm is not None:
        P[1].chunk_target_size_mb = tsm
    st = ctx.make_context(P, storage=[fe], timeout=1)
    st.make(RUN, "m1", processor="single_thread")
    st.make(RUN, "m2", processor="single_thread")
    return st, fe


def _query(st, targets, kind, a, b, mode, sel_thr, cols, proc, rows):
    kw = dict(time_selection=mode, progress_bar=False,
              processor="single_thread" if proc == "single" else "threaded_mailbox")
    if kind == "range":
        kw["time_range"] = (a, b)
    elif kind == "within":
        if core.active():
            r = _Row(time=a, endtime=b)
        else:
            r = np.zeros(1, dtype=[("time", np.int64), ("endtime", np.int64)])[0]
            r["time"], r["endtime"] = a, b
        kw["time_within"] = r
    if sel_thr is not None:
        kw["selection"] = lambda x: (x["endtime"] - x["time"]) >= sel_thr
    if cols == "keep":
        kw["keep_columns"] = ("time", "endtime", "id")
    elif cols == "drop":
        kw["drop_columns"] = ("val",)
    return st.get_array(RUN, targets, **kw)


class _Row(dict):
    """time_within accepts a row; endtime() looks at .dtype.fields"""

    class _DT:
        fields = {"time": 0, "endtime": 0}

    dtype = _DT()


def sym_select(layout, mode, kind="range", targets="m1", sel=False, cols=None, proc="single", rechunk=False):
    import strax

    S = fresh_int("S", 0, H.T_MAX)
    E = fresh_int("E", 0, H.T_MAX)
    assume(E > S)
    L = ctx.sym_layout("src_", layout, S, E=E)
    a = fresh_int("a", 0, H.T_MAX)
    b = fresh_int("b", 0, H.T_MAX)
    assume(b > a)
    thr = fresh_int("thr", 0, H.T_MAX) if sel else None
    st, fe = _store(L, True, rechunk, _tsm(1) if rechunk else None)
    before = {k: len(v["chunks"]) for k, v in fe.backends[0].store.items()}
    tg = targets if isinstance(targets, str) else tuple(targets)

    def go():
        if proc == "single":
            return _query(st, tg, kind, a, b, mode, thr, cols, proc, L.rows)
        with mbox.SchedRun(conc.POLICIES["rr"]) as s:
            r = _query(st, tg, kind, a, b, mode, thr, cols, proc, L.rows)
            s.finish()
            prove(s.deadlock is None, "select:deadlock")
        return r

    try:
        raised, res = H.expect_raises(ValueError, go)
    except RuntimeError as e:
        prove(False, f"select:raised RuntimeError instead of returning the filtered data: {str(e)[:60]}")
    no_chunk = sor(b <= S, a >= E)
    prove(iff(no_chunk, raised), f"select:explicit error iff the range overlaps no chunk (raised={raised})")
    after = {k: len(v["chunks"]) for k, v in fe.backends[0].store.items()}
    prove(before == after, "select:a partial request changed the storage")
    if raised:
        return "error"
    ids = [int(x) for x in res["id"]]
    prove(ids == sorted(set(ids)), "select:rows duplicated / out of order")
    for (t, e, i) in L.rows:
        pred = sand(a <= t, e <= b) if mode == "fully_contained" else sand(e > a, t < b)
        if sel:
            pred = sand(pred, (e - t) >= thr)
        if i in ids:
            prove(pred, f"select:row {i} returned but not selected by the predicate")
            q = ids.index(i)
            prove(sand(res["time"][q] == t, res["endtime"][q] == e), "select:shifted data")
            if cols is None:
                if isinstance(tg, tuple):
                    prove(res["val"][q] == (e - t) + 7, "select:merged same-kind columns wrong")
                else:
                    prove(res["val"][q] == (e - t), "select:value column wrong")
        else:
            prove(snot(pred), f"select:row {i} satisfies the predicate but is missing (partial data)")
    names = set(res.dtype.names)
    if cols is not None:
        prove(names == {"time", "endtime", "id"}, f"select:projection gave {names}")
    return ids


def _tsm(rows):
    for eps in (0.0, 0.25, 0.5):
        v = (rows + eps) * 32 / 1e6
        if int((v * 1e6) // 32) == rows:
            return v


def nat_select(params, model):
    import strax

    S, E, a, b = model["S"], model["E"], model["a"], model["b"]
    L = ctx.conc_layout(model, "src_", params["layout"], S, E=E)
    mode, kind = params["mode"], params.get("kind", "range")
    sel, cols, proc = params.get("sel", False), params.get("cols"), params.get("proc", "single")
    targets = params.get("targets", "m1")
    tg = targets if isinstance(targets, str) else tuple(targets)
    thr = model.get("thr") if sel else None
    with warnings.catch_warnings():
        warnings.simplefilter("ignore")
        st, fe = _store(L, False, params.get("rechunk", False), _tsm(1) if params.get("rechunk") else None)
        st.set_context_config({"timeout": 30})
        full = st.get_array(RUN, tg, progress_bar=False)
        try:
            raised, res = H.expect_raises(ValueError, lambda: _query(st, tg, kind, a, b, mode, thr, cols, proc, L.rows))
        except RuntimeError as e:
            return {"ok": False, "detail": f"RuntimeError: {e}; stored chunks: " + str({k: [(c['start'], c['end'], c['n']) for c in v['md']['chunks']] for k, v in fe.backends[0].store.items()}) + f" range=({a},{b})",
                    "label": "select:raised RuntimeError"}
    no_chunk = b <= S or a >= E
    if raised != no_chunk:
        return {"ok": False, "detail": f"raised={raised} but overlaps-no-chunk={no_chunk}: {res}"}
    if raised:
        return {"ok": True, "detail": "explicit error"}
    m = (a <= full["time"]) & (full["endtime"] <= b) if mode == "fully_contained" else \
        (full["endtime"] > a) & (full["time"] < b)
    if sel:
        m &= (full["endtime"] - full["time"]) >= thr
    want = full[m]
    if cols is not None:
        want = want[["time", "endtime", "id"]]
    ok = len(res) == len(want) and all((res[f] == want[f]).all() for f in res.dtype.names) and \
        set(res.dtype.names) == set(want.dtype.names)
    return {"ok": bool(ok), "detail": f"got ids {res['id'].tolist()} want {want['id'].tolist()} a={a} b={b}"}


def sym_seconds(layout, s0, s1):
    """seconds_range: integer seconds since the (floored) run start."""
    S = fresh_int("S", 0, 10 * 10**9)
    E = fresh_int("E", 0, 20 * 10**9)
    assume(E > S)
    L = ctx.sym_layout("src_", layout, S, E=E)
    st, fe = _store(L, True, False, None)
    t0 = (S // 10**9) * 10**9
    a, b = t0 + s0 * 10**9, t0 + s1 * 10**9
    raised, res = H.expect_raises(ValueError, lambda: st.get_array(RUN, "m1", seconds_range=(s0, s1), progress_bar=False,
                                                                 processor="single_thread"))
    prove(iff(sor(b <= S, a >= E), raised), "seconds:explicit error iff the range overlaps no chunk")
    if raised:
        return "error"
    ids = [int(x) for x in res["id"]]
    for (t, e, i) in L.rows:
        pred = sand(a <= t, e <= b)
        prove(pred if i in ids else snot(pred), f"seconds:row {i} selection differs from filtering the full result")
    return ids


def _frac_rows(a, b):
    """rows pinned a few ns around both range endpoints (where a rounding of the endpoints shows)"""
    rows = []
    for d in (-130, -90, -20, -1, 0, 7):
        rows.append((a + d, a + d + 1))
    for d in (-120, -60, -1, 0, 30, 129):
        rows.append((b + d, b + d + 1))
    rows.sort(key=lambda x: x[0])
    return rows


def sym_seconds_frac(k0, k1, mode, den=512):
    """seconds_range given as fractions k/den s: dyadic (k/512, exactly representable) or decimal (k/1000, the nearest
    double is NOT the decimal; the request means the decimal), run start of unix-epoch size."""
    S = fresh_int("S", 1_600_000_000 * 10**9, 1_800_000_000 * 10**9)
    t0 = (S // 10**9) * 10**9
    a, b = t0 + k0 * (10**9 // den), t0 + k1 * (10**9 // den)  # 1e9 / 512 = 1953125
    assume(a - 200 >= S)
    rows = [(t, e, i) for i, (t, e) in enumerate(_frac_rows(a, b))]
    E = b + 1000
    L = ctx.Layout([S, E], [rows])
    st, fe = _store(L, True, False, None)
    res = st.get_array(RUN, "m1", seconds_range=(k0 / den, k1 / den), time_selection=mode, progress_bar=False,
                       processor="single_thread")
    ids = [int(x) for x in res["id"]]
    for (t, e, i) in rows:
        pred = sand(a <= t, e <= b) if mode == "fully_contained" else sand(e > a, t < b)
        prove(pred if i in ids else snot(pred), f"seconds_frac:row {i} selection differs from filtering the full result")
    return ids


def nat_seconds_frac(params, model):
    S = model["S"]
    k0, k1, mode, den = params["k0"], params["k1"], params["mode"], params.get("den", 512)
    t0 = (S // 10**9) * 10**9
    a, b = t0 + k0 * (10**9 // den), t0 + k1 * (10**9 // den)
    rows = [(t, e, i) for i, (t, e) in enumerate(_frac_rows(a, b))]
    L = ctx.Layout([S, b + 1000], [rows])
    with warnings.catch_warnings():
        warnings.simplefilter("ignore")
        st, fe = _store(L, False, False, None)
        res = st.get_array(RUN, "m1", seconds_range=(k0 / den, k1 / den), time_selection=mode, progress_bar=False)
    got = res["id"].tolist()
    want = [i for (t, e, i) in rows if ((a <= t and e <= b) if mode == "fully_contained" else (e > a and t < b))]
    return {"ok": got == want, "detail": f"got {got} want {want} t0={t0} range=({a},{b})", "label": "seconds_frac:selection"}


def sym_twin():
    sym_select([1, 1], "touching")
    prove(False, "twin:reachable")


def _grid(tier):
    lays = [[1], [2], [1, 1], [2, 1], [1, 2], [0, 2], [1, 1, 1]] if tier == "quick" else \
        [[1], [2], [3], [1, 1], [2, 1], [1, 2], [0, 2], [2, 0], [1, 1, 1], [2, 1, 1], [2, 2], [1, 1, 1, 1]]
    g = []
    for l in lays:
        for mode in ("fully_contained", "touching"):
            g.append(dict(layout=l, mode=mode))
    for l in ([1, 1], [2, 1]):
        g.append(dict(layout=l, mode="fully_contained", sel=True))
        g.append(dict(layout=l, mode="touching", cols="keep"))
        g.append(dict(layout=l, mode="fully_contained", cols="drop", sel=True))
        g.append(dict(layout=l, mode="touching", kind="within"))
        g.append(dict(layout=l, mode="fully_contained", targets=["m1", "m2"]))
        g.append(dict(layout=l, mode="touching", targets=["m1", "m2"], rechunk=True))
        g.append(dict(layout=l, mode="fully_contained", rechunk=True))
        g.append(dict(layout=l, mode="touching", proc="threaded"))
    return g


MUTANTS = [
    dict(name="loader prunes a touching chunk", file="strax/storage/common.py",
         old='if chunk_info["end"] <= time_range[0] or time_range[1] <= chunk_info["start"]:',
         new='if chunk_info["end"] <= time_range[0] or time_range[1] < chunk_info["end"]:'),
    dict(name="fully_contained uses strict end", file="strax/utils.py",
         old='x = x[(time_range[0] <= x["time"]) & (strax.endtime(x) <= time_range[1])]',
         new='x = x[(time_range[0] <= x["time"]) & (strax.endtime(x) < time_range[1])]'),
    dict(name="touching uses inclusive end", file="strax/utils.py",
         old='x = x[(strax.endtime(x) > time_range[0]) & (x["time"] < time_range[1])]',
         new='x = x[(strax.endtime(x) > time_range[0]) & (x["time"] <= time_range[1])]'),
    dict(name="apply_time_range splits strictly on the left", file="strax/storage/common.py",
         old="            _, chunk = chunk.split(t=time_range[0], allow_early_split=True)",
         new="            _, chunk = chunk.split(t=time_range[0] + 1, allow_early_split=True)"),
    dict(name="seconds_range truncated instead of rounded (original defect F-C10b)", file="strax/context.py",
         old="                t0 + int(round(1e9 * seconds_range[1])),", new="                t0 + int(1e9 * seconds_range[1]),"),
    dict(name="two range arguments accepted (original defect F-C10c)", file="strax/context.py",
         old="        if selection < 3:", new="        if selection < 2:"),
]

def _conflict_call(st, a, b, second, within):
    kw = dict(time_range=(a, b), progress_bar=False, processor="single_thread")
    if second == "seconds":
        kw["seconds_range"] = (0, 1)
    else:
        kw["time_within"] = within
    try:
        res = st.get_array(RUN, "m1", **kw)
    except RuntimeError as e:
        return True, str(e)
    except ValueError as e:  # "no chunk overlaps": an explicit error as well
        return True, str(e)
    return False, res


def sym_conflict(second):
    """TWO range arguments at once: the request is ambiguous; an explicit error, never the rows of one of them."""
    S = fresh_int("S", 0, 10**9)
    E = fresh_int("E", 0, 2 * 10**9)
    assume(E > S)
    L = ctx.sym_layout("src_", [2, 1], S, E=E)
    st, fe = _store(L, True, False, None)
    a, b = fresh_int("a", 0, 2 * 10**9), fresh_int("b", 0, 2 * 10**9)
    assume(a < b)
    raised, res = _conflict_call(st, a, b, second, _Row(time=L.rows[-1][0], endtime=L.rows[-1][1]))
    if not raised:
        ids = [int(x) for x in res["id"]]
        for (t, e, i) in L.rows:
            prove(sand(a <= t, e <= b) if i in ids else True,
                  f"conflict:time_range and {second} given together: row {i} outside the time_range is returned, no error")
    return raised


def nat_conflict(params, model):
    m = lambda k: model.get(k, 0) or 0
    L = ctx.conc_layout(model, "src_", [2, 1], m("S"), E=m("E"))
    with warnings.catch_warnings():
        warnings.simplefilter("ignore")
        st, fe = _store(L, False, False, None)
        r = np.zeros(1, dtype=[("time", np.int64), ("endtime", np.int64)])[0]
        r["time"], r["endtime"] = L.rows[-1][0], L.rows[-1][1]
        raised, res = _conflict_call(st, m("a"), m("b"), params["second"], r)
    if raised:
        return {"ok": True, "detail": f"explicit error: {res[:80]}"}
    bad = [int(x["id"]) for x in res if not (m("a") <= x["time"] and x["endtime"] <= m("b"))]
    return {"ok": not bad, "detail": f"no error; rows {bad} outside time_range ({m('a')},{m('b')}) returned",
            "label": "conflict:rows outside the time_range"}


OBLIGATIONS = [
    Ob("select", sym_select, _grid, nat_select, setup=_setup, witnesses=2,
       doc="get_array with a symbolic range == full result filtered by the same predicate/projection; explicit error iff "
           "no chunk overlaps; storage untouched"),
    Ob("seconds", sym_seconds, lambda tier: [dict(layout=l, s0=s0, s1=s1) for l in ([1, 1], [2, 1])
                                             for s0, s1 in ((0, 1), (1, 3), (0, 20), (15, 30))], None, setup=_setup, witnesses=0),
    Ob("seconds_frac", sym_seconds_frac, lambda tier: [dict(k0=k0, k1=k1, mode=m) for k0, k1 in ((1, 3), (7, 300), (100, 777))
                                                       for m in ("fully_contained", "touching")]
       + [dict(k0=k0, k1=k1, mode=m, den=1000) for k0, k1 in ((1, 1001), (1001, 3000), (1003, 2005), (4228, 5000))
          for m in ("fully_contained", "touching")], nat_seconds_frac,
       setup=_setup, witnesses=3,
       doc="fractional seconds (k/512 s) with an epoch-size run start; float rounding is not modelled symbolically, the "
           "native witness replays carry this obligation"),
    Ob("conflict", sym_conflict, lambda tier: [dict(second="seconds"), dict(second="within")], nat_conflict, setup=_setup,
       witnesses=1, doc="two range arguments at once are refused (or at least never yield rows outside the time_range)"),
    Ob("twin", sym_twin, lambda tier: [dict()], None, setup=_setup, expect_cex=True),
]
