"""C11 — only what is missing is computed, and only what policy allows is saved.

Real Context.get_components (check_cache recursion, _target_should_be_saved, _add_saver, _get_partial_loader_for,
StorageFrontend.find/_we_take) with SYMBOLIC stored flags and SYMBOLIC per-output save policies, compared with an
independent declarative z3 specification; plus real runs counting compute calls.
"""
import warnings

import numpy as np
import z3

from symx import core, arrays, conc
from symx.core import fresh_int, fresh_bool, assume, prove, sand, sor, snot, implies, iff, ite, SymBool
from symx.run import Ob
from harness import common as H, ctx

LEVEL = "model_checking"
FUNCTIONS = ["strax.context.Context.get_components (check_cache)", "Context._target_should_be_saved",
             "Context._add_saver", "Context._get_partial_loader_for", "Context.is_stored", "Context.key_for",
             "Context._get_plugins", "strax.storage.common.StorageFrontend.find", "StorageFrontend._we_take",
             "StorageFrontend.saver", "SingleThreadProcessor", "ThreadedMailboxProcessor wiring", "Plugin.iter"]
BOUNDS = {
    "quick": "two graph templates (chain with a two-output plugin, 5 data types; diamond with same-kind merge, 4 data "
             "types); stored flag per data type and SaveWhen per output fully symbolic; every target; save= membership "
             "symbolic; modifiers none / time_range / selection / keep_columns / fuzzy / allow_incomplete; "
             "forbid_creation_of per type; readonly / exclude frontends; runs with compute-call counters for all stored "
             "subsets of the chain template",
    "thorough": "same plus two targets at once and both processors for the counter runs",
}
ASSUMPTIONS = ["storage answers find() from symbolic flags (harness frontend subclassing the real StorageFrontend); "
               "metadata of 'stored' types is a complete, unbroken stub",
               "per-chunk (chunk_number) requests and superruns are outside this check (C16 / C14)"]
OUTSIDE = ["several different frontend classes", "chunk_number requests", "graphs beyond the two templates"]
STUBS = ["np/int/min/max shims", "formatting stubs", "symbolic-flag storage frontend"]
RUN = "0"

NEVER, EXPLICIT, TARGET, ALWAYS = 0, 1, 2, 3


def _setup():
    return ctx.setup()


class SymSet(tuple):
    """A `save=` tuple whose membership test is symbolic."""

    def __new__(cls, flags):
        self = super().__new__(cls, tuple(sorted(flags)))
        self.flags = flags
        return self

    def __contains__(self, x):
        return bool(self.flags.get(x, False))

    def __bool__(self):
        return True


GRAPHS = {
    # data type -> (plugin id, depends_on)
    "chain": {"types": ["src", "m1", "sa", "sb", "mb"],
              "plugins": {"P_src": (["src"], []), "P_m1": (["m1"], ["src"]), "P_s": (["sa", "sb"], ["m1"]),
                          "P_mb": (["mb"], ["sb"])}},
    "join": {"types": ["src", "sa", "sb", "jn"],
             "plugins": {"P_src": (["src"], []), "P_s": (["sa", "sb"], ["src"]), "P_jn": (["jn"], ["sa", "sb"])}},
    "diamond": {"types": ["src", "m1", "m2", "mg"],
                "plugins": {"P_src": (["src"], []), "P_m1": (["m1"], ["src"]), "P_m2": (["m2"], ["src"]),
                            "P_mg": (["mg"], ["m1", "m2"])}},
}


def build(graph, sw, obj=True, L=None):
    from immutabledict import immutabledict

    L = L or ctx.Layout([0, 10, 20], [[(1, 2, 0)], [(11, 12, 1)]])
    P = []
    if graph == "chain":
        P.append(ctx.P_source("src", "ksrc", L, obj, save_when=immutabledict(src=sw["src"])))
        P.append(ctx.P_map("m1", "src", obj, save_when=immutabledict(m1=sw["m1"])))
        P.append(ctx.P_split2(["sa", "sb"], "m1", obj, 0, save_when=immutabledict(sa=sw["sa"], sb=sw["sb"])))
        P.append(ctx.P_map("mb", "sb", obj, save_when=immutabledict(mb=sw["mb"])))
    elif graph == "join":
        import strax

        P.append(ctx.P_source("src", "ksrc", L, obj, save_when=immutabledict(src=sw["src"])))
        P.append(ctx.P_split2(["sa", "sb"], "src", obj, 0, save_when=immutabledict(sa=sw["sa"], sb=sw["sb"])))

        class Join(strax.Plugin):
            provides = ("jn",); depends_on = ("sa", "sb"); data_kind = "k_jn"; dtype = ctx.dt(ctx.ROW, obj)
            save_when = immutabledict(jn=sw["jn"])

            def compute(self, k_sa, k_sb):
                r = ctx.new_arr(ctx.ROW, len(k_sb), obj)
                for q in range(len(k_sb)):
                    r["time"][q], r["endtime"][q], r["id"][q] = k_sb["time"][q], k_sb["endtime"][q], k_sb["id"][q]
                return r
        P.append(Join)
    else:
        P.append(ctx.P_source("src", "ksrc", L, obj, save_when=immutabledict(src=sw["src"])))
        P.append(ctx.P_map("m1", "src", obj, kind="kk", save_when=immutabledict(m1=sw["m1"])))
        P.append(ctx.P_map("m2", "src", obj, kind="kk", offset=7, save_when=immutabledict(m2=sw["m2"])))
        P.append(ctx.P_merge("mg", ["m1", "m2"], "kk", obj, save_when=immutabledict(mg=sw["mg"])))
    return P


def flag_frontend(flags, readonly=False, exclude=()):
    import strax

    MemFrontend, MemBackend, MemSaver = ctx.make_storage_classes()

    class FlagBackend(MemBackend):
        def _get_metadata(self, backend_key, **kw):
            return dict(writing_ended=1, chunks=[dict(chunk_i=0, n=0, start=0, end=1, run_id=RUN)], run_id=RUN,
                        data_type="x", data_kind="k", dtype="[('time','<i8'),('endtime','<i8')]", compressor="none",
                        strax_version=strax.__version__)

    class FlagFrontend(MemFrontend):
        def __init__(self, **k):
            super().__init__(**k)
            self.backends = [FlagBackend()]

        def _find(self, key, write, allow_incomplete, fuzzy_for, fuzzy_for_options):
            if write:
                return "FlagBackend", ctx._bk(key)
            if bool(flags[key.data_type]):
                return "FlagBackend", ctx._bk(key)
            raise strax.DataNotAvailable

    return FlagFrontend(readonly=readonly, exclude=exclude)


def sym_components(graph, target, modifier="none", forbid=None, readonly=False, exclude=None):
    import strax

    G = GRAPHS[graph]
    types = G["types"]
    stored = {d: fresh_bool(f"stored_{d}") for d in types}
    sw = {d: fresh_int(f"sw_{d}", 0, 3) for d in types}
    insave = {d: fresh_bool(f"save_{d}") for d in types}
    if forbid == "sym":
        forb = {d: fresh_bool(f"forbid_{d}") for d in types}
    else:
        forb = {d: (d in (forbid or ())) for d in types}
    P = build(graph, sw)
    fe = flag_frontend(stored, readonly=readonly, exclude=tuple(exclude or ()))
    opts = {}
    if modifier == "fuzzy":
        opts["fuzzy_for"] = (types[1],)
    if modifier == "incomplete":
        opts["allow_incomplete"] = True
    if forbid == "sym":
        opts["forbid_creation_of"] = SymSet(forb)
    elif forbid:
        opts["forbid_creation_of"] = tuple(forbid)
    st = ctx.make_context(P, storage=[fe], **opts)
    kw = {}
    if modifier == "time_range":
        kw["time_range"] = (0, 5)
    if modifier == "selection":
        kw["selection"] = lambda x: x["time"] > 0
    if modifier == "columns":
        kw["keep_columns"] = ("time",)
    targets = (target,) if isinstance(target, str) else tuple(target)
    outcome, comps = "ok", None
    try:
        comps = st.get_components(RUN, targets=targets, save=SymSet(insave), **kw)
    except strax.DataNotAvailable:
        outcome = "DataNotAvailable"
    except ValueError:
        outcome = "ValueError"

    # ---------------- declarative specification over the same symbols ----------------
    prov = {d: p for p, (outs, _) in G["plugins"].items() for d in outs}
    deps = {p: dd for p, (_, dd) in G["plugins"].items()}
    outs = {p: oo for p, (oo, _) in G["plugins"].items()}
    avail = {d: (sand(stored[d], d not in (exclude or ()))) for d in types}  # what a frontend that takes d reports
    order = types  # topological
    visited = {}
    for d in reversed(order):
        consumers = [c for c in types if d in deps[prov[c]]]
        visited[d] = sor(d in targets, *[sand(visited[c], snot(avail[c])) for c in consumers if c in visited])
    loads = {d: sand(visited[d], avail[d]) for d in types}
    computes = {d: sand(visited[d], snot(avail[d])) for d in types}
    partial = modifier in ("time_range", "selection", "columns", "fuzzy", "incomplete")

    def should(d):
        return sor(sw[d] == ALWAYS, sand(sw[d] == TARGET, d in targets), sand(sw[d] == EXPLICIT, insave[d]))

    err_dna = sor(*[sand(computes[d], sor(sand(modifier == "time_range", sw[d] > EXPLICIT), forb[d],
                                          forbid != "sym" and "*" in (forbid or ()))) for d in types])
    # a NEVER-save type listed in save= is an explicit error (when its saving is considered at all)
    considered = {d: sor(computes[d], *[computes[o] for o in outs[prov[d]] if o != d]) for d in types}
    err_val = sor(*[sand(computes[d], sw[d] == NEVER, insave[d]) for d in types])
    if outcome == "DataNotAvailable":
        prove(err_dna, "components:DataNotAvailable although everything needed may be created")
        return outcome
    if outcome == "ValueError":
        prove(sor(err_val, *[sand(considered[d], sw[d] == NEVER, insave[d]) for d in types]),
              "components:ValueError without a NEVER-save type in save=")
        return outcome
    prove(snot(err_dna), "components:created data that is forbidden / missing under a time range instead of raising")
    for d in types:
        prove(iff(loads[d], d in comps.loaders), f"components:loads({d}) differs from the specification")
        prove(iff(computes[d], d in comps.plugins), f"components:computes({d}) differs from the specification")
    # exactly one origin for every input of a running plugin
    running = {p for d, pl in comps.plugins.items() for p in [prov[d]]}
    for p in running:
        for dep in deps[p]:
            prove((dep in comps.loaders) != (dep in comps.plugins), f"components:{dep} has zero or two origins for {p}")
    # savers
    writable = not readonly
    for d in types:
        same = outs[prov[d]]
        spec = sand(sor(*[sand(computes[o], sor(should(o), len(same) > 1)) for o in same]), snot(avail[d]), should(d),
                    not partial, writable, d not in (exclude or ()),
                    # single-output: only when the type itself is being computed
                    computes[d] if len(same) == 1 else True)
        got = bool(comps.savers.get(d))
        prove(iff(spec, got), f"components:saves({d})={got} differs from the save policy specification")
    return sorted(comps.plugins), sorted(comps.loaders), sorted(k for k, v in comps.savers.items() if v)


def nat_components(params, model):
    """Replay natively: same call with concrete flags/policies; compare with the specification evaluated concretely."""
    inj = ctx.setup()
    try:
        label = core.concrete_run(lambda: sym_components(**params), model)
    finally:
        inj.restore()
    return {"ok": label is None, "detail": label or "matches the specification", "label": label}


# ---------------------------------------------------------------------------- real runs with counters
def sym_counts(stored_mask, target, proc="single"):
    """Chain template, a concrete stored subset made beforehand, symbolic chunking: a plugin computes iff one of its
    outputs is needed and not stored; compute calls == number of input chunks; result == full computation."""
    import strax
    from harness import mbox

    types = GRAPHS["chain"]["types"]
    stored = [d for d, b in zip(types, stored_mask) if b]
    S = fresh_int("S", 0, H.T_MAX)
    E = fresh_int("E", 0, H.T_MAX)
    L = ctx.sym_layout("src_", [1, 1], S, E=E)
    MemFrontend, _, _ = ctx.make_storage_classes()
    fe = MemFrontend()
    ex = strax.SaveWhen.EXPLICIT
    swA = {d: ex for d in types}
    stA = ctx.make_context(build("chain", swA, True, L), storage=[fe])
    for d in stored:
        stA.make(RUN, d, save=(d,), processor="single_thread", progress_bar=False)
    ctx.COUNTS.clear()
    st = ctx.make_context(build("chain", {d: strax.SaveWhen.NEVER for d in types}, True, L), storage=[fe], timeout=1)
    if proc == "single":
        res = st.get_array(RUN, target, processor="single_thread", progress_bar=False)
    else:
        with mbox.SchedRun(conc.POLICIES["rr"]) as s:
            res = st.get_array(RUN, target, processor="threaded_mailbox", progress_bar=False)
            s.finish()
            prove(s.deadlock is None, "counts:deadlock")
    # specification
    chainp = {"src": [], "m1": ["src"], "sa": ["m1"], "sb": ["m1"], "mb": ["sb"]}
    need = set()

    def visit(d):
        if d in need:
            return
        need.add(d)
        if d not in stored:
            for x in chainp[d]:
                visit(x)

    visit(target)
    runs = {"src": "src" in need and "src" not in stored, "m1": "m1" in need and "m1" not in stored,
            "sa": any(x in need and x not in stored for x in ("sa", "sb")), "mb": "mb" in need and "mb" not in stored}
    for name, r in runs.items():
        n = ctx.COUNTS.get(name, 0)
        # stored inputs may have been rechunked on save (2 chunks -> 1), so the number of calls is 1 or 2
        prove((1 <= n <= 2) if r else n == 0, f"counts:{name} computed {n} times, must run={r}")
    prove([int(x) for x in res["id"]] == [0, 1], "counts:result rows")
    return dict(ctx.COUNTS)


def nat_counts(params, model):
    return {"ok": True, "detail": "counter runs are replayed by C01's native pipeline replay"}


def sym_twin():
    sym_components("chain", "mb")
    prove(False, "twin:reachable")


def _grid(tier):
    g = []
    for graph, G in GRAPHS.items():
        for t in G["types"][1:]:
            for mod in ("none", "time_range", "selection", "columns", "fuzzy", "incomplete"):
                g.append(dict(graph=graph, target=t, modifier=mod))
        g.append(dict(graph=graph, target=G["types"][-1], forbid=[G["types"][1]]))
        g.append(dict(graph=graph, target=G["types"][-1], forbid="sym"))
        g.append(dict(graph=graph, target=G["types"][-2], forbid="sym", modifier="time_range"))
        g.append(dict(graph=graph, target=G["types"][-1], forbid=["*"]))
        g.append(dict(graph=graph, target=G["types"][-1], readonly=True))
        g.append(dict(graph=graph, target=G["types"][-1], exclude=[G["types"][1]]))
    if tier != "quick":
        g.append(dict(graph="diamond", target=["m1", "m2"]))
    return g


def _g_counts(tier):
    g = []
    for bits in range(32):
        mask = [bool(bits >> i & 1) for i in range(5)]
        for t in ("mb", "sa"):
            if mask[GRAPHS["chain"]["types"].index(t)]:
                continue
            g.append(dict(stored_mask=mask, target=t))
    if tier != "quick":
        g += [dict(p, proc="threaded") for p in g[:16]]
    else:
        g += [dict(stored_mask=[False, True, False, False, False], target="mb", proc="threaded"),
              dict(stored_mask=[False, False, False, True, False], target="mb", proc="threaded")]
    return g


MUTANTS = [
    dict(name="original F-C11: only the temporary merge plugin counts as target", file="strax/context.py",
         old="                requested_targets.update(plugins[target_i].depends_on)", new="                pass"),
    dict(name="TARGET policy treated as ALWAYS", file="strax/context.py",
         old="            if target not in targets:\n                return False", new="            pass"),
    dict(name="EXPLICIT policy ignored", file="strax/context.py",
         old="            if target not in save:\n                return False", new="            pass"),
    dict(name="partial request with selection still saves", file="strax/context.py",
         old="            if selection is not None:\n                self.log.warning(f\"Not saving {target_i} while applying selections in the run\")\n                return",
         new="            if selection is not None:\n                pass"),
    dict(name="forbid_creation_of ignored", file="strax/context.py",
         old='                if target_i in self.context_config["forbid_creation_of"]:', new='                if False:'),
    dict(name="stored dependency recomputed", file="strax/context.py",
         old="            if loader:\n                # Found it! No need to make it or look in other frontends",
         new="            if loader and target_i in targets:\n                # Found it! No need to make it or look in other frontends"),
]

# ---------------------------------------------------------------------------- several targets in one request
def sym_multitarget(via, obj=True):
    """get_array / make of SEVERAL same-kind targets (get_iter wraps them in a temporary merge plugin): every requested
    type is a target as far as its save policy is concerned."""
    import strax

    types = ["src", "m1", "m2"]
    sw = {d: fresh_int(f"sw_{d}", 0, 3) for d in types}
    insave = {d: fresh_bool(f"save_{d}") for d in types}
    P = build("diamond", dict(sw, mg=NEVER), obj=obj)[:3]
    MemFrontend, _, _ = ctx.make_storage_classes()
    st = ctx.make_context(P, storage=[MemFrontend()])
    targets = ("m1", "m2")
    outcome = "ok"
    try:
        if via == "make":
            st.make(RUN, targets, save=SymSet(insave), processor="single_thread", progress_bar=False)
        else:
            st.get_array(RUN, targets, save=SymSet(insave), processor="single_thread", progress_bar=False)
    except ValueError:
        outcome = "ValueError"
    never_in_save = sor(*[sand(sw[d] == NEVER, insave[d]) for d in types])
    prove(iff(never_in_save, outcome == "ValueError"), f"multitarget:ValueError iff a NEVER-save type is listed in save= ({outcome})")
    if outcome != "ok":
        return outcome
    for d in types:
        should = sor(sw[d] == ALWAYS, sand(sw[d] == TARGET, d in targets), sand(sw[d] == EXPLICIT, insave[d]))
        got = st.is_stored(RUN, d)
        prove(iff(should, got), f"multitarget:{d} stored={got} differs from its save policy (requested targets {targets})")
    return outcome


def nat_multitarget(params, model):
    with warnings.catch_warnings():
        warnings.simplefilter("ignore")
        label = core.concrete_run(lambda: sym_multitarget(**params, obj=False), model)
    return {"ok": label is None, "detail": label or "matches the save policies", "label": label}


# ---------------------------------------------------------------------------- several targets of DIFFERENT kinds
def sym_multikind(case, obj=False):
    """allow_multiple=True with two end targets of different data kinds (threaded processor):
    'stored'  - both are stored already: the request must simply succeed;
    'lazy_mp' - context with allow_multiprocess=True and the default max_workers (the processor then runs LAZY): the
                request must either be refused or compute and save BOTH always-saved targets."""
    import strax
    from symx import conc
    from harness import mbox

    L = ctx.Layout([0, 10, 20], [[(1, 2, 0)], [(11, 12, 1)]])
    P = [ctx.P_source("src", "ksrc", L, obj), ctx.P_map("ma", "src", obj, kind="ka"), ctx.P_map("mb", "src", obj, kind="kb")]
    MemFrontend, _, _ = ctx.make_storage_classes()
    fe = MemFrontend()
    opts = dict(allow_lazy=False, timeout=2) if case == "stored" else dict(allow_lazy=True, allow_multiprocess=True, timeout=1)
    st = ctx.make_context(P, storage=[fe], **opts)
    if case == "stored":
        for d in ("ma", "mb"):
            st.make(RUN, d, processor="single_thread", progress_bar=False)
    pol = conc.POLICIES[core.concretize(fresh_int("pol", 0, 1)) and "lowest" or "rr"]
    raised = None
    with mbox.SchedRun(pol) as s:
        try:
            if case == "stored":
                list(st.get_iter(RUN, ("ma", "mb"), allow_multiple=True, processor="threaded_mailbox", progress_bar=False))
            else:
                st.make(RUN, ("ma", "mb"), allow_multiple=True, processor="threaded_mailbox", progress_bar=False)
        except Exception as e:  # noqa
            raised = e
        finally:
            s.finish()
    if case == "stored":
        prove(raised is None, f"multikind:everything is stored, but the request raised {type(raised).__name__}: {raised}")
        return "ok"
    if raised is not None:
        prove(isinstance(raised, RuntimeError), f"multikind:raised {type(raised).__name__}: {raised}")
        return "refused"
    for d in ("ma", "mb"):
        prove(st.is_stored(RUN, d), f"multikind:make returned normally but the always-saved target {d} was never computed / saved")
    return "made"


def nat_multikind(params, model):
    with warnings.catch_warnings():
        warnings.simplefilter("ignore")
        label = core.concrete_run(lambda: sym_multikind(**params), model)
    return {"ok": label is None, "detail": label or "holds", "label": label}


OBLIGATIONS = [
    Ob("components", sym_components, _grid, nat_components, setup=_setup, witnesses=1,
       doc="plugins / loaders / savers / raised error == declarative specification, for ALL stored flags and policies"),
    Ob("counts", sym_counts, _g_counts, nat_counts, setup=_setup, witnesses=0,
       doc="real run: compute calls per plugin == chunks if it must run else 0"),
    Ob("multikind", sym_multikind, lambda tier: [dict(case="stored"), dict(case="lazy_mp")], nat_multikind, setup=_setup,
       witnesses=1, doc="allow_multiple with targets of different kinds: all stored -> loads; lazy + allow_multiprocess -> "
                        "refused or both made"),
    Ob("multitarget", sym_multitarget, lambda tier: [dict(via="make"), dict(via="get_array")], nat_multitarget,
       setup=_setup, witnesses=1, doc="several same-kind targets in one request: each is saved as its policy says"),
    Ob("twin", sym_twin, lambda tier: [dict()], None, setup=_setup, expect_cex=True),
]
