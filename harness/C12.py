"""C12 — outputs that violate a plugin's declared contract are rejected, not stored.

Violation table (kind of violation x kind of plugin) driven through the real Context.get_array on both processors;
the index of the offending chunk is symbolic; for range and continuity violations the offending row times and the
chunk bounds are symbolic and the biconditional  accepted <=> inside / contiguous  is proved.
"""
import warnings

import numpy as np

from symx import core, arrays, conc
from symx.core import fresh_int, assume, prove, sand, sor, snot, implies, iff
from symx.run import Ob
from harness import common as H, ctx, mbox

LEVEL = "model_checking"
FUNCTIONS = ["strax.chunk.Chunk.__init__", "strax.plugins.plugin.Plugin._check_dtype", "Plugin._fix_output",
             "Plugin.chunk", "Plugin.fix_dtype", "strax.plugins.down_chunking_plugin.DownChunkingPlugin._fix_output",
             "strax.chunk.continuity_check", "LoopPlugin.compute", "CutPlugin.compute", "OverlapWindowPlugin.do_compute",
             "Context.get_iter", "Context.is_stored", "SingleThreadProcessor.iter", "ThreadedMailboxProcessor.iter",
             "Saver.save_from/close", "StorageFrontend.find (broken-data check)"]
BOUNDS = {
    "quick": "runs of 3 chunks, offending chunk index symbolic in 0..2; plugin kinds source / ordinary / multi-output / "
             "down-chunking / loop / cut / overlap-window; violation kinds: wrong dtype (extra field, missing field, "
             "narrower int) as bare array, wrapped in a chunk that declares the plugin's dtype, and wrapped in a chunk "
             "that declares the wrong dtype itself, titled vs untitled dtype (must be accepted), rows "
             "outside the chunk (1-3 time-sorted rows, symbolic times with end times in any order, symbolic bounds), wrong data_type label (foreign / a sibling output's), gap / overlap between target "
             "chunks (symbolic), non-dict from a multi-output plugin, non-chunk from a down-chunking plugin, declared output omitted by a multi-output down-chunking plugin; both "
             "processors",
    "thorough": "same with 4 chunks",
}
ASSUMPTIONS = ["chunks of far fewer than 500 rows (the window Chunk.__init__ inspects)", "numpy dtypes are concrete "
               "(enumerated table), the solver ranges over offending chunk index, row times and chunk bounds"]
OUTSIDE = ["more than 500 rows per chunk", "dtype pairs outside the table"]
STUBS = ["np/int/min/max shims only for the range/continuity obligations (the dtype table runs on native arrays)",
         "scheduler for threaded runs"]
RUN = "0"

GOOD = np.dtype([("time", np.int64), ("endtime", np.int64), ("id", np.int64), ("val", np.int64)])
BAD = {
    "extra": np.dtype([("time", np.int64), ("endtime", np.int64), ("id", np.int64), ("val", np.int64), ("x", np.int64)]),
    "missing": np.dtype([("time", np.int64), ("endtime", np.int64), ("id", np.int64)]),
    "narrow": np.dtype([("time", np.int64), ("endtime", np.int64), ("id", np.int64), ("val", np.int32)]),
    # the declared fields and types, but another memory layout: val and id at each other's offsets
    "swapped": np.dtype({"names": ["time", "endtime", "id", "val"], "formats": [np.int64] * 4, "offsets": [0, 8, 24, 16]}),
    # ... and with padding (itemsize 40 instead of 32)
    "padded": np.dtype({"names": ["time", "endtime", "id", "val"], "formats": [np.int64] * 4, "offsets": [0, 8, 16, 24],
                        "itemsize": 40}),
}
TITLED = np.dtype([(("Start time", "time"), np.int64), (("End time", "endtime"), np.int64), (("Id", "id"), np.int64),
                   (("Value", "val"), np.int64)])


def _setup():
    return ctx.setup()


def _mk(dtype, rows):
    a = np.zeros(len(rows), dtype=dtype)
    for q, (t, e, i) in enumerate(rows):
        a["time"][q], a["endtime"][q], a["id"][q] = t, e, i
    return a


LAY = ctx.Layout([0, 10, 20, 30], [[(1, 2, 0)], [(11, 12, 1)], [(21, 22, 2)]])


def _violating_plugin(pkind, vkind, variant, k, wrap):
    """A plugin of kind `pkind` fed by a well-behaved source, misbehaving at its k-th compute call."""
    import strax
    from immutabledict import immutabledict

    calls = {"n": 0}

    def bad_here():
        calls["n"] += 1
        return calls["n"] - 1 == k

    def payload(self, x, start, end, data_type, good_dtype=GOOD, bad=None):
        rows = [(int(x["time"][q]), int(x["endtime"][q]), int(x["id"][q])) for q in range(len(x))]
        bad = bad_here() if bad is None else bad
        d = good_dtype
        if bad and vkind == "dtype":
            d = BAD[variant]
        if vkind == "titled":
            d = TITLED  # declared untitled, delivered titled (every chunk): must be accepted
        arr = _mk(d, rows)
        if bad and vkind == "label":
            return strax.Chunk(start=start, end=end, run_id=RUN, data_kind="kv", data_type="something_else",
                               dtype=good_dtype, data=arr)
        if wrap:
            # wrap == "own": the chunk DECLARES the wrong dtype itself (consistent with its data); otherwise it
            # declares the plugin's dtype and carries data of another one
            return strax.Chunk(start=start, end=end, run_id=RUN, data_kind=self.data_kind_for(data_type),
                               data_type=data_type, dtype=d if wrap == "own" else self.dtype_for(data_type), data=arr)
        return arr

    if pkind == "ordinary":
        class V(strax.Plugin):
            provides = ("vv",); depends_on = ("src",); data_kind = "kv"; dtype = GOOD

            def compute(self, ksrc, start, end):
                return payload(self, ksrc, start, end, "vv")
    elif pkind == "multi":
        class V(strax.Plugin):
            provides = ("vv", "vw"); depends_on = ("src",)
            data_kind = immutabledict(vv="kv", vw="kw")
            # sibling_label: both outputs have the SAME dtype, so only the label tells the chunks apart
            dtype = dict(vv=GOOD, vw=GOOD if vkind == "sibling_label" else ctx.ROW)
            rechunk_on_save = False  # no Rechunker.concatenate on the way to storage that would notice a label

            def compute(self, ksrc, start, end):
                bad = bad_here()
                if vkind == "nondict" and bad:
                    return _mk(GOOD, [])
                rows = [(int(ksrc["time"][q]), int(ksrc["endtime"][q]), int(ksrc["id"][q])) for q in range(len(ksrc))]
                w = _mk(ctx.ROW, rows)
                if vkind == "sibling_label":
                    # both outputs as full chunks; at the offending call the two chunks are filed under each other's key
                    cv = strax.Chunk(start=start, end=end, run_id=RUN, data_kind="kv", data_type="vv", dtype=GOOD,
                                     data=_mk(GOOD, rows))
                    cw = strax.Chunk(start=start, end=end, run_id=RUN, data_kind="kw", data_type="vw", dtype=GOOD,
                                     data=_mk(GOOD, rows))
                    return dict(vv=cw, vw=cv) if bad else dict(vv=cv, vw=cw)
                return dict(vv=payload(self, ksrc, start, end, "vv", bad=bad), vw=w)
    elif pkind == "down":
        class V(strax.DownChunkingPlugin):
            provides = ("vv",); depends_on = ("src",); data_kind = "kv"; dtype = GOOD; rechunk_on_save = False

            def compute(self, ksrc, start, end):
                bad = bad_here()
                if vkind == "nonchunk" and bad:
                    yield _mk(GOOD, [])
                    return
                yield payload(self, ksrc, start, end, "vv", bad=bad)
    elif pkind == "down2":
        class V(strax.DownChunkingPlugin):
            """multi-output down-chunking plugin: yields dicts of full chunks"""
            provides = ("vv", "vw"); depends_on = ("src",)
            data_kind = immutabledict(vv="kv", vw="kw"); dtype = dict(vv=GOOD, vw=GOOD)
            rechunk_on_save = False

            def compute(self, ksrc, start, end):
                bad = bad_here()
                rows = [(int(ksrc["time"][q]), int(ksrc["endtime"][q]), int(ksrc["id"][q])) for q in range(len(ksrc))]
                out = {}
                for d, kind in (("vv", "kv"), ("vw", "kw")):
                    out[d] = strax.Chunk(start=start, end=end, run_id=RUN, data_kind=kind, data_type=d, dtype=GOOD,
                                         data=_mk(GOOD, rows))
                if bad and vkind == "omit":
                    del out["vw"]  # a declared output is simply not delivered for this chunk
                yield out
    elif pkind == "loop":
        class V(strax.LoopPlugin):
            provides = ("vv",); depends_on = ("src", "src2"); data_kind = "ksrc"; dtype = GOOD; loop_over = "ksrc"

            def compute_loop(self, base, **kw):
                if vkind == "nondict" and bad_here():
                    return 5
                return dict(time=base["time"], endtime=base["endtime"], id=base["id"], val=0)
    elif pkind == "cut":
        class V(strax.CutPlugin):
            provides = ("vv",); depends_on = ("src",); data_kind = "ksrc"; cut_name = "vv"; cut_description = "d"

            def cut_by(self, ksrc):
                if bad_here():
                    return np.ones(len(ksrc) + 1, dtype=bool)  # wrong length
                return np.ones(len(ksrc), dtype=bool)
    elif pkind == "overlap":
        class V(strax.OverlapWindowPlugin):
            provides = ("vv",); depends_on = ("src",); data_kind = "kv"; dtype = GOOD

            def get_window_size(self):
                return 1

            def compute(self, ksrc, start, end):
                return payload(self, ksrc, start, end, "vv")
    else:
        raise ValueError(pkind)
    V.__name__ = f"V_{pkind}"
    return V


def _violating_source(vkind, variant, k, wrap=True):
    import strax

    class VS(strax.Plugin):
        provides = ("vv",); depends_on = (); data_kind = "kv"; dtype = GOOD; rechunk_on_save = False

        def source_finished(self):
            return True

        def is_ready(self, chunk_i):
            return chunk_i < 3

        def compute(self, chunk_i):
            rows = LAY.chunks[chunk_i]
            bad = chunk_i == k
            d = GOOD
            if bad and vkind == "dtype":
                d = BAD[variant]
            if vkind == "titled":
                d = TITLED
            dt_label = "something_else" if (bad and vkind == "label") else "vv"
            return strax.Chunk(start=LAY.bounds[chunk_i], end=LAY.bounds[chunk_i + 1], run_id=RUN, data_kind="kv",
                               data_type=dt_label, dtype=d if wrap == "own" else GOOD, data=_mk(d, rows))

    return VS


def _run_table(pkind, vkind, variant, k, wrap, proc):
    """-> (raised exception or None, result array or None, is_stored after)"""
    import strax

    MemFrontend, _, _ = ctx.make_storage_classes()
    fe = MemFrontend()
    if pkind == "source":
        P = [_violating_source(vkind, variant, k, wrap)]
    else:
        P = [ctx.P_source("src", "ksrc", LAY, False, save_when=strax.SaveWhen.NEVER),
             ctx.P_source("src2", "ksrc2", LAY, False, save_when=strax.SaveWhen.NEVER),
             _violating_plugin(pkind, vkind, variant, k, wrap)]
    st = ctx.make_context(P, storage=[fe], timeout=2)
    exc = res = None
    try:
        if proc == "single":
            res = st.get_array(RUN, "vv", processor="single_thread", progress_bar=False)
        else:
            with mbox.SchedRun(conc.POLICIES["rr"]) as s:
                try:
                    res = st.get_array(RUN, "vv", processor="threaded_mailbox", progress_bar=False)
                finally:
                    s.finish()
    except Exception as e:  # noqa
        exc = e
    # neither the target nor a side output of the violating plugin may be left behind as valid data
    stored = st.is_stored(RUN, "vv") or (pkind in ("multi", "down2") and st.is_stored(RUN, "vw"))
    return exc, res, stored


def sym_table(pkind, vkind, variant=None, wrap=False, proc="single", nchunks=3):
    """k = index of the offending compute call, chosen by the solver."""
    k = core.concretize(fresh_int("k", 0, nchunks - 1))
    exc, res, stored = _run_table(pkind, vkind, variant, k, wrap, proc)
    must_reject = vkind != "titled"
    if must_reject:
        prove(exc is not None, f"table:{pkind}/{vkind}/{variant}/wrap={wrap}: violating output at chunk {k} was handed to "
                               f"the user as a normal result")
        prove(not stored, f"table:{pkind}/{vkind}: violating output left in storage as valid data")
    else:
        prove(exc is None, f"table:{pkind}: titled-vs-untitled dtype rejected: {exc!r}")
        prove([int(x) for x in res["id"]] == [0, 1, 2], "table:titled result rows")
    return k


def nat_table(params, model):
    p = dict(params)
    k = model.get("k", 0)
    with warnings.catch_warnings():
        warnings.simplefilter("ignore")
        exc, res, stored = _run_table(p["pkind"], p["vkind"], p.get("variant"), k, p.get("wrap", False), p.get("proc", "single"))
    if p["vkind"] == "titled":
        return {"ok": exc is None, "detail": f"exc={exc!r}"}
    ok = exc is not None and not stored
    return {"ok": ok, "detail": f"exception={exc!r} is_stored={stored} result={'returned' if res is not None else None}",
            "label": f"table:{p['pkind']}/{p['vkind']}"}


# ---------------------------------------------------------------------------- symbolic range / continuity
def _sym_rows(n):
    rows = []
    for q in range(n):
        t = fresh_int(f"t{q}", 0, H.T_MAX); e = fresh_int(f"e{q}", 0, H.T_MAX)
        assume(e > t)
        if rows:
            assume(t >= rows[-1][0])  # time-sorted, as the property's quantifier states; end times are free
        rows.append((t, e))
    return rows


def sym_range(pkind, n=1, proc="single"):
    """A plugin returns n time-sorted rows with symbolic times: accepted <=> every row lies inside the chunk that
    carries it (a late row need not be the last one)."""
    import strax

    S = fresh_int("S", 0, H.T_MAX); E = fresh_int("E", 0, H.T_MAX)
    assume(E >= S)
    rows = _sym_rows(n)
    L = ctx.Layout([S, E], [[]])
    MemFrontend, _, _ = ctx.make_storage_classes()
    fe = MemFrontend()
    D = arrays.obj_dtype(ctx.ROW)

    def data():
        a = arrays.make(ctx.ROW, n)
        for q, (t, e) in enumerate(rows):
            a["time"][q], a["endtime"][q], a["id"][q] = t, e, q
        return a

    if pkind == "source":
        class V(strax.Plugin):
            provides = ("vv",); depends_on = (); data_kind = "kv"; dtype = D; rechunk_on_save = False

            def source_finished(self):
                return True

            def is_ready(self, chunk_i):
                return chunk_i < 1

            def compute(self, chunk_i):
                return self.chunk(start=S, end=E, data=data())
        P = [V]
    else:
        class V(strax.Plugin):
            provides = ("vv",); depends_on = ("src",); data_kind = "kv"; dtype = D

            def compute(self, ksrc, start, end):
                return data()
        P = [ctx.P_source("src", "ksrc", L, True, save_when=strax.SaveWhen.NEVER), V]
    st = ctx.make_context(P, storage=[fe], timeout=1)
    raised, res = H.expect_raises(ValueError, lambda: st.get_array(RUN, "vv", processor="single_thread", progress_bar=False))
    inside = sand(*[sand(S <= t, e <= E) for t, e in rows])
    prove(iff(inside, not raised), f"range:accepted iff every row lies inside its chunk (raised={raised})")
    if raised:
        prove(not st.is_stored(RUN, "vv"), "range:rejected output left in storage as valid")
    return raised


def nat_range(params, model):
    import strax

    S, E = model["S"], model["E"]
    n = params.get("n", 1)
    rows = [(model[f"t{q}"], model[f"e{q}"], q) for q in range(n)]
    L = ctx.Layout([S, E], [[]])

    class V(strax.Plugin):
        provides = ("vv",); depends_on = ("src",) if params["pkind"] != "source" else (); data_kind = "kv"; dtype = ctx.ROW
        rechunk_on_save = False

        def source_finished(self):
            return True

        def is_ready(self, chunk_i):
            return chunk_i < 1

    if params["pkind"] == "source":
        def compute(self, chunk_i):
            return self.chunk(start=S, end=E, data=_mk(ctx.ROW, rows))
        V.compute = compute
        P = [V]
    else:
        def compute(self, ksrc, start, end):
            return _mk(ctx.ROW, rows)
        V.compute = compute
        P = [ctx.P_source("src", "ksrc", L, False, save_when=strax.SaveWhen.NEVER), V]
    MemFrontend, _, _ = ctx.make_storage_classes()
    st = ctx.make_context(P, storage=[MemFrontend()], timeout=2)
    raised, res = H.expect_raises(ValueError, lambda: st.get_array(RUN, "vv", processor="single_thread", progress_bar=False))
    inside = all(S <= t and e <= E for t, e, _ in rows)
    ok = (inside == (not raised)) and (not raised or not st.is_stored(RUN, "vv"))
    return {"ok": ok, "detail": f"inside={inside} raised={raised}", "label": "range:"}


def sym_continuity():
    """A target whose chunks leave a gap or overlap: get_iter raises <=> start_i != end_{i-1}."""
    import strax

    b0 = fresh_int("b0", 0, H.T_MAX); e0 = fresh_int("e0", 0, H.T_MAX)
    b1 = fresh_int("b1", 0, H.T_MAX); e1 = fresh_int("e1", 0, H.T_MAX)
    assume(sand(e0 >= b0, e1 >= b1))
    D = arrays.obj_dtype(ctx.ROW)

    class V(strax.Plugin):
        provides = ("vv",); depends_on = (); data_kind = "kv"; dtype = D; rechunk_on_save = False

        def source_finished(self):
            return True

        def is_ready(self, chunk_i):
            return chunk_i < 2

        def compute(self, chunk_i):
            s, e = ((b0, e0), (b1, e1))[chunk_i]
            return self.chunk(start=s, end=e, data=arrays.make(ctx.ROW, 0))

    MemFrontend, _, _ = ctx.make_storage_classes()
    st = ctx.make_context([V], storage=[MemFrontend()], timeout=1)
    raised, res = H.expect_raises(ValueError, lambda: list(st.get_iter(RUN, "vv", processor="single_thread", progress_bar=False)))
    prove(iff(b1 != e0, raised), f"continuity:raises iff the target's chunks leave a gap or overlap (raised={raised})")
    if raised:
        prove(not st.is_stored(RUN, "vv"), "continuity:discontinuous target left in storage as valid")
    return raised


def nat_continuity(params, model):
    import strax

    spans = ((model["b0"], model["e0"]), (model["b1"], model["e1"]))

    class V(strax.Plugin):
        provides = ("vv",); depends_on = (); data_kind = "kv"; dtype = ctx.ROW; rechunk_on_save = False

        def source_finished(self):
            return True

        def is_ready(self, chunk_i):
            return chunk_i < 2

        def compute(self, chunk_i):
            return self.chunk(start=spans[chunk_i][0], end=spans[chunk_i][1], data=np.zeros(0, ctx.ROW))

    MemFrontend, _, _ = ctx.make_storage_classes()
    st = ctx.make_context([V], storage=[MemFrontend()], timeout=2)
    raised, res = H.expect_raises(ValueError, lambda: list(st.get_iter(RUN, "vv", processor="single_thread", progress_bar=False)))
    disc = spans[1][0] != spans[0][1]
    stored = st.is_stored(RUN, "vv")
    return {"ok": raised == disc and not (raised and stored), "detail": f"discontinuous={disc} raised={raised} stored={stored}",
            "label": "continuity:"}


def sym_twin():
    sym_continuity()
    prove(False, "twin:reachable")


def _grid(tier):
    g = []
    for proc in ("single", "threaded"):
        for pk in ("ordinary", "multi", "overlap"):
            for var in ("extra", "missing", "narrow"):
                g.append(dict(pkind=pk, vkind="dtype", variant=var, wrap=False, proc=proc))
            g.append(dict(pkind=pk, vkind="titled", proc=proc))
        for pk in ("ordinary", "down", "source"):
            for var in ("extra", "missing", "narrow"):
                g.append(dict(pkind=pk, vkind="dtype", variant=var, wrap=True, proc=proc))
            g.append(dict(pkind=pk, vkind="label", wrap=True, proc=proc))
            if proc == "single":
                for var in ("extra", "narrow"):
                    g.append(dict(pkind=pk, vkind="dtype", variant=var, wrap="own", proc=proc))
        for var in ("swapped", "padded"):
            g.append(dict(pkind="ordinary", vkind="dtype", variant=var, wrap=False, proc=proc))
            g.append(dict(pkind="ordinary", vkind="dtype", variant=var, wrap=True, proc=proc))
        g.append(dict(pkind="multi", vkind="nondict", proc=proc))
        g.append(dict(pkind="multi", vkind="sibling_label", proc=proc))
        g.append(dict(pkind="down", vkind="nonchunk", proc=proc))
        g.append(dict(pkind="down2", vkind="omit", proc=proc))
        g.append(dict(pkind="loop", vkind="nondict", proc=proc))
        g.append(dict(pkind="cut", vkind="length", proc=proc))
    return g


MUTANTS = [
    dict(name="range check ignores late rows", file="strax/chunk.py",
         old="            if data_ends_at > self.end:", new="            if False:"),
    dict(name="range check looks at the last row only", file="strax/chunk.py",
         old="            data_ends_at = strax.endtime(self.data[-500:]).max()",
         new="            data_ends_at = strax.endtime(self.data[-1:]).max()"),
    dict(name="range check ignores early rows", file="strax/chunk.py",
         old="            if data_starts_at < self.start:", new="            if False:"),
    dict(name="continuity check disabled", file="strax/chunk.py",
         old="            if chunk.start != last_end:", new="            if False:"),
    # (the original F-C12 - Chunk.__init__ comparing the declared dtype with itself - is no longer observable on its
    # own: since the repair of F-C12c _fix_output checks the dtype of every returned chunk as well)
    dict(name="original F-C12c: _fix_output does not check the dtype of chunks made by the plugin", file="strax/plugins/plugin.py",
         old="        self._check_dtype(result.data, _dtype)\n        return self.superrun_transformation", new="        return self.superrun_transformation"),
    dict(name="label check accepts any output of the same plugin", file="strax/plugins/plugin.py",
         old="        if result.data_type != _dtype:", new="        if result.data_type not in self.provides:"),
    dict(name="original F-C12b: down-chunking plugin does not check the data_type label", file="strax/plugins/down_chunking_plugin.py",
         old="            if wrong:", new="            if False and wrong:"),
    dict(name="data_type label not checked", file="strax/plugins/plugin.py",
         old="        if result.data_type != _dtype:", new="        if False:"),
]

OBLIGATIONS = [
    Ob("table", sym_table, _grid, nat_table, setup=_setup, witnesses=1,
       doc="every (plugin kind x violation kind), offending chunk index symbolic: exception raised and nothing stored as valid"),
    Ob("range", sym_range, lambda tier: [dict(pkind=p, n=n) for p in ("ordinary", "source")
                                         for n in ((1, 2, 3) if tier == "quick" else (1, 2, 3, 4))], nat_range,
       setup=_setup, witnesses=2,
       doc="accepted <=> every one of n time-sorted rows has start <= time and endtime <= end (symbolic times, end "
           "times in any order, symbolic bounds)"),
    Ob("continuity", sym_continuity, lambda tier: [dict()], nat_continuity, setup=_setup, witnesses=2,
       doc="get_iter raises <=> start_i != end_{i-1} (symbolic)"),
    Ob("twin", sym_twin, lambda tier: [dict()], None, setup=_setup, expect_cex=True),
]
