"""C13 — production is limited by demand and buffer capacity (backpressure).

Eager: queue length <= capacity is part of the mailbox invariant, proved inductive for send / read from
arbitrary invariant states.  Lazy: step obligation on the fetch gate of _send_from / divide_outputs: at the
moment the sender goes on to next(source), a driving reader is waiting for a message that is NOT queued.
Pipeline level: the real ThreadedMailboxProcessor under the deterministic scheduler, consumer paused after p
chunks, run to quiescence, source advances compared between runs of N and 2N chunks.
"""
from symx import core, conc
from symx.core import fresh_int, fresh_bool, assume, prove, sand, sor, snot, implies, iff, smin
from symx.run import Ob
from harness import mbox, C05
from harness.mbox import Sim, has, payload, StopSection

LEVEL = "model_checking"
FUNCTIONS = ["strax.mailbox.Mailbox._can_fetch", "Mailbox._send_from", "divide_outputs", "Mailbox.send",
             "Mailbox._read", "Mailbox._has_msg", "strax.processors.threaded_mailbox.ThreadedMailboxProcessor"]
BOUNDS = {
    "quick": "subscribers 1..2, queue length <= 3, capacity 1..3 / lazy, all driver masks; message numbers unbounded; "
             "pipeline: chains/diamond, N in {2,3} vs 2N source chunks, all pause points, 3 canonical schedules",
    "thorough": "subscribers 1..3, queue <= 5, capacity 1..4; pipeline N<=4, schedule deviations <= 1",
}
ASSUMPTIONS = C05.ASSUMPTIONS + [
    "lazy gate: the condition checked when the gate opens is stable until next(source) runs: a reader blocked on a "
    "message that is not queued stays blocked until this same sender thread produces it (or a kill)",
]
OUTSIDE = ["all OS schedules at pipeline level (canonical policies + bounded deviations only)", "worker pools"]
STUBS = C05.STUBS


def _demand_unmet(st, drivers):
    """some driving reader is waiting for a message that has not been produced yet"""
    return sor(*[sand(st["w"][j] is not None, snot(has(st["heap"], st["w"][j])))
                 for j in range(len(drivers)) if drivers[j] and st["w"][j] is not None]) \
        if any(drivers[j] and st["w"][j] is not None for j in range(len(drivers))) else False


def sym_gate(nsubs, drivers, via):
    """The lazy fetch gate, from any invariant state (also after blocking on the gate)."""
    import strax

    sim = Sim(nsubs, True, None, drivers=drivers, lmax=3)
    mb = sim.mb
    st0 = {"st": None, "fetched": 0}

    def on_acquire():
        st0["st"] = sim.havoc(closed=False)
        sim.reset_notes()

    def on_wait(cond, pred):
        prove(cond.name == "fetch", "gate:waits on the wrong condition")
        st0["st"] = sim.havoc(closed=False)
        assume(mbox_as_bool(pred()))
        return True

    sim.acquire_handler, sim.wait_handler = on_acquire, on_wait

    def source():
        # the sender has passed the gate and now advances the source
        st = st0["st"]
        prove(sor(st["killed"], _demand_unmet(st, drivers)),
              "gate:source advanced although no driving reader is waiting for an unproduced message")
        raise StopSection()
        yield  # pragma: no cover

    try:
        if via == "send_from":
            mb._send_from(source())
        else:
            strax.divide_outputs(source(), {"a": mb}, lazy=True)
    except StopSection:
        pass
    return "ok"


def mbox_as_bool(v):
    return False if v is None else v


def sym_gate_closed(nsubs, drivers):
    """Complement (liveness side): if a driver waits for an unproduced message and nobody waits for a queued
    one, the gate is open."""
    sim = Sim(nsubs, True, None, drivers=drivers, lmax=3)
    st = sim.havoc(closed=False)
    unmet = _demand_unmet(st, drivers)
    served = sor(*[sand(st["w"][j] is not None, has(st["heap"], st["w"][j])) for j in range(nsubs)
                   if st["w"][j] is not None]) if any(w is not None for w in st["w"]) else False
    cf = mbox_as_bool(sim.mb._can_fetch())
    prove(implies(sand(unmet, snot(served)), cf), "gate:closed although a driver waits for an unproduced message")
    return "ok"


# ---------------------------------------------------------------------------- pipeline level
def _plugins(template, n):
    from harness import ctx
    import strax

    L = ctx.Layout([10 * i for i in range(n + 1)], [[(10 * i + 1, 10 * i + 2, i)] for i in range(n)])
    nv = strax.SaveWhen.NEVER
    if template == "chain":
        return [ctx.P_source("src", "ksrc", L, False, save_when=nv), ctx.P_map("m1", "src", False, save_when=nv),
                ctx.P_map("t1", "m1", False, save_when=nv)], "t1"
    if template == "chain_saved":
        return [ctx.P_source("src", "ksrc", L, False, save_when=nv), ctx.P_map("m1", "src", False, rechunk_on_save=False),
                ctx.P_map("t1", "m1", False, save_when=nv)], "t1"
    if template == "diamond":
        return [ctx.P_source("src", "ksrc", L, False, save_when=nv), ctx.P_map("m1", "src", False, kind="kk", save_when=nv),
                ctx.P_map("m2", "src", False, kind="kk", offset=7, save_when=nv),
                ctx.P_merge("t1", ["m1", "m2"], "kk", False, save_when=nv)], "t1"
    if template == "multi":
        return [ctx.P_source("src", "ksrc", L, False, save_when=nv),
                ctx.P_split2(["sa", "sb"], "src", False, 0, save_when=nv), ctx.P_map("t1", "sb", False, save_when=nv)], "t1"
    raise ValueError(template)


def _advances(template, n, p, lazy, cap, pol):
    """Run the real threaded pipeline on n source chunks, stop pulling after p chunks, let it come to rest; return how
    many source chunks were produced."""
    from harness import ctx

    P, target = _plugins(template, n)
    ctx.COUNTS.clear()
    st = ctx.make_context(P, allow_lazy=lazy, max_messages=cap, timeout=1)
    with mbox.SchedRun(pol) as s:
        it = st.get_iter("0", target, processor="threaded_mailbox", progress_bar=False)
        got = 0
        for c in it:
            got += 1
            if got == p:
                break
        if p == 0:
            pass
        s.park()  # the consumer stops pulling; everything else runs until it blocks
        produced = ctx.COUNTS.get("src", 0)
        rest = s.quiesced
        try:
            it.close()
        except BaseException:
            pass
        s.finish()
    return produced, rest, s.deadlock


def sym_backpressure(template, lazy, cap, policy, dev, n=10):
    """Source advances after the consumer stops: equal for runs of n and 2n chunks (bounded by graph + capacity)."""
    import warnings

    warnings.simplefilter("ignore")
    p = core.concretize(fresh_int("p", 1, 3))
    a, rest_a, dl_a = _advances(template, n, p, lazy, cap, mbox.deviating_policy(conc.POLICIES[policy], dev, "da"))
    b, rest_b, dl_b = _advances(template, 2 * n, p, lazy, cap, mbox.deviating_policy(conc.POLICIES[policy], 0, "db"))
    prove(rest_a and rest_b, "backpressure:pipeline did not come to rest")
    prove(a < n, f"backpressure:run of {n} chunks was produced completely ({a}) although the consumer stopped after {p}")
    if dev == 0:
        prove(a == b, f"backpressure:source advanced {a} chunks in a run of {n} but {b} in a run of {2 * n} (pause after {p})")
    else:
        prove(b < 2 * n and a <= _bound(template, cap, lazy, p), f"backpressure:{a} source chunks exceed the graph/capacity bound")
    if lazy:
        # demand-driven: at most one chunk beyond what the consumer asked for, per stage
        prove(a <= p + _depth(template) + 1, f"backpressure:lazy mode produced {a} source chunks for {p} consumed")
    return [p, a, b]


def _depth(template):
    return {"chain": 2, "chain_saved": 2, "diamond": 2, "multi": 2}[template]


def _bound(template, cap, lazy, p):
    return p + (_depth(template) + 1) * (cap + 1) + 2


def nat_backpressure(params, model):
    label = core.concrete_run(lambda: sym_backpressure(**params), model)
    return {"ok": label is None, "detail": label or "holds", "label": label}


def _g_bp(tier):
    g = []
    for tp in ("chain", "chain_saved", "diamond", "multi"):
        for lazy, caps in ((True, [4]), (False, [1, 2] if tier == "quick" else [1, 2, 3, 4])):
            for cap in caps:
                # the run must be longer than what the graph can buffer: up to 2*cap - 1 messages per mailbox (queue +
                # the batch a reader holds, F-C05) times the number of mailboxes on the way (<= 4) plus the chunks in
                # flight - about 8*cap + 8.  n = 30 covers cap <= 2; with n = 30 and cap = 4 the multi-output template
                # buffered the WHOLE run and the 'a < n' clause raised a false alarm in the thorough tier.
                n = 30 if (lazy or cap <= 2) else 12 * cap + 12
                for pol in ("lowest", "highest", "rr"):
                    g.append(dict(template=tp, lazy=lazy, cap=cap, policy=pol, dev=0, n=n))
        if tier != "quick":
            g.append(dict(template=tp, lazy=True, cap=4, policy="rr", dev=1, n=30))
    return g


MUTANTS = [
    dict(name="original F-C13: gate compares the awaited number with the lowest queued one", file="strax/mailbox.py",
         only="gate,backpressure",
         old="[x is not None and self._has_msg(x) for x in self._subscriber_waiting_for]",
         new="[x is not None and x <= self._lowest_msg_number for x in self._subscriber_waiting_for]"),
    dict(name="gate ignores can_drive", file="strax/mailbox.py", only="gate",
         old="            if can_drive and waiting_for is not None:", new="            if waiting_for is not None:"),
    dict(name="gate opens when nobody waits", file="strax/mailbox.py", only="gate",
         old="                return True\n        return False\n\n    def _send_from", new="                return True\n        return True\n\n    def _send_from"),
    dict(name="savers drive production in lazy mode", file="strax/processors/threaded_mailbox.py", only="backpressure",
         old="                    can_drive = not lazy", new="                    can_drive = True"),
    dict(name="eager capacity off by one", file="strax/mailbox.py", only="cap_send,cap_read",
         old="return len(self._mailbox) < self.max_messages or self.killed", new="return len(self._mailbox) <= self.max_messages or self.killed"),
]


def _g_gate(tier):
    g = []
    for s in ([1, 2] if tier == "quick" else [1, 2, 3]):
        for mask in C05._masks(s):
            for via in ("send_from", "divide"):
                g.append(dict(nsubs=s, drivers=mask, via=via))
    return g


def _setup_all():
    from harness import ctx

    inj = ctx.setup()
    inj2 = mbox.setup()
    inj.saved.extend(inj2.saved)
    return inj


OBLIGATIONS = [
    Ob("backpressure", sym_backpressure, _g_bp, nat_backpressure, setup=_setup_all, witnesses=1,
       doc="real threaded pipeline under the scheduler, consumer stops after p chunks, run to quiescence: source advances "
           "equal for N and 2N chunks; lazy: bounded by demand"),
    Ob("gate", sym_gate, _g_gate, mbox.nat_rg(sym_gate), setup=mbox.setup, witnesses=1,
       doc="lazy: when the gate lets the sender advance the source, a driving reader waits for an unproduced message"),
    Ob("gate_open", sym_gate_closed, lambda tier: [dict(nsubs=s, drivers=m) for s in ([1, 2] if tier == "quick" else [1, 2, 3])
                                                   for m in C05._masks(s)], mbox.nat_rg(sym_gate_closed),
       setup=mbox.setup, witnesses=1, doc="lazy: unmet demand (and no served waiter) => gate open"),
    Ob("cap_send", C05.sym_send, lambda tier: [p for p in C05._g_send(tier) if not p["lazy"]], mbox.nat_rg(C05.sym_send),
       setup=mbox.setup, witnesses=1, doc="eager: len(queue) <= capacity is inductive over send (incl. blocked sender)"),
    Ob("cap_read", C05.sym_read, lambda tier: [p for p in C05._g_read(tier) if not p["lazy"]], mbox.nat_rg(C05.sym_read),
       setup=mbox.setup, witnesses=1, doc="eager: invariant (incl. capacity) preserved by reader sections"),
]
