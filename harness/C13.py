"""C13 — production is limited by demand and buffer capacity (backpressure).

Eager: queue length <= capacity is part of the mailbox invariant, proved inductive for send / read from
arbitrary invariant states.  Lazy: step obligation on the fetch gate of _send_from / divide_outputs: at the
moment the sender goes on to next(source), a driving reader is waiting for a message that is NOT queued.
Pipeline level: the real ThreadedMailboxProcessor under the deterministic scheduler, consumer paused after p
chunks, run to quiescence, source advances compared between runs of N and 2N chunks.
"""
from symx import core, conc
from symx.core import fresh_int, fresh_bool, assume, prove, sand, sor, snot, implies, iff, smin
from symx.run import Ob
from harness import mbox, C05
from harness.mbox import Sim, has, payload, StopSection

LEVEL = "model_checking"
FUNCTIONS = ["strax.mailbox.Mailbox._can_fetch", "Mailbox._send_from", "divide_outputs", "Mailbox.send",
             "Mailbox._read", "Mailbox._has_msg", "strax.processors.threaded_mailbox.ThreadedMailboxProcessor"]
BOUNDS = {
    "quick": "subscribers 1..2, queue length <= 3, capacity 1..3 / lazy, all driver masks; message numbers unbounded; "
             "pipeline: chains/diamond, N in {2,3} vs 2N source chunks, all pause points, 3 canonical schedules",
    "thorough": "subscribers 1..3, queue <= 5, capacity 1..4; pipeline N<=4, schedule deviations <= 1",
}
ASSUMPTIONS = C05.ASSUMPTIONS + [
    "lazy gate: the condition checked when the gate opens is stable until next(source) runs: a reader blocked on a "
    "message that is not queued stays blocked until this same sender thread produces it (or a kill)",
]
OUTSIDE = ["all OS schedules at pipeline level (canonical policies + bounded deviations only)", "worker pools"]
STUBS = C05.STUBS


def _demand_unmet(st, drivers):
    """some driving reader is waiting for a message that has not been produced yet"""
    return sor(*[sand(st["w"][j] is not None, snot(has(st["heap"], st["w"][j])))
                 for j in range(len(drivers)) if drivers[j] and st["w"][j] is not None]) \
        if any(drivers[j] and st["w"][j] is not None for j in range(len(drivers))) else False


def sym_gate(nsubs, drivers, via):
    """The lazy fetch gate, from any invariant state (also after blocking on the gate)."""
    import strax

    sim = Sim(nsubs, True, None, drivers=drivers, lmax=3)
    mb = sim.mb
    st0 = {"st": None, "fetched": 0}

    def on_acquire():
        st0["st"] = sim.havoc(closed=False)
        sim.reset_notes()

    def on_wait(cond, pred):
        prove(cond.name == "fetch", "gate:waits on the wrong condition")
        st0["st"] = sim.havoc(closed=False)
        assume(mbox_as_bool(pred()))
        return True

    sim.acquire_handler, sim.wait_handler = on_acquire, on_wait

    def source():
        # the sender has passed the gate and now advances the source
        st = st0["st"]
        prove(sor(st["killed"], _demand_unmet(st, drivers)),
              "gate:source advanced although no driving reader is waiting for an unproduced message")
        raise StopSection()
        yield  # pragma: no cover

    try:
        if via == "send_from":
            mb._send_from(source())
        else:
            strax.divide_outputs(source(), {"a": mb}, lazy=True)
    except StopSection:
        pass
    return "ok"


def mbox_as_bool(v):
    return False if v is None else v


def sym_gate_closed(nsubs, drivers):
    """Complement (liveness side): if a driver waits for an unproduced message and nobody waits for a queued
    one, the gate is open."""
    sim = Sim(nsubs, True, None, drivers=drivers, lmax=3)
    st = sim.havoc(closed=False)
    unmet = _demand_unmet(st, drivers)
    served = sor(*[sand(st["w"][j] is not None, has(st["heap"], st["w"][j])) for j in range(nsubs)
                   if st["w"][j] is not None]) if any(w is not None for w in st["w"]) else False
    cf = mbox_as_bool(sim.mb._can_fetch())
    prove(implies(sand(unmet, snot(served)), cf), "gate:closed although a driver waits for an unproduced message")
    return "ok"


MUTANTS = [
    dict(name="gate ignores can_drive", file="strax/mailbox.py", only="gate",
         old="            if can_drive and waiting_for is not None:", new="            if waiting_for is not None:"),
    dict(name="gate opens when nobody waits", file="strax/mailbox.py", only="gate",
         old="                return True\n        return False\n\n    def _send_from", new="                return True\n        return True\n\n    def _send_from"),
    dict(name="eager capacity off by one", file="strax/mailbox.py", only="cap_send,cap_read",
         old="return len(self._mailbox) < self.max_messages or self.killed", new="return len(self._mailbox) <= self.max_messages or self.killed"),
]


def _g_gate(tier):
    g = []
    for s in ([1, 2] if tier == "quick" else [1, 2, 3]):
        for mask in C05._masks(s):
            for via in ("send_from", "divide"):
                g.append(dict(nsubs=s, drivers=mask, via=via))
    return g


OBLIGATIONS = [
    Ob("gate", sym_gate, _g_gate, mbox.nat_rg(sym_gate), setup=mbox.setup, witnesses=1,
       doc="lazy: when the gate lets the sender advance the source, a driving reader waits for an unproduced message"),
    Ob("gate_open", sym_gate_closed, lambda tier: [dict(nsubs=s, drivers=m) for s in ([1, 2] if tier == "quick" else [1, 2, 3])
                                                   for m in C05._masks(s)], mbox.nat_rg(sym_gate_closed),
       setup=mbox.setup, witnesses=1, doc="lazy: unmet demand (and no served waiter) => gate open"),
    Ob("cap_send", C05.sym_send, lambda tier: [p for p in C05._g_send(tier) if not p["lazy"]], mbox.nat_rg(C05.sym_send),
       setup=mbox.setup, witnesses=1, doc="eager: len(queue) <= capacity is inductive over send (incl. blocked sender)"),
    Ob("cap_read", C05.sym_read, lambda tier: [p for p in C05._g_read(tier) if not p["lazy"]], mbox.nat_rg(C05.sym_read),
       setup=mbox.setup, witnesses=1, doc="eager: invariant (incl. capacity) preserved by reader sections"),
]
