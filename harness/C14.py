"""C14 — a superrun is exactly the ordered concatenation of its subruns.

Real define_run, the superrun branch of Context.get_components (make the subruns, chain their loaders), key_for /
DataKey._run_id, Plugin.superrun_transformation, chunk sub/superrun bookkeeping, continuity across subrun borders,
Saver.save with `subruns`, re-read of a written superrun - on subruns with independent symbolic chunk layouts.
"""
import datetime
import warnings

import numpy as np
import pytz

from symx import core, arrays
from symx.core import fresh_int, assume, prove, sand, sor, snot, implies, iff
from symx.run import Ob
from harness import common as H, ctx

LEVEL = "model_checking"
FUNCTIONS = ["strax.run_selection.define_run", "Context.get_components (superrun branch)", "Context.key_for / get_data_key",
             "strax.storage.common.DataKey._run_id", "Plugin.superrun_transformation", "Plugin._check_subruns_uniqueness",
             "Chunk.subruns / superrun setters", "_split_runs_in_chunk", "_merge_subruns_in_chunk", "continuity_check",
             "Saver.save (subruns in chunk metadata)", "StorageBackend._read_and_format_chunk", "Rechunker(is_superrun)",
             "strax.utils.multi_run (subrun make)", "Context.is_stored"]
BOUNDS = {
    "quick": "1..3 subruns with independent symbolic layouts (<=2 chunks, <=2 rows each); superrun-capable level at depth "
             "1 and 2; combined on the fly and written (write_superruns) + re-read, also rechunked on save across subrun "
             "borders (1-row target); redefinition of the superrun; Chunk.split of a row-less superrun chunk over two "
             "runs with symbolic spans in [0, 1000] (empty spans included) at a symbolic time",
    "thorough": "4 subruns, <=3 chunks per subrun",
}
ASSUMPTIONS = ["run-level start/end metadata are concrete, ordered datetimes (datetime objects are not encoded)",
               "data time ranges of consecutive subruns are ordered and disjoint (documented requirement)",
               "multi_run's thread pool is replaced by a synchronous stub executor (C15 covers its ordering)",
               "all time values in [0, 2^62)"]
OUTSIDE = ["sub-run time-range specs other than 'all'", "threaded processor for superruns", "OverlapWindowPlugin as a "
           "superrun level and superrun processing starting at two levels of one graph (only Chunk.split's part of it "
           "is decided, by splitrun)"]
STUBS = ["np/int/min/max shims", "in-memory frontend", "synchronous executor in strax.utils.multi_run"]
SUP = "_sup"


def _setup():
    inj = ctx.setup()
    ctx.multirun_shims(inj)
    return inj


def _tsm(rows, obj):
    isz = ctx.dt(ctx.VAL, obj).itemsize
    v = (rows + 0.5) * isz / 1e6
    assert int((v * 1e6) // isz) == rows
    return v


def P_up(name, dep, obj, offset, allow=True, rechunk=None):
    P = ctx.P_map(name, dep, obj, offset=offset, rechunk_on_save=rechunk is not None)
    P.allow_superrun = allow
    if rechunk is not None:
        P.chunk_target_size_mb = _tsm(rechunk, obj)
    return P


def _sorted_keys(x):
    """what json.dumps(sort_keys=True) + json.loads does to the ORDER of every dict (DataDirectory.write_run_metadata)"""
    if isinstance(x, dict):
        return {k: _sorted_keys(x[k]) for k in sorted(x)}
    return x


def build(layouts, obj, write, rechunk=None, down=False):
    import strax

    MemFrontend, _, _ = ctx.make_storage_classes()

    class SortingFrontend(MemFrontend):
        """run metadata is stored the way the file-based frontend stores it: keys sorted"""

        def write_run_metadata(self, run_id, metadata):
            return super().write_run_metadata(run_id, _sorted_keys(metadata))

    fe = SortingFrontend()
    P = [ctx.P_source_runs("src", "ksrc", layouts, obj), P_up("m1", "src", obj, 1, rechunk=rechunk),
         P_up("t1", "m1", obj, 2, rechunk=rechunk)]
    if down:
        # the first superrun level is a DownChunkingPlugin (one chunk per input row where a cut is admissible)
        P[1] = ctx.P_down("m1", "src", obj)
        P[1].allow_superrun = True
    st = ctx.make_context(P, storage=[fe])
    st.set_context_config({"write_superruns": write})
    runs = list(layouts)  # insertion order = order of run start
    for k, r in enumerate(runs):
        fe.write_run_metadata(r, dict(name=r, start=datetime.datetime(2020, 1, 1, 0, 0, 2 * k, tzinfo=pytz.utc),
                                      end=datetime.datetime(2020, 1, 1, 0, 0, 2 * k + 1, tzinfo=pytz.utc), mode="m",
                                      source="s"))
    return st, fe, runs


def _layouts(spec, sym, model=None, names=None):
    """spec: {run: rows-per-chunk} in order of run start (keys sort that way); consecutive subruns ordered and disjoint
    in data time.  names: optional {spec key: run id} - run ids whose lexical order differs from the time order."""
    layouts, prev_end, rid = {}, None, 0
    names = names or {}
    for r in sorted(spec):
        if sym:
            S = fresh_int(f"r{r}_S", 0, H.T_MAX)
            if prev_end is not None:
                assume(S >= prev_end)
            L = ctx.sym_layout(f"r{r}_", spec[r], S, first_id=rid)
        else:
            L = ctx.conc_layout(model, f"r{r}_", spec[r], model[f"r{r}_S"], first_id=rid)
        layouts[names.get(r, r)] = L
        prev_end = L.bounds[-1]
        rid += sum(spec[r])
    return layouts


def _check_records(chunks, runs, layouts, nogap):
    """every chunk records exactly the subruns (and spans) it was built from"""
    for c in chunks:
        if c.subruns is None:
            prove(sand(len(c.data) == 0, c.start == c.end), "superrun:non-empty chunk without subrun annotation")
            continue
        for r, span in c.subruns.items():
            prove(r in runs, "superrun:unknown subrun recorded")
            L = layouts[r]
            in_chunk = sand(span["start"] >= c.start, span["end"] <= c.end)
            in_subrun = sand(span["start"] >= L.bounds[0], span["end"] <= L.bounds[-1])
            prove(implies(nogap, sand(in_chunk, in_subrun)),
                  "superrun:recorded span reaches outside the subrun / the chunk (contiguous subruns)")
            prove(in_chunk, "superrun:recorded span reaches outside the chunk that carries it (gap between subruns)")
            prove(in_subrun, "superrun:row-less chunk covering a gap records a subrun beyond the subrun's own range"
                  if len(c.data) == 0 else
                  "superrun:recorded span reaches outside the subrun's own range (gap between subruns)")
        for q in range(len(c.data)):
            i = int(c.data["id"][q])
            owner = next(r for r in runs if any(i == x[2] for x in layouts[r].rows))
            prove(owner in c.subruns, "superrun:chunk carries a row of a subrun it does not record")
    for r in runs:
        covered = [c.subruns[r] for c in chunks if c.subruns is not None and r in c.subruns]
        prove(sor(len(covered) >= 1, layouts[r].bounds[0] == layouts[r].bounds[-1]), f"superrun:subrun {r} recorded by no chunk")
        if not covered:
            continue
        cov = sand(covered[0]["start"] == layouts[r].bounds[0], covered[-1]["end"] == layouts[r].bounds[-1])
        prove(implies(nogap, cov), "superrun:recorded spans do not cover the subrun (contiguous subruns)")
        prove(cov, "superrun:recorded spans do not cover the subrun (zero-duration chunk / gap between subruns)")
        for a, b in zip(covered, covered[1:]):
            prove(implies(nogap, a["end"] == b["start"]), f"superrun:recorded spans of a subrun not contiguous (contiguous subruns)")
            prove(a["end"] == b["start"], "superrun:recorded spans of a subrun overlap (gap between subruns)")


def _check(st, fe, runs, layouts, target, write, redefine):
    off = {"m1": 1, "t1": 2}[target]
    # subruns whose data ranges are contiguous and have no zero-duration chunks: the strict statement must hold;
    # with a gap between subruns (absorbed into a chunk by concatenation) see known finding F-C14
    rs = list(layouts)
    nogap = sand(*[layouts[rs[k + 1]].bounds[0] == layouts[rs[k]].bounds[-1] for k in range(len(rs) - 1)],
                 *[L.bounds[j + 1] > L.bounds[j] for L in layouts.values() for j in range(len(L.bounds) - 1)])
    want = []
    for r in runs:
        for (t, e, i) in layouts[r].rows:
            want.append((i, t, e, (e - t) + off))
    chunks = list(st.get_iter(SUP, target, processor="single_thread", progress_bar=False))
    got = [(int(c.data["id"][q]), c.data["time"][q], c.data["endtime"][q], c.data["val"][q]) for c in chunks
           for q in range(len(c.data))]
    prove([g[0] for g in got] == [w[0] for w in want], f"superrun:rows are not the subruns' rows in run-start order: {[g[0] for g in got]}")
    for g, w in zip(got, want):
        prove(sand(g[1] == w[1], g[2] == w[2], g[3] == w[3]), "superrun:row content differs from the subrun's own result")
    _check_records(chunks, runs, layouts, nogap)
    if write:
        prove(st.is_stored(SUP, target), "superrun:not stored although write_superruns is on")
        again = st.get_array(SUP, target, processor="single_thread", progress_bar=False)
        prove([int(x) for x in again["id"]] == [w[0] for w in want], "superrun:re-read rows differ")
        for q, w in enumerate(want):
            prove(again["val"][q] == w[3], "superrun:re-read values differ")
        # what was written (possibly rechunked across subrun borders by the saver) and is now loaded from storage
        stored = list(st.get_iter(SUP, target, processor="single_thread", progress_bar=False))
        prove([int(x) for c in stored for x in c.data["id"]] == [w[0] for w in want], "superrun:re-read chunks' rows differ")
        _check_records(stored, runs, layouts, nogap)
        md = st.get_metadata(SUP, target)
        prove(len(md["chunks"]) == len(stored), "superrun:stored metadata chunk count")
        for ci, c in zip(md["chunks"], stored):
            if ci.get("subruns") is not None and c.subruns is not None:
                prove(sorted(ci["subruns"]) == sorted(c.subruns), "superrun:stored chunk metadata records other subruns than the chunk")
        for ci in md["chunks"]:
            prove(sor(ci.get("subruns") is not None, sand(ci["n"] == 0, ci["start"] == ci["end"])),
                  "superrun:stored chunk metadata lacks subruns")
        if redefine:
            st.define_run(SUP, runs[:-1] if len(runs) > 1 else runs)
            if len(runs) > 1:
                prove(not st.is_stored(SUP, target), "superrun:stale data still available after redefining the superrun")
    else:
        prove(not st.is_stored(SUP, target), "superrun:written although write_superruns is off")
    return [g[0] for g in got]


def sym_superrun(spec, target="t1", write=False, redefine=False, rechunk=None, names=None, down=False):
    layouts = _layouts(spec, True, names=names)
    st, fe, runs = build(layouts, True, write, rechunk, down)
    st.define_run(SUP, runs)
    return _check(st, fe, runs, layouts, target, write, redefine)


def nat_superrun(params, model):
    layouts = _layouts(params["spec"], False, model, names=params.get("names"))
    with warnings.catch_warnings():
        warnings.simplefilter("ignore")
        inj = None
        import strax.utils as su

        st, fe, runs = build(layouts, False, params.get("write", False), params.get("rechunk"), params.get("down", False))
        st.define_run(SUP, runs)
        label = core.concrete_run(lambda: _check(st, fe, runs, layouts, params.get("target", "t1"),
                                                 params.get("write", False), params.get("redefine", False)), model)
    return {"ok": label is None, "detail": label or "equals the concatenation of the subruns", "label": label}


# ---------------------------------------------------------------------------- Chunk.split: run id of the pieces
def _splitrun_chunk(s1, e1, s2, e2, obj):
    import strax

    DT = np.dtype([("time", np.int64), ("endtime", np.int64), ("id", np.int64)])
    data = arrays.make(DT, 0) if obj else np.zeros(0, DT)
    return strax.Chunk(data_type="x", data_kind="k", dtype=arrays.obj_dtype(DT) if obj else DT, run_id=SUP, start=s1, end=e2,
                       data=data, superrun={"1": {"start": s1, "end": e1}, "2": {"start": s2, "end": e2}})


def _splitrun_check(c, pieces, t):
    """each piece: its run id is the superrun's name when it holds several runs, else THE run it holds"""
    for side, p in zip(("left", "right"), pieces):
        sr = p.superrun
        if sr is not None and len(sr) == 1:
            only = list(sr)[0]
            prove(p.run_id == only, f"splitrun:{side} piece of a split at {t} records only run {only} "
                                    f"({dict(sr)}) but calls itself run {p.run_id}")
        elif sr is not None and len(sr) > 1:
            prove(p.run_id == SUP, f"splitrun:{side} piece holds runs {list(sr)} but calls itself run {p.run_id}")
    return [p.run_id for p in pieces]


def sym_splitrun():
    """a row-less superrun chunk over two subruns with symbolic spans (zero-duration spans included), split at a
    symbolic time"""
    s1 = fresh_int("s1", 0, 1000); e1 = fresh_int("e1", 0, 1000)
    s2 = fresh_int("s2", 0, 1000); e2 = fresh_int("e2", 0, 1000)
    assume(sand(s1 <= e1, e1 <= s2, s2 <= e2, s1 < e2))
    t = fresh_int("t", 0, 1000)
    assume(sand(s1 <= t, t <= e2))
    c = _splitrun_chunk(s1, e1, s2, e2, True)
    return _splitrun_check(c, c.split(t, allow_early_split=True), t)


def nat_splitrun(params, model):
    m = lambda k: model.get(k, 0) or 0
    try:
        c = _splitrun_chunk(m("s1"), m("e1"), m("s2"), m("e2"), False)
    except ValueError as e:
        return {"ok": None, "detail": f"precondition not met natively: {e}"}
    label = core.concrete_run(lambda: _splitrun_check(c, c.split(m("t"), allow_early_split=True), m("t")), model)
    return {"ok": label is None, "detail": label or "run ids of the pieces agree with their run spans", "label": label}


def sym_twin():
    sym_superrun({"0": [1], "1": [1]})
    prove(False, "twin:reachable")


def _grid(tier):
    specs = [{"0": [1]}, {"0": [1], "1": [1]}, {"0": [1, 1], "1": [2]}, {"0": [2], "1": [1, 1]}, {"0": [1], "1": [0, 1], "2": [1]}]
    if tier != "quick":
        specs += [{"0": [1, 1], "1": [1, 1], "2": [2]}, {"0": [1], "1": [1], "2": [1], "3": [1]}, {"0": [2, 1], "1": [1, 2]}]
    g = []
    # run ids whose lexical order is not the order of run start ("9" before "10")
    g.append(dict(spec={"0": [1], "1": [1]}, target="m1", names={"0": "9", "1": "10"}))
    g.append(dict(spec={"0": [1, 1], "1": [2]}, target="t1", write=True, names={"0": "9", "1": "10"}))
    for s in ({"0": [2], "1": [1]}, {"0": [2], "1": [2]}):
        g.append(dict(spec=s, target="t1", down=True))
        g.append(dict(spec=s, target="t1", down=True, write=True))
    for s in specs:
        for tgt in ("m1", "t1"):
            g.append(dict(spec=s, target=tgt))
            g.append(dict(spec=s, target=tgt, write=True, redefine=(tgt == "t1")))
            # written superrun rechunked by the saver (1-row target): get_splits cuts once >= 3 rows are cached, at
            # (row time - 500 ns), which the solver may place exactly on / next to a subrun border
            if sum(len(v) and sum(v) for v in s.values()) >= 3:
                g.append(dict(spec=s, target=tgt, write=True, rechunk=1))
    return g


MUTANTS = [
    dict(name="down-chunked pieces record the spans of the whole input (original defect F-C14h)", file="strax/plugins/down_chunking_plugin.py",
         old="                self._runs_within(superrun, v.start, v.end),\n                self._runs_within(subruns, v.start, v.end),",
         new="                superrun,\n                subruns,"),
    dict(name="piece named after the first run of the unsplit chunk (original defect F-C14g)", file="strax/chunk.py", only="splitrun",
         old="            run_id_first_chunk = list(superrun_first_chunk.keys())[0]", new="            run_id_first_chunk = list(self.superrun.keys())[0]"),
    dict(name="original F-C14/F-C14e: split keeps the whole subrun spans when continuity is not promised", file="strax/chunk.py",
         old="        subruns_first_chunk, subruns_second_chunk = _split_runs_in_chunk(self.subruns, t)\n",
         new="        if self.promised_continuity:\n            subruns_first_chunk, subruns_second_chunk = _split_runs_in_chunk(self.subruns, t)\n        else:\n            subruns_first_chunk = subruns_second_chunk = self.subruns\n"),
    dict(name="a run starting exactly at the split time is dropped", file="strax/chunk.py",
         old='        if t <= run_start_end["start"]:', new='        if t < run_start_end["start"]:'),
    dict(name="superrun key ignores the subrun spec", file="strax/storage/common.py",
         old='            suffix = "_" + strax.deterministic_hash((self.subruns, self.combining))', new='            suffix = "_x"'),
    dict(name="subruns not recorded in chunk metadata", file="strax/storage/common.py",
         old="            subruns=chunk.subruns,\n", new="            subruns=None,\n"),
    dict(name="run spans not split with the chunk", file="strax/chunk.py",
         old='            runs_first_chunk[run_id] = {"start": run_start_end["start"], "end": int(t)}',
         new='            runs_first_chunk[run_id] = {"start": run_start_end["start"], "end": run_start_end["end"]}'),
]

OBLIGATIONS = [
    Ob("superrun", sym_superrun, _grid, nat_superrun, setup=_setup, witnesses=1,
       doc="superrun result == subruns concatenated in start order (on the fly, written + re-read, depth 1 and 2); chunks "
           "record exactly their subruns and spans; redefinition invalidates stored data"),
    Ob("splitrun", sym_splitrun, lambda tier: [dict()], nat_splitrun, setup=_setup, witnesses=2,
       doc="Chunk.split of a superrun chunk: a piece that records one run carries that run's id"),
    Ob("twin", sym_twin, lambda tier: [dict()], None, setup=_setup, expect_cex=True),
]
