"""C15 — loading many runs in parallel equals loading them one by one.

(1) strax.utils.multi_run with its thread pool replaced by a stub whose `wait(..., FIRST_COMPLETED)` completes a
    SOLVER-CHOSEN pending future: every completion order is a path; failing runs are chosen by the solver too.
(2) Shared-context interference: the real Context.get_array for two same-kind targets (temporary merge plugin
    registered and removed per call) runs on a context whose plugin registry is an instrumented dict; before every
    access to the shared registry a symbolic Boolean decides whether ANOTHER worker performs one of its atomic actions
    (register its temp plugin / remove all temp plugins) - the real code of get_iter, at dict-operation granularity.
"""
import warnings

import numpy as np

from symx import core, arrays
from symx.core import fresh_int, fresh_bool, assume, prove, sand, sor, snot, implies, iff
from symx.run import Ob
from harness import common as H, ctx

LEVEL = "model_checking"
FUNCTIONS = ["strax.utils.multi_run", "Context.get_array (multi-run)", "Context.make (multi-run)", "Context.get_iter "
             "(temporary merge plugin register / cleanup)", "Context.register", "Context._get_plugins", "Context.__get_plugin",
             "Context._context_hash", "Context._plugins_are_cached", "Context._plugins_to_cache", "Context.get_components",
             "Context.key_for"]
BOUNDS = {
    "quick": "multi_run: 2..4 runs, 1..2 workers, every completion order, every set of failing runs, ignore_errors on/off; "
             "interference: 1 action of another worker per call, before any access to the shared plugin registry; "
             "cacherace: 2 real workers (runs '0', '1') on one context, every schedule with <= 1 switch (two same-kind "
             "targets, cold and warm cache) and <= 2 switches (one target, cold cache) at the accesses to the shared "
             "plugin cache, <= 3 switches when the first is at a cache replacement and the last within 8 switch points "
             "of the second",
    "thorough": "2..6 runs, 1..4 workers; 2 interferences (the second within 8 registry accesses of the first); cacherace "
                "with <= 2 switches also for two same-kind targets",
}
ASSUMPTIONS = ["dict operations are atomic (GIL); interleavings inside a single dict operation are outside",
               "the other worker's actions are the mutations of the SHARED plugin registry that the real get_array performs "
               "(recorded from a real call on the same context); its reads do not disturb",
               "per-run results are concrete; the completion order / failure set / interference points are symbolic"]
OUTSIDE = ["free-threaded CPython", "OS-level preemption inside C code", "process pools", "3 or more concurrent workers "
           "on one context; more than 3 thread switches; the same run id twice in one list"]
STUBS = ["strax.utils.ThreadPoolExecutor / wait -> solver-driven stub", "instrumented registry dict", "np/int/min/max shims",
         "Context re-classed to a subclass whose _fixed_plugin_cache is a spying data descriptor; locks of strax.context "
         "replaced by scheduler-aware mutexes; dict.copy() modelled as one atomic step"]
RUNS = ["0", "1", "2", "3", "4", "5"]


def _lay(r, empty=False):
    k = int(r)
    if empty:  # a quiet run: its chunks carry no rows at all
        return ctx.Layout([100 * k, 100 * k + 50, 100 * k + 100], [[], []])
    return ctx.Layout([100 * k, 100 * k + 50, 100 * k + 100], [[(100 * k + 1, 100 * k + 2, 10 * k)], [(100 * k + 60, 100 * k + 61, 10 * k + 1)]])


def _plugins(runs, fail=(), empty=()):
    layouts = {r: _lay(r, r in empty) for r in runs}
    obj = core.active()  # object arrays while a symbolic path is active (the np shim makes object arrays then)
    return [ctx.P_source_runs("src", "ksrc", layouts, obj, fail_runs=fail),
            ctx.P_map("m1", "src", obj, kind="kk"), ctx.P_map("m2", "src", obj, kind="kk", offset=7)]


def _setup():
    inj = ctx.setup()
    return inj


# ---------------------------------------------------------------------------- multi_run ordering
def sym_multirun(nruns, workers, ignore_errors, targets="m1", quiet=False):
    import strax
    import strax.utils as su

    runs = RUNS[:nruns]
    fails = [r for r in runs if bool(fresh_bool(f"fail_{r}"))]
    if len(fails) == len(runs):
        raise core.PathAbort("every run fails: nothing to compare")
    # quiet: the solver may also pick ONE run that yields no rows at all (-1: none)
    qi = core.concretize(fresh_int("quiet", -1, nruns - 1)) if quiet else -1
    empties = [runs[qi]] if qi >= 0 else []

    def chooser(pending):
        i = core.concretize(fresh_int(f"pick{len(ctx.StubPool.order)}", 0, len(pending) - 1))
        return [pending[i]]

    inj = arrays.Injector()
    ctx.multirun_shims(inj, chooser)
    try:
        MemFrontend, _, _ = ctx.make_storage_classes()
        st = ctx.make_context(_plugins(runs, fails, empties), storage=[MemFrontend()])
        tg = targets if isinstance(targets, str) else tuple(targets)
        raised = None
        try:
            got = st.get_array(runs, tg, max_workers=workers, ignore_errors=ignore_errors, processor="single_thread")
        except ZeroDivisionError as e:
            raised = e
        except (ValueError, TypeError) as e:  # e.g. np.concatenate of per-run results with different fields
            prove(False, "multirun:combining the per-run results raised (ValueError / TypeError)")
        order = list(ctx.StubPool.order)
    finally:
        inj.restore()
    # sequential reference
    st2 = ctx.make_context(_plugins(runs, (), empties), storage=[MemFrontend()])
    ok_runs = [r for r in runs if r not in fails]
    if fails and not ignore_errors:
        prove(raised is not None, f"multirun:a failing run {fails} was swallowed (order {order})")
        return ["raised", order]
    prove(raised is None, f"multirun:raised {raised!r} although errors are ignored / nothing fails")
    want_ids, want_run = [], []
    for r in sorted(ok_runs):
        a = st2.get_array(r, tg, processor="single_thread")
        want_ids += [int(x) for x in a["id"]]
        want_run += [r] * len(a)
    prove("run_id" in got.dtype.names, "multirun:run_id column missing")
    prove([int(x) for x in got["id"]] == want_ids, f"multirun:rows are not the per-run results in run-id order (completion order {order})")
    prove([str(x) for x in got["run_id"]] == want_run, f"multirun:run_id column wrong (completion order {order})")
    return [order, fails]


def nat_multirun(params, model):
    label = core.concrete_run(lambda: sym_multirun(**params), model)  # no shims: native numba / numpy
    if label is None:
        return {"ok": True, "detail": "equals sequential loading"}
    return {"ok": False, "detail": label, "label": label}


# ---------------------------------------------------------------------------- shared-context interference
class SpyDict(dict):
    """dict whose every access first lets `hook(op)` run (another worker may act there)."""

    hook = None

    def _h(self, op):
        if SpyDict.hook is not None:
            SpyDict.hook(self, op)

    def __getitem__(self, k):
        self._h("getitem")
        return dict.__getitem__(self, k)

    def get(self, k, d=None):
        self._h("get")
        return dict.get(self, k, d)

    def __contains__(self, k):
        self._h("contains")
        return dict.__contains__(self, k)

    def __setitem__(self, k, v):
        self._h("setitem")
        return dict.__setitem__(self, k, v)

    def __delitem__(self, k):
        self._h("delitem")
        return dict.__delitem__(self, k)

    def _iter(self, it):
        for x in it:
            yield x
            self._h("iter-step")  # the real dict iterator raises if the size changed meanwhile

    def items(self):
        self._h("items")
        return self._iter(dict.items(self))

    def values(self):
        self._h("values")
        return self._iter(dict.values(self))

    def copy(self):
        self._h("copy")
        return dict.copy(self)  # one C-level operation: atomic under the GIL; the copy is private to the caller

    def keys(self):
        self._h("keys")
        return list(dict.keys(self))  # get_iter's cleanup copies the keys first

    def __iter__(self):
        self._h("iter")
        return self._iter(dict.__iter__(self))


class RecDict(dict):
    """registry that records every mutation applied to it"""

    def __init__(self, *a):
        super().__init__(*a)
        self.log = []

    def __setitem__(self, k, v):
        self.log.append(("set", k, v))
        return dict.__setitem__(self, k, v)

    def __delitem__(self, k):
        self.log.append(("del", k, None))
        return dict.__delitem__(self, k)

    def pop(self, k, *d):
        self.log.append(("del", k, None))
        return dict.pop(self, k, *d)


def sym_interfere(budget, warm, window=8):
    """Worker A = the real get_array('0', ('m1','m2')) on a context shared with worker B.  What B does to the SHARED
    plugin registry is not assumed but recorded from the real code (B's own get_array for another run on the same
    context, with a recording registry); the solver then decides before which of A's registry accesses B's next
    recorded mutation happens."""
    import strax

    runs = RUNS[:2]
    MemFrontend, _, _ = ctx.make_storage_classes()
    st = ctx.make_context(_plugins(runs), storage=[MemFrontend()])
    ref = ctx.make_context(_plugins(runs), storage=[MemFrontend()]).get_array("0", ("m1", "m2"), processor="single_thread")
    # ---- worker B's real call, recorded
    rec = RecDict(st._plugin_class_registry)
    st._plugin_class_registry = rec
    st.get_array("1", ("m1", "m2"), processor="single_thread")
    muts = list(rec.log)
    if not warm:
        st._fixed_plugin_cache = None
        st._fixed_level_cache = None
    st._plugin_class_registry = SpyDict(dict(rec))
    state = {"left": min(budget, len(muts)), "n": 0, "log": [], "last": None, "next": 0}

    def hook(d, op):
        if state["left"] <= 0:
            return
        state["n"] += 1
        n = state["n"]
        if state["last"] is not None and n - state["last"] > window:
            return  # further actions of the other worker only shortly after its previous one (bound)
        if not bool(fresh_bool(f"act{n}")):
            return
        state["left"] -= 1
        state["last"] = n
        kind, k, v = muts[state["next"]]
        state["next"] += 1
        if kind == "set":
            dict.__setitem__(d, k, v)
        elif dict.__contains__(d, k):
            dict.__delitem__(d, k)
        state["log"].append((n, op, f"B: {kind} {k}"))

    SpyDict.hook = hook
    exc = None
    try:
        try:
            got = st.get_array("0", ("m1", "m2"), processor="single_thread")
        except (KeyError, RuntimeError, ValueError) as e:
            exc = e
    finally:
        SpyDict.hook = None
    prove(exc is None, f"interfere:get_array crashed with {type(exc).__name__}: {str(exc)[:70]} after {state['log']}")
    prove([int(x) for x in got["id"]] == [int(x) for x in ref["id"]] and [int(x) for x in got["val"]] == [int(x) for x in ref["val"]],
          f"interfere:result differs from the sequential one after {state['log']}")
    return [len(muts), state["log"]]


def nat_interfere(params, model):
    label = core.concrete_run(lambda: sym_interfere(**params), model)  # no shims: native numba / numpy
    if label is None:
        return {"ok": True, "detail": "no disturbance"}
    return {"ok": False, "detail": label, "label": label}


# ---------------------------------------------------------------------------- shared plugin CACHE, two real workers
class SpyCache(SpyDict):
    """one generation of Context._fixed_plugin_cache[hash] (target -> plugin): every access is a switch point"""


def _spy_context(st):
    """The context's class gets a data descriptor for _fixed_plugin_cache: reading / replacing the attribute and every
    operation on the per-hash plugin dict call SpyDict.hook (a scheduler switch point)."""
    import strax

    def wrap(v):
        if v is None or isinstance(v, SpyCacheOuter):
            return v
        return SpyCacheOuter({k: (x if isinstance(x, SpyCache) else SpyCache(x)) for k, x in v.items()})

    class SpyCacheOuter(SpyDict):
        pass

    class SpyContext(strax.Context):
        def _get(self):
            if SpyDict.hook is not None:
                SpyDict.hook(None, "cache-attr-read")
            return self.__dict__.get("_spy_cache")

        def _set(self, v):
            if SpyDict.hook is not None:
                SpyDict.hook(None, "cache-attr-write")
            self.__dict__["_spy_cache"] = wrap(v)

        _fixed_plugin_cache = property(_get, _set)

    cur = st.__dict__.pop("_fixed_plugin_cache", None)
    st.__class__ = SpyContext
    st.__dict__["_spy_cache"] = wrap(cur)
    return st


def sym_cacherace(budget, warm, targets=("m1", "m2"), window=None, shard=None, first_op=None):
    """Two REAL workers (threads under the deterministic scheduler) call get_array for two runs on ONE context.  Every
    access to the shared plugin cache (attribute read / replace, per-hash dict operation, iteration step) is a switch
    point; the canonical schedule runs one worker after the other, up to `budget` solver-chosen switches deviate."""
    from symx import conc

    runs = RUNS[:2]
    MemFrontend, _, _ = ctx.make_storage_classes()
    tg = tuple(targets) if not isinstance(targets, str) else targets
    ref = {r: ctx.make_context(_plugins(runs), storage=[MemFrontend()]).get_array(r, tg, processor="single_thread") for r in runs}
    st = ctx.make_context(_plugins(runs), storage=[MemFrontend()])
    if warm:
        st.get_array("1", tg, processor="single_thread")
    _spy_context(st)
    state = {"left": budget, "k": 0, "used": [], "last": None, "op": None}

    def pol(s, r):
        work = [t for t in r if t.tid != 0]
        if not work:
            return r[0]
        canon = s.current if s.current in work else work[0]
        state["k"] += 1
        k = state["k"]
        if state["left"] <= 0 or len(work) < 2:
            return canon
        if shard is not None and state["left"] == budget and k % shard[1] != shard[0]:
            return canon  # this configuration explores the schedules whose FIRST switch is at a point = shard[0] mod shard[1]
        if first_op is not None and state["left"] == budget and state["op"] != first_op:
            return canon  # the first switch only where a worker is about to perform this kind of access
        if window is not None and state["left"] == 1 and budget > 1 and k - state["last"] > window:
            return canon  # the LAST switch only shortly after the one before (bound)
        if bool(fresh_bool(f"sw{k}")):
            state["left"] -= 1
            state["last"] = k
            other = [t for t in work if t is not canon][0]
            state["used"].append((k, other.name))
            return other
        return canon

    sched = conc.Sched(pol, max_steps=200000)
    out, exc = {}, {}
    import strax.context as sc
    import _thread

    # locks of the code under test become scheduler locks (a real lock held across a switch point would hang the run)
    stm = conc.SchedThreading(sched)
    saved = {n: v for n, v in vars(sc).items() if isinstance(v, (_thread.LockType, _thread.RLock))}

    class SchedMutex:
        """mutual exclusion under the cooperative scheduler: a waiter gives up the processor until the owner releases"""

        def __init__(self):
            self.owner, self.cv = None, stm.Condition()

        def acquire(self, *a, **k):
            me = sched.me()
            while self.owner is not None and self.owner is not me:
                self.cv.wait()
            self.owner = me
            return True

        def release(self):
            self.owner = None
            self.cv.notify_all()

        __enter__ = acquire

        def __exit__(self, *a):
            self.release()

    for n in saved:
        setattr(sc, n, SchedMutex())

    def worker(r):
        try:
            out[r] = st.get_array(r, tg, processor="single_thread")
        except (KeyError, RuntimeError, ValueError, AttributeError, TypeError) as e:
            exc[r] = e

    def hook(d, op):
        state["op"] = op
        sched.pause()

    SpyDict.hook = hook
    try:
        for r in runs:
            sched.start(sched.spawn(worker, name=f"run{r}", args=(r,)))
        sched.finish()
    finally:
        SpyDict.hook = None
        for n, v in saved.items():
            setattr(sc, n, v)
    for r in runs:
        e = exc.get(r)
        prove(e is None, f"cacherace:get_array of run {r} crashed with {type(e).__name__}: {str(e)[:70]} after switches {state['used']}")
        prove([int(x) for x in out[r]["id"]] == [int(x) for x in ref[r]["id"]] and
              [int(x) for x in out[r]["val"]] == [int(x) for x in ref[r]["val"]],
              f"cacherace:result of run {r} differs from the sequential one after switches {state['used']}")
    return [state["k"], state["used"]]


def nat_cacherace(params, model):
    label = core.concrete_run(lambda: sym_cacherace(**params), model)
    if label is None:
        return {"ok": True, "detail": "no disturbance"}
    return {"ok": False, "detail": label, "label": label}


def sym_twin():
    sym_multirun(2, 1, True)
    prove(False, "twin:reachable")


def _g_multi(tier):
    g = []
    for n in ((2, 3, 4) if tier == "quick" else (2, 3, 4, 5, 6)):
        for w in ((1, 2) if tier == "quick" else (1, 2, 3, 4)):
            if n >= 5 and w >= 3:
                continue
            for ig in (False, True):
                g.append(dict(nruns=n, workers=w, ignore_errors=ig))
    g.append(dict(nruns=3, workers=2, ignore_errors=True, targets=["m1", "m2"]))
    for n, w, ig in ((2, 1, False), (3, 2, False), (3, 1, True)):
        g.append(dict(nruns=n, workers=w, ignore_errors=ig, quiet=True))
    return g


MUTANTS = [
    dict(name="cached plugins iterated without a snapshot (original defect F-C15c)", file="strax/context.py", only="cacherace",
         old="        for target, plugin in cached_plugins.copy().items():", new="        for target, plugin in cached_plugins.items():"),
    dict(name="plugin cache created without the lock (original defect F-C15d)", file="strax/context.py", only="cacherace",
         old="        with _PLUGIN_CACHE_LOCK:\n            if self._fixed_plugin_cache is None:",
         new="        if True:\n            if self._fixed_plugin_cache is None:"),
    dict(name="results left in completion order", file="strax/utils.py", only="multirun",
         old="        final_result = [final_result[ind] for ind in stable_argsort(run_id_output)]", new="        pass"),
    dict(name="failed run silently dropped", file="strax/utils.py", only="multirun",
         old="                    if ignore_errors:\n                        log.warning(f\"Ran into {f.exception()}, ignoring that for now!\")",
         new="                    if True:\n                        log.warning(f\"Ran into {f.exception()}, ignoring that for now!\")"),
    dict(name="run_id attached from the submission order", file="strax/utils.py", only="multirun",
         old="                    ids = np.array([_run_id] * len(result), dtype=[(\"run_id\", run_id_numpy.dtype)])",
         new="                    ids = np.array([run_id_numpy[tasks_done - 1]] * len(result), dtype=[(\"run_id\", run_id_numpy.dtype)])"),
]

OBLIGATIONS = [
    Ob("multirun", sym_multirun, _g_multi, nat_multirun, setup=_setup, witnesses=1, max_paths=400000,
       doc="for every completion order and failure set: result == per-run results in run-id order with run_id attached; "
           "failures raise, or are omitted when errors are ignored"),
    Ob("interfere", sym_interfere, lambda tier: [dict(budget=b, warm=w) for b in ((1,) if tier == "quick" else (1, 2))
                                                 for w in (False, True)], nat_interfere, setup=_setup, witnesses=1,
       max_paths=400000),
    Ob("cacherace", sym_cacherace, lambda tier: [dict(budget=1, warm=False), dict(budget=1, warm=True)]
       + [dict(budget=2, warm=False, targets="m1", shard=[i, 24]) for i in range(24)]
       + [dict(budget=3, warm=False, targets="m1", first_op="cache-attr-write", window=8)]
       + ([dict(budget=2, warm=False, shard=[i, 48]) for i in range(48)] if tier == "thorough" else []),
       nat_cacherace, setup=_setup,
       witnesses=1, max_paths=400000,
       doc="two real get_array workers on one context, every interleaving with <= budget switches at accesses to the "
           "shared plugin cache"),
    Ob("twin", sym_twin, lambda tier: [dict()], None, setup=_setup, expect_cex=True),
]
