"""C16 — copying, rechunking, recompressing and per-chunk merging preserve the data.

Real Context.copy_to_frontend, rechunk-on-load (StorageBackend.loader(rechunk=True)), the stand-alone
file_rechunker.rechunker (serial mode) and merge_per_chunk_storage on symbolic stored layouts, over real DataDirectory
storage with the handle-file byte layer.  Compressor changes are only visible in the metadata (codecs are C code).
"""
import os
import shutil
import tempfile
import warnings

import numpy as np

from symx import core, arrays
from symx.core import fresh_int, fresh_bool, assume, prove, sand, sor, snot, implies, iff
from symx.run import Ob
from harness import common as H, ctx, C03

LEVEL = "model_checking"
FUNCTIONS = ["strax.context.Context.copy_to_frontend", "Context._get_target_sf", "Context.get_source_sf",
             "Context.merge_per_chunk_storage", "Context.__assign_chunk_number_to_plugin", "Context.key_for(chunk_number)",
             "strax.storage.common.StorageBackend.loader (rechunk=True)", "StorageBackend._read_format_split_chunk",
             "strax.storage.file_rechunker.rechunker/_exhaust_generator/_move_directories/_get_dest_and_tempdir",
             "Saver.save_from", "Rechunker", "FileSaver", "FileSytemBackend", "DataDirectory"]
BOUNDS = {
    "quick": "stored layouts of <=3 chunks / <=4 rows; copy with rechunk off / on (targets 1-2 rows) and a compressor "
             "change; rechunk on load with 1-2 row source size; stand-alone rechunker serial, to a new location and "
             "in place (replace), also with the progress bar off and with a destination that resolves to the source (same path, parent, symbolic link, non-normalised path); "
             "a failing write of a solver-chosen output chunk in serial and pool mode; per-chunk jobs = every chunk of "
             "the dependency, merged with rechunk on/off; solver-chosen grouping, subset and order of merged jobs",
    "thorough": "<=4 chunks / <=5 rows; groupings of dependency chunks into jobs",
}
ASSUMPTIONS = C03.ASSUMPTIONS + ["stand-alone rechunker in serial mode; pool mode only in failwrite, symbolically with an "
                                 "executor that completes real Futures at submission and the mailbox threads under the "
                                 "deterministic scheduler, natively with the real thread pool",
                                 "a compressor change is checked in the metadata only"]
OUTSIDE = ["compression codecs", "process mode of the stand-alone rechunker; timing of its thread pool", "strax.scripts.rechunker CLI parsing",
           "dry_load_files on real bytes"]
STUBS = C03.STUBS
RUN = "0"


def _setup():
    inj = ctx.setup()
    ctx.filestore_shims(inj)
    import strax.storage.file_rechunker as fr

    inj.inject(fr, print=lambda *a, **k: None)
    _quiet_tqdm(inj)
    return inj


def _quiet_tqdm(inj=None):
    """progress_bar=False makes strax.rechunker crash (a disabled tqdm has no start_t) - a side observation, not part of
    C16; the bar is kept on and sent to /dev/null."""
    import functools

    import strax.utils as su

    real = su.tqdm
    if isinstance(real, functools.partial):
        return
    quiet = functools.partial(real, file=open(os.devnull, "w"))
    if inj is not None:
        inj.inject(su, tqdm=quiet)
    else:
        su.tqdm = quiet


def _rows(chunks):
    return [(int(c.data["id"][q]), c.data["time"][q], c.data["endtime"][q]) for c in chunks for q in range(len(c.data))]


def _same(chunks, L, label, S, E):
    ctx.check_tiling(chunks, S, E, label)
    got = _rows(chunks)
    prove([g[0] for g in got] == [i for _, _, i in L.rows], f"{label}:rows lost/duplicated/reordered")
    for g, (t, e, i) in zip(got, L.rows):
        prove(sand(g[1] == t, g[2] == e), f"{label}:row times changed")


def _md_ok(md, chunks, label):
    prove("writing_ended" in md and "exception" not in md, f"{label}:metadata completion marker")
    prove(len(md["chunks"]) == len(chunks), f"{label}:metadata chunk count")
    for n, (ci, c) in enumerate(zip(md["chunks"], chunks)):
        prove(sand(ci["chunk_i"] == n, ci["n"] == len(c.data), ci["start"] == c.start, ci["end"] == c.end),
              f"{label}:metadata disagrees with the new files")


def _plugins(L, obj, tsm=None, rechunk_on_load=False, source_mb=None):
    import strax

    Src = C03.P_src(L, "end", obj, False, None)
    if rechunk_on_load:
        Src.rechunk_on_load = True
        Src.chunk_source_size_mb = source_mb
    M1 = ctx.P_map("m1", "src", obj, rechunk_on_save=False)
    return [Src, M1]


def _tsm(rows, obj):
    return C03._tsm(rows, C03._itemsize("end")[0 if obj else 1])


def run_copy(L, obj, rechunk, target, compressor, base, in_except=False):
    import strax

    a, b = os.path.join(base, "a"), os.path.join(base, "b")
    P = _plugins(L, obj)
    st = ctx.make_context(P, storage=[strax.DataDirectory(a), strax.DataDirectory(b)])
    st.storage[1].readonly = True
    st.make(RUN, "src", processor="single_thread")
    st.storage[1].readonly = False
    kw = dict(target_frontend_id=1, rechunk=rechunk)
    if rechunk:
        kw["rechunk_to_mb"] = _tsm(target, obj)
    if compressor:
        kw["target_compressor"] = compressor
    if in_except:
        # the usual idiom "try to load from the fast store, on DataNotAvailable copy it there": the copy runs while
        # an (unrelated, handled) exception is the interpreter's current exception
        try:
            raise strax.DataNotAvailable("not in the fast store yet")
        except strax.DataNotAvailable:
            st.copy_to_frontend(RUN, "src", **kw)
    else:
        st.copy_to_frontend(RUN, "src", **kw)
    st_b = ctx.make_context(P, storage=[strax.DataDirectory(b, readonly=True)], forbid_creation_of=("src",))
    st_a = ctx.make_context(P, storage=[strax.DataDirectory(a, readonly=True)], forbid_creation_of=("src",))
    out = {}
    for nm, s in (("dest", st_b), ("source", st_a)):
        out[nm] = (list(s.get_iter(RUN, "src", processor="single_thread", progress_bar=False)), s.get_metadata(RUN, "src"))
    return out


def sym_copy(layout, rechunk=False, target=1, compressor=None, in_except=False):
    S = fresh_int("S", 0, H.T_MAX); E = fresh_int("E", 0, H.T_MAX)
    L = ctx.sym_layout("src_", layout, S, E=E)
    base = tempfile.mkdtemp(prefix="verif_c16_")
    try:
        out = run_copy(L, True, rechunk, target, compressor, base, in_except)
        return _check_copy(out, L, S, E, rechunk, compressor)
    finally:
        shutil.rmtree(base, ignore_errors=True)


def _check_copy(out, L, S, E, rechunk, compressor):
    chunks, md = out["dest"]
    _same(chunks, L, "copy:dest", S, E)
    _md_ok(md, chunks, "copy:dest")
    if compressor:
        prove(md["compressor"] == compressor, "copy:compressor not recorded")
    if not rechunk:
        prove(len(chunks) == len(L.chunks), "copy:chunking changed without rechunk")
    src_chunks, src_md = out["source"]
    _same(src_chunks, L, "copy:source", S, E)
    prove(len(src_chunks) == len(L.chunks), "copy:source data was modified")
    return [len(c.data) for c in chunks]


def nat_copy(params, model):
    S, E = model["S"], model["E"]
    L = ctx.conc_layout(model, "src_", params["layout"], S, E=E)
    base = tempfile.mkdtemp(prefix="verif_c16n_")
    try:
        with warnings.catch_warnings():
            warnings.simplefilter("ignore")
            try:
                out = run_copy(L, False, params.get("rechunk", False), params.get("target", 1), params.get("compressor"),
                               base, params.get("in_except", False))
            except Exception as e:  # noqa
                return {"ok": False, "detail": f"copy / reading the copy raised {type(e).__name__}: {str(e)[:200]}",
                        "label": f"copy:raised {type(e).__name__}"}
        label = core.concrete_run(lambda: _check_copy(out, L, S, E, params.get("rechunk", False), params.get("compressor")), model)
        return {"ok": label is None, "detail": label or "copy preserves the data", "label": label}
    finally:
        shutil.rmtree(base, ignore_errors=True)


# ---------------------------------------------------------------------------- rechunk on load
def _iter(st, target, proc, workers, sched):
    kw = dict(progress_bar=False)
    if proc == "single":
        return list(st.get_iter(RUN, target, processor="single_thread", **kw))
    if not sched:
        # native replay: real threads, and a real thread pool for loading when workers > 1
        return list(st.get_iter(RUN, target, processor="threaded_mailbox", max_workers=workers, **kw))
    from symx import conc
    from harness import mbox

    # symbolic run: loader / plugin / consumer threads under the deterministic scheduler (a thread pool is real OS
    # threads outside the scheduler: workers > 1 is exercised by the native replay of the path witnesses only)
    with mbox.SchedRun(conc.POLICIES["rr"]) as s:
        try:
            return list(st.get_iter(RUN, target, processor="threaded_mailbox", **kw))
        finally:
            s.finish()


def run_onload(L, obj, source_rows, base, proc="single", workers=None):
    import strax

    a = os.path.join(base, "a")
    st = ctx.make_context(_plugins(L, obj), storage=[strax.DataDirectory(a)])
    st.make(RUN, "src", processor="single_thread")
    P2 = _plugins(L, obj, rechunk_on_load=True, source_mb=_tsm(source_rows, obj))
    st2 = ctx.make_context(P2, storage=[strax.DataDirectory(a, readonly=True)], forbid_creation_of=("src",), timeout=5)
    src_chunks = _iter(st2, "src", proc, workers, obj)
    m1c = _iter(st2, "m1", proc, workers, obj)
    m1 = np.concatenate([c.data for c in m1c]) if m1c else np.zeros(0, ctx.dt(ctx.VAL, obj))
    return src_chunks, m1


def sym_onload(layout, source_rows=1, proc="single", workers=None):
    S = fresh_int("S", 0, H.T_MAX); E = fresh_int("E", 0, H.T_MAX)
    L = ctx.sym_layout("src_", layout, S, E=E)
    base = tempfile.mkdtemp(prefix="verif_c16_")
    try:
        src_chunks, m1 = run_onload(L, True, source_rows, base, proc)
        return _check_onload(src_chunks, m1, L, S, E)
    finally:
        shutil.rmtree(base, ignore_errors=True)


def _check_onload(src_chunks, m1, L, S, E):
    _same(src_chunks, L, "onload", S, E)
    prove([int(x) for x in m1["id"]] == [i for _, _, i in L.rows], "onload:downstream rows differ")
    for q, (t, e, i) in enumerate(L.rows):
        prove(m1["val"][q] == e - t, "onload:downstream values differ")
    return [len(c.data) for c in src_chunks]


def nat_onload(params, model):
    S, E = model["S"], model["E"]
    L = ctx.conc_layout(model, "src_", params["layout"], S, E=E)
    base = tempfile.mkdtemp(prefix="verif_c16n_")
    try:
        with warnings.catch_warnings():
            warnings.simplefilter("ignore")
            try:
                src_chunks, m1 = run_onload(L, False, params.get("source_rows", 1), base, params.get("proc", "single"),
                                            params.get("workers"))
            except Exception as e:  # noqa
                return {"ok": False, "detail": f"rechunk on load raised {type(e).__name__}: {e}",
                        "label": f"onload:raised {type(e).__name__}"}
        label = core.concrete_run(lambda: _check_onload(src_chunks, m1, L, S, E), model)
        return {"ok": label is None, "detail": label or "rechunk on load preserves the data", "label": label}
    finally:
        shutil.rmtree(base, ignore_errors=True)


# ---------------------------------------------------------------------------- stand-alone rechunker
def run_standalone(L, obj, replace, target, compressor, base, pbar=True, dest="other"):
    import strax

    a, b = os.path.join(base, "a"), os.path.join(base, "b")
    P = _plugins(L, obj)
    st = ctx.make_context(P, storage=[strax.DataDirectory(a)])
    st.make(RUN, "src", processor="single_thread")
    src_dir = os.path.join(a, str(st.key_for(RUN, "src")))
    _quiet_tqdm()
    kw = dict(replace=replace, rechunk=True, target_size_mb=_tsm(target, obj), progress_bar=pbar, parallel=False)
    if compressor:
        kw["compressor"] = compressor
    if not replace:
        # dest="parent" / "self": the destination resolves to the source folder itself
        # dest="link" / "dotdot": the same through a symbolic link / a non-normalised path (seed C16-3)
        if dest == "link":
            os.symlink(a, os.path.join(base, "lnk"))
        kw["dest_directory"] = {"other": b, "parent": a, "self": src_dir, "link": os.path.join(base, "lnk"),
                                "dotdot": os.path.join(base, "b", "..", "a")}[dest]
    refused = False
    try:
        summary = strax.rechunker(src_dir, **kw)
    except ValueError:
        if dest == "other":
            raise
        refused = True  # an explicit refusal is fine as long as the source is intact
    where = a if (replace or dest != "other") else b
    st2 = ctx.make_context(P, storage=[strax.DataDirectory(where, readonly=True)], forbid_creation_of=("src",))
    chunks = list(st2.get_iter(RUN, "src", processor="single_thread", progress_bar=False))
    md = st2.get_metadata(RUN, "src")
    src_after = None
    if not replace:
        st3 = ctx.make_context(P, storage=[strax.DataDirectory(a, readonly=True)], forbid_creation_of=("src",))
        src_after = list(st3.get_iter(RUN, "src", processor="single_thread", progress_bar=False))
    return chunks, md, src_after


def sym_standalone(layout, replace=False, target=2, compressor=None, pbar=True, dest="other"):
    S = fresh_int("S", 0, H.T_MAX); E = fresh_int("E", 0, H.T_MAX)
    L = ctx.sym_layout("src_", layout, S, E=E)
    base = tempfile.mkdtemp(prefix="verif_c16_")
    try:
        chunks, md, src_after = run_standalone(L, True, replace, target, compressor, base, pbar, dest)
        return _check_standalone(chunks, md, src_after, L, S, E, compressor)
    finally:
        shutil.rmtree(base, ignore_errors=True)


def _check_standalone(chunks, md, src_after, L, S, E, compressor):
    _same(chunks, L, "rechunker", S, E)
    _md_ok(md, chunks, "rechunker")
    if compressor:
        prove(md["compressor"] == compressor, "rechunker:compressor not recorded")
    if src_after is not None:
        _same(src_after, L, "rechunker:source", S, E)
        prove(len(src_after) == len(L.chunks), "rechunker:source data modified although replace=False")
    return [len(c.data) for c in chunks]


def nat_standalone(params, model):
    S, E = model["S"], model["E"]
    L = ctx.conc_layout(model, "src_", params["layout"], S, E=E)
    base = tempfile.mkdtemp(prefix="verif_c16n_")
    try:
        with warnings.catch_warnings():
            warnings.simplefilter("ignore")
            chunks, md, src_after = run_standalone(L, False, params.get("replace", False), params.get("target", 2),
                                                   params.get("compressor"), base, params.get("pbar", True),
                                                   params.get("dest", "other"))
        label = core.concrete_run(lambda: _check_standalone(chunks, md, src_after, L, S, E, params.get("compressor")), model)
        return {"ok": label is None, "detail": label or "stand-alone rechunker preserves the data", "label": label}
    finally:
        shutil.rmtree(base, ignore_errors=True)


# ---------------------------------------------------------------------------- per-chunk jobs + merge
def run_perchunk(L, obj, rechunk, base):
    import strax

    a = os.path.join(base, "a")
    P = _plugins(L, obj)
    st = ctx.make_context(P, storage=[strax.DataDirectory(a)])
    st.make(RUN, "src", processor="single_thread")
    n = len(L.chunks)
    for i in range(n):
        st.make(RUN, "m1", chunk_number={"src": [i]}, processor="single_thread")
    st.merge_per_chunk_storage(RUN, "m1", "src", rechunk=rechunk, rechunk_to_mb=_tsm(2, obj) if rechunk else 200)
    st2 = ctx.make_context(P, storage=[strax.DataDirectory(a, readonly=True)], forbid_creation_of=("m1", "src"))
    chunks = list(st2.get_iter(RUN, "m1", processor="single_thread", progress_bar=False))
    md = st2.get_metadata(RUN, "m1")
    return chunks, md


def sym_perchunk(layout, rechunk=False):
    S = fresh_int("S", 0, H.T_MAX); E = fresh_int("E", 0, H.T_MAX)
    L = ctx.sym_layout("src_", layout, S, E=E)
    base = tempfile.mkdtemp(prefix="verif_c16_")
    try:
        chunks, md = run_perchunk(L, True, rechunk, base)
        return _check_perchunk(chunks, md, L, S, E)
    finally:
        shutil.rmtree(base, ignore_errors=True)


def _check_perchunk(chunks, md, L, S, E):
    _same(chunks, L, "perchunk", S, E)
    vals = [c.data["val"][q] for c in chunks for q in range(len(c.data))]
    for v, (t, e, i) in zip(vals, L.rows):
        prove(v == e - t, "perchunk:merged values differ from the directly made data")
    _md_ok(md, chunks, "perchunk")
    return [len(c.data) for c in chunks]


def nat_perchunk(params, model):
    S, E = model["S"], model["E"]
    L = ctx.conc_layout(model, "src_", params["layout"], S, E=E)
    base = tempfile.mkdtemp(prefix="verif_c16n_")
    try:
        with warnings.catch_warnings():
            warnings.simplefilter("ignore")
            chunks, md = run_perchunk(L, False, params.get("rechunk", False), base)
        label = core.concrete_run(lambda: _check_perchunk(chunks, md, L, S, E), model)
        return {"ok": label is None, "detail": label or "per-chunk + merge equals directly made data", "label": label}
    finally:
        shutil.rmtree(base, ignore_errors=True)


# ---------------------------------------------------------------------------- a chunk write fails during rechunking
class _EagerPool:
    """executor whose futures are real concurrent.futures.Future objects completed at submission (symbolic runs: the
    pool's timing is outside, the error path is what counts)"""

    def __init__(self, *a, **k):
        pass

    def submit(self, fn, *a, **k):
        from concurrent.futures import Future

        f = Future()
        try:
            f.set_result(fn(*a, **k))
        except Exception as e:  # noqa
            f.set_exception(e)
        return f

    def shutdown(self, wait=True):
        pass


def run_failwrite(L, obj, fail_at, parallel, base):
    """strax.rechunker(replace=True) while the write of output chunk number `fail_at` fails (disk full, codec limit):
    whatever the mode, the call must raise and the source must stay what it was."""
    import strax
    import strax.storage.file_rechunker as fr
    from symx import conc
    from harness import mbox

    a = os.path.join(base, "a")
    P = _plugins(L, obj)
    st = ctx.make_context(P, storage=[strax.DataDirectory(a)])
    st.make(RUN, "src", processor="single_thread")
    src_dir = os.path.join(a, str(st.key_for(RUN, "src")))
    _quiet_tqdm()
    real_save, n = strax.save_file, [0]

    def failing_save(*a_, **k_):
        n[0] += 1
        if n[0] - 1 == fail_at:
            raise OSError("No space left on device (injected)")
        return real_save(*a_, **k_)

    real_exec = fr._get_executor
    strax.save_file = failing_save
    raised = None
    try:
        kw = dict(replace=True, rechunk=False, progress_bar=True, parallel=parallel, _timeout=5)
        try:
            if parallel and obj:
                fr._get_executor = lambda p, w: _EagerPool()
                with mbox.SchedRun(conc.POLICIES["rr"]) as s:
                    try:
                        strax.rechunker(src_dir, **kw)
                    finally:
                        s.finish()
            else:
                strax.rechunker(src_dir, **kw)
        except Exception as e:  # noqa
            raised = e
    finally:
        strax.save_file = real_save
        fr._get_executor = real_exec
    st2 = ctx.make_context(P, storage=[strax.DataDirectory(a, readonly=True)], forbid_creation_of=("src",))
    try:
        chunks = list(st2.get_iter(RUN, "src", processor="single_thread", progress_bar=False))
    except strax.DataNotAvailable:
        chunks = None
    return raised, chunks


def _check_failwrite(raised, chunks, L, S, E, tag):
    prove(chunks is not None, f"failwrite:{tag}: the data rechunked in place is gone after a failed chunk write "
                              f"(rechunker {'raised ' + type(raised).__name__ if raised else 'returned normally'})")
    _same(chunks, L, "failwrite", S, E)
    prove(raised is not None, f"failwrite:{tag}: a chunk write failed but rechunker returned normally")
    return type(raised).__name__


def sym_failwrite(layout, parallel=False):
    S = fresh_int("S", 0, H.T_MAX); E = fresh_int("E", 0, H.T_MAX)
    L = ctx.sym_layout("src_", layout, S, E=E)
    fail_at = core.concretize(fresh_int("fail_at", 0, len(layout) - 1))
    base = tempfile.mkdtemp(prefix="verif_c16_")
    try:
        raised, chunks = run_failwrite(L, True, fail_at, parallel, base)
        return _check_failwrite(raised, chunks, L, S, E, f"parallel={parallel}")
    finally:
        shutil.rmtree(base, ignore_errors=True)


def nat_failwrite(params, model):
    S, E = model["S"], model["E"]
    L = ctx.conc_layout(model, "src_", params["layout"], S, E=E)
    base = tempfile.mkdtemp(prefix="verif_c16n_")
    try:
        with warnings.catch_warnings():
            warnings.simplefilter("ignore")
            raised, chunks = run_failwrite(L, False, model.get("fail_at", 0) or 0, params.get("parallel", False), base)
        label = core.concrete_run(lambda: _check_failwrite(raised, chunks, L, S, E, f"parallel={params.get('parallel', False)}"), model)
        return {"ok": label is None, "detail": label or f"raised {type(raised).__name__}, source intact", "label": label}
    finally:
        shutil.rmtree(base, ignore_errors=True)


# ---------------------------------------------------------------------------- explicit job groupings, partial merges
def run_groups(L, obj, base, cuts, mask, rev=False):
    """Jobs = consecutive groups of dependency chunks (cut after chunk i iff cuts[i]); m1 is made per job; then the jobs
    selected by `mask` are merged with an explicit chunk_number_group."""
    import strax

    a = os.path.join(base, "a")
    P = _plugins(L, obj)
    st = ctx.make_context(P, storage=[strax.DataDirectory(a)])
    st.make(RUN, "src", processor="single_thread")
    n = len(L.chunks)
    jobs, cur = [], []
    for i in range(n):
        cur.append(i)
        if i == n - 1 or cuts[i]:
            jobs.append(cur)
            cur = []
    for job in jobs:
        st.make(RUN, "m1", chunk_number={"src": job}, processor="single_thread")
    chosen = [job for job, m in zip(jobs, mask) if m]
    if rev:
        chosen = chosen[::-1]  # the list of groups is given in another order than that of time
    try:
        st.merge_per_chunk_storage(RUN, "m1", "src", chunk_number_group=chosen, rechunk=False)
    except ValueError:
        return jobs, chosen, "rejected", None
    st2 = ctx.make_context(P, storage=[strax.DataDirectory(a, readonly=True)], forbid_creation_of=("m1", "src"))
    complete = st2.is_stored(RUN, "m1")
    chunks = list(st2.get_iter(RUN, "m1", processor="single_thread", progress_bar=False)) if complete else None
    return jobs, chosen, complete, chunks


def _groups_choice(n, pick):
    cuts = [bool(pick(f"cut{i}")) for i in range(n - 1)]
    njobs = 1 + sum(cuts)
    mask = [bool(pick(f"take{j}")) for j in range(njobs)]
    return cuts, mask


def _check_groups(jobs, chosen, complete, chunks, L, S, E):
    covered = sorted(i for job in chosen for i in job)
    is_all = covered == list(range(len(L.chunks)))
    if complete == "rejected":
        # a partial merge that skips chunks in the middle has no valid key: refusing it is fine, storing it is not
        consecutive = covered == list(range(covered[0], covered[0] + len(covered)))
        prove(not consecutive, f"groups:merging jobs {chosen} of {jobs} was refused with ValueError")
        return [jobs, chosen, "rejected"]
    prove(complete == is_all, f"groups:merging jobs {chosen} of {jobs} -> stored as the complete data type = {complete}")
    if complete:
        _same(chunks, L, "groups", S, E)
    return [jobs, chosen]


def sym_groups(layout):
    S = fresh_int("S", 0, H.T_MAX); E = fresh_int("E", 0, H.T_MAX)
    L = ctx.sym_layout("src_", layout, S, E=E)
    cuts, mask = _groups_choice(len(layout), lambda nm: fresh_bool(nm))
    rev = bool(fresh_bool("rev"))
    if not any(mask):
        raise core.PathAbort("nothing to merge")
    if sum(mask) == 1 and len(mask) > 1:
        # merging ONE job that is not the whole run targets that job's own storage key (DataExistsError): degenerate
        raise core.PathAbort("single partial job")
    base = tempfile.mkdtemp(prefix="verif_c16_")
    try:
        jobs, chosen, complete, chunks = run_groups(L, True, base, cuts, mask, rev)
        return _check_groups(jobs, chosen, complete, chunks, L, S, E)
    finally:
        shutil.rmtree(base, ignore_errors=True)


def nat_groups(params, model):
    S, E = model["S"], model["E"]
    L = ctx.conc_layout(model, "src_", params["layout"], S, E=E)
    cuts, mask = _groups_choice(len(params["layout"]), lambda nm: model.get(nm, False))
    base = tempfile.mkdtemp(prefix="verif_c16n_")
    try:
        with warnings.catch_warnings():
            warnings.simplefilter("ignore")
            jobs, chosen, complete, chunks = run_groups(L, False, base, cuts, mask, bool(model.get("rev", False)))
        label = core.concrete_run(lambda: _check_groups(jobs, chosen, complete, chunks, L, S, E), model)
        return {"ok": label is None, "detail": label or "partial merges stay partial, complete ones equal the data", "label": label}
    finally:
        shutil.rmtree(base, ignore_errors=True)


def sym_twin():
    sym_copy([1, 1])
    prove(False, "twin:reachable")


def _lays(tier):
    return [[1], [1, 1], [2, 1], [1, 2], [0, 2], [1, 1, 1]] if tier == "quick" else \
        [[1], [2], [1, 1], [2, 1], [1, 2], [0, 2], [2, 0], [1, 1, 1], [2, 1, 1], [2, 2], [1, 1, 1, 1]]


MUTANTS = [
    dict(name="rechunker moves the copy although a write failed (original defect F-C16d)", file="strax/storage/file_rechunker.py",
         only="failwrite", old="    if saver.got_exception is not None:", new="    if False:"),
    dict(name="rechunker accepts its own source as destination (original defect F-C16e)", file="strax/storage/file_rechunker.py",
         only="standalone", old="    if os.path.realpath(dest_directory) == os.path.realpath(source_directory):", new="    if False:"),
    dict(name="destination-is-source guard compares abspath, not realpath (seed C16-3: symbolic link)", file="strax/storage/file_rechunker.py",
         only="standalone", old="    if os.path.realpath(dest_directory) == os.path.realpath(source_directory):",
         new="    if os.path.abspath(dest_directory) == os.path.abspath(source_directory):"),
    dict(name="disabled progress bar used (original defect F-C16f)", file="strax/storage/file_rechunker.py",
         only="standalone", old="                if not pbar.disable:", new="                if True:"),
    dict(name="per-chunk groups merged in the order listed (original defect F-C16g)", file="strax/context.py",
         only="groups", old="            chunk_number_group = sorted(chunk_number_group)\n", new=""),
    dict(name="original F-C16: rechunk on load reads .data of the pool's Future", file="strax/storage/common.py",
         old="            if executor is not None:\n                # We have to look at the data to split it\n                chunk = chunk.result()\n",
         new=""),
    dict(name="saver keeps the chunk list of the metadata it was given (copy doubles the chunk list)",
         file="strax/storage/common.py", old='        self.md["chunks"] = []', new='        self.md.setdefault("chunks", [])'),
    dict(name="rechunk on load cuts 500 ns late", file="strax/storage/common.py",
         old='                    t=chunk.data["time"][index] - int(strax.DEFAULT_CHUNK_SPLIT_NS // 2),',
         new='                    t=chunk.data["time"][index] + int(strax.DEFAULT_CHUNK_SPLIT_NS // 2),'),
    dict(name="stand-alone rechunker deletes the source without replace", file="strax/storage/file_rechunker.py",
         old="    if replace:\n        print(f\"move {dest_directory} to {source_directory}\")", new="    if True:\n        print(f\"move {dest_directory} to {source_directory}\")"),
]

OBLIGATIONS = [
    Ob("copy", sym_copy, lambda tier: [dict(layout=l) for l in _lays(tier)] +
       [dict(layout=l, rechunk=True, target=t) for l in _lays(tier) if sum(l) >= 2 for t in (1, 2)] +
       [dict(layout=[2, 1], compressor="zstd"), dict(layout=[1, 1, 1], rechunk=True, target=2, compressor="lz4"),
        dict(layout=[1, 1], in_except=True), dict(layout=[2, 1], rechunk=True, target=1, in_except=True)],
       nat_copy, setup=_setup, witnesses=1),
    # get_splits only cuts a stored chunk of >= source_rows + 2 rows: the [3] / [1, 3] / [4] layouts are the ones
    # where rechunk-on-load really splits
    Ob("onload", sym_onload, lambda tier: [dict(layout=l, source_rows=r) for l in _lays(tier) +
                                           ([[3], [1, 3]] if tier == "quick" else [[3], [1, 3], [4], [3, 2]]) for r in (1, 2)] +
       [dict(layout=[3], source_rows=1, proc="threaded"), dict(layout=[1, 3], source_rows=1, proc="threaded", workers=2),
        dict(layout=[2, 1], source_rows=2, proc="threaded", workers=2)],
       nat_onload, setup=_setup, witnesses=1),
    Ob("standalone", sym_standalone, lambda tier: [dict(layout=l, replace=rp, target=t) for l in _lays(tier)
                                                   for rp in (False, True) for t in (1, 2)] +
       [dict(layout=[2, 1], compressor="zstd", target=3), dict(layout=[2, 1], target=2, pbar=False),
        dict(layout=[1, 1], target=2, replace=True, pbar=False), dict(layout=[2, 1], target=2, dest="parent"),
        dict(layout=[1, 1], target=1, dest="self"), dict(layout=[2, 1], target=2, dest="link"),
        dict(layout=[1, 1], target=2, dest="dotdot")], nat_standalone, setup=_setup, witnesses=1),
    Ob("failwrite", sym_failwrite, lambda tier: [dict(layout=l, parallel=p) for l in ([1, 1], [2, 1]) for p in (False, "thread")],
       nat_failwrite, setup=_setup, witnesses=1,
       doc="a failing chunk write (solver-chosen chunk) during rechunker(replace=True): raises, source intact"),
    Ob("groups", sym_groups, lambda tier: [dict(layout=l) for l in ([[1, 1, 1]] if tier == "quick" else [[1, 1, 1], [1, 1, 1, 1], [2, 0, 1]])],
       nat_groups, setup=_setup, witnesses=1,
       doc="solver-chosen grouping of dependency chunks into jobs and solver-chosen subset of jobs merged: stored as the "
           "complete data type iff the subset covers every chunk, and then equal to the directly made data"),
    Ob("perchunk", sym_perchunk, lambda tier: [dict(layout=l, rechunk=r) for l in _lays(tier) for r in (False, True)],
       nat_perchunk, setup=_setup, witnesses=1),
    Ob("twin", sym_twin, lambda tier: [dict()], None, setup=_setup, expect_cex=True),
]
