"""C17 — interval primitives agree with their set-theoretic (quadratic) definitions.

The Python source of strax's njit kernels is executed on symbolic interval arrays (times on all of
Z within [0, 2^62)); every obligation is a z3 `unsat` verdict per explored path.
"""
import os
import warnings

import numpy as np

from symx import core, arrays
from symx.core import fresh_int, assume, prove, sand, sor, ite, implies, iff, snot
from symx.run import Ob
from harness import common as H

LEVEL = "model_checking"
FUNCTIONS = [
    "strax.processing.general._fc_in", "_fully_contained_in", "fully_contained_in",
    "_fully_contained_in_sanity", "split_by_containment", "_split_by_containment", "_split",
    "_get_empty_container_ids", "overlap_indices", "touching_windows", "_touching_windows",
    "split_touching_windows", "_split_by_window", "diff", "_find_break_i", "from_break",
    "abs_time_to_prev_next_interval", "_abs_time_to_prev_next", "sort_by_time",
    "_sort_by_time_and_channel", "strax.sort_enforcement.stable_argsort", "stable_sort",
    "_check_time_is_sorted", "_check_objects_non_negative_length",
    "_check_objects_are_not_overlapping", "endtime",
]
BOUNDS = {
    "quick": "things<=4 x containers<=3 (containment, split), things<=3 x containers<=2 (windows), "
             "rows<=4 (diff/break/sort), window symbolic in [-2,3] and unconstrained; all times in [0,2^62); "
             "encodings endtime-field and time+length*dt with dt in {2}; sort_key: 3 rows, time range symbolic up to "
             "2^63 - 2, channel count symbolic up to 32768; sort_edge: 7 pinned channel / tie configurations with a "
             "symbolic common time offset",
    "thorough": "things<=5 x containers<=4 (containment), things<=4 x containers<=3 (windows), rows<=5, "
                "dt in {1,2,10}",
}
ASSUMPTIONS = [
    "all int64 time values in [0, 2^62): numpy wrap-around is not modelled (inputs assumed in range)",
    "time+length*dt encoding: length * dt <= 2^31 - 1 (strax.endtime multiplies int32 by int16 in int32; the region "
    "beyond is decided natively by the `endtime` obligation, see known finding F-C17)",
    "documented preconditions only: sorted start times; non-overlapping containers for containment; "
    "positive lengths for containment / time-to-neighbour (zero-length intervals excluded, as in the "
    "repo's own hypothesis strategies)",
    "NUMBA_DISABLE_JIT=1: the njit functions run as their own Python source; compiled-vs-interpreted "
    "agreement is validated on witness inputs replayed on the compiled functions",
    "np.argsort(kind='mergesort') on object arrays is numpy's own stable merge sort driven by proxy comparisons",
]
OUTSIDE = [
    "arrays larger than the stated size bound",
    "python -O for functions other than fully_contained_in (same three check helpers)",
    "int64 overflow",
]
STUBS = ["np (array constructors -> object arrays)", "min/max (ite-merging)", "int (keeps proxies)",
         "warnings suppressed"]


def _setup():
    warnings.simplefilter("ignore")
    inj = H.setup_strax()
    import strax.processing.general as g

    warnings.simplefilter("ignore")
    return inj


def _contained(t, e, ct, ce):
    return sand(ct <= t, e <= ce)


# ---------------------------------------------------------------------------- containment
def sym_contain(nt, nc, enc):
    import strax

    enc = H.norm_enc(enc)
    things, tt, te = H.make_intervals(enc, "a", nt)
    conts, ct, ce = H.make_intervals(enc, "c", nc, disjoint=True)
    res = strax.fully_contained_in(things, conts)
    assert len(res) == nt
    out = []
    for i in range(nt):
        j = res[i]
        j = int(j)
        out.append(j)
        if j >= 0:
            prove(_contained(tt[i], te[i], ct[j], ce[j]), f"contain:res[{i}]={j} not a container of thing")
            for k in range(j):
                prove(snot(_contained(tt[i], te[i], ct[k], ce[k])), f"contain:res[{i}] not the first container")
        else:
            for k in range(nc):
                prove(snot(_contained(tt[i], te[i], ct[k], ce[k])), f"contain:res[{i}]=-1 but contained in {k}")
    return out


def _naive_contain(things, conts):
    te, ce = H.endtimes(things), H.endtimes(conts)
    out = []
    for i in range(len(things)):
        r = -1
        for j in range(len(conts)):
            if conts["time"][j] <= things["time"][i] and te[i] <= ce[j]:
                r = j
                break
        out.append(r)
    return out


def nat_contain(params, model):
    import strax

    enc = H.norm_enc(params["enc"])
    things = H.conc_intervals(enc, model, "a", params["nt"])
    conts = H.conc_intervals(enc, model, "c", params["nc"])
    with warnings.catch_warnings():
        warnings.simplefilter("ignore")
        got = [int(x) for x in strax.fully_contained_in(things, conts)]
    want = _naive_contain(things, conts)
    return {"ok": got == want, "detail": f"got {got} want {want} things={things.tolist()} conts={conts.tolist()}"}


def sym_contain_reject(nt, nc, which, opt=False):
    """Unsorted things / containers => ValueError, exactly then.  opt=True: the native replay of the path witnesses runs
    in an interpreter started with -O (assert statements are compiled away there)."""
    import strax

    tt, te = H.sym_times("a", nt, sorted_=(which != "things"))
    ct, ce = H.sym_times("c", nc, sorted_=(which != "conts"))
    things, conts = H.arr_end(tt, te), H.arr_end(ct, ce)
    lst = tt if which == "things" else ct
    unsorted = sor(*[lst[i + 1] < lst[i] for i in range(len(lst) - 1)])
    if opt:
        assume(unsorted)  # every path witness is an input that has to be refused
    raised, _ = H.expect_raises(ValueError, strax.fully_contained_in, things, conts)
    prove(iff(unsorted, raised) if core.is_sym(unsorted) else unsorted == raised,
          f"contain_reject:{which} raised={raised}")
    return raised


_OPT_SCRIPT = r"""
import json, sys, warnings
import numpy as np
import strax
d = json.loads(sys.argv[1])
def arr(rows):
    a = np.zeros(len(rows), dtype=[("time", np.int64), ("endtime", np.int64), ("id", np.int64)])
    for i, (t, e) in enumerate(rows):
        a["time"][i], a["endtime"][i], a["id"][i] = t, e, i
    return a
warnings.simplefilter("ignore")
assert not __debug__ or d.get("debug")
try:
    res = strax.fully_contained_in(arr(d["things"]), arr(d["conts"]))
    print(json.dumps({"raised": False, "res": [int(x) for x in res]}))
except ValueError as e:
    print(json.dumps({"raised": True}))
"""


def nat_contain_reject(params, model):
    import strax

    if params.get("opt"):
        import json
        import shutil
        import subprocess
        import sys
        import tempfile

        things = H.conc_end(model, "a", params["nt"])
        conts = H.conc_end(model, "c", params["nc"])
        lst = things["time"] if params["which"] == "things" else conts["time"]
        unsorted = bool(np.any(np.diff(lst) < 0))
        cache = tempfile.mkdtemp(prefix="verif_nbO_")
        try:
            d = dict(things=[[int(x["time"]), int(x["endtime"])] for x in things],
                     conts=[[int(x["time"]), int(x["endtime"])] for x in conts])
            env = dict(os.environ, NUMBA_CACHE_DIR=cache)
            env.pop("NUMBA_DISABLE_JIT", None)
            env.pop("PYTHONOPTIMIZE", None)
            p = subprocess.run([sys.executable, "-O", "-c", _OPT_SCRIPT, json.dumps(d)], capture_output=True, text=True,
                               env=env, timeout=600)
            if p.returncode != 0:
                return {"ok": None, "detail": "python -O run failed: " + p.stderr[-300:]}
            out = json.loads(p.stdout.strip().splitlines()[-1])
        finally:
            shutil.rmtree(cache, ignore_errors=True)
        return {"ok": out["raised"] == unsorted, "label": "contain_reject:python -O: unsorted input answered instead of rejected",
                "detail": f"python -O: unsorted={unsorted} raised={out['raised']} answer={out.get('res')} for {d}"}
    things = H.conc_end(model, "a", params["nt"])
    conts = H.conc_end(model, "c", params["nc"])
    lst = things["time"] if params["which"] == "things" else conts["time"]
    unsorted = bool(np.any(np.diff(lst) < 0))
    with warnings.catch_warnings():
        warnings.simplefilter("ignore")
        raised, _ = H.expect_raises(ValueError, strax.fully_contained_in, things, conts)
    return {"ok": raised == unsorted, "detail": f"unsorted={unsorted} raised={raised}"}


# ---------------------------------------------------------------------------- split_by_containment
def sym_split_contain(nt, nc, enc):
    import strax

    enc = H.norm_enc(enc)
    things, tt, te = H.make_intervals(enc, "a", nt)
    conts, ct, ce = H.make_intervals(enc, "c", nc, disjoint=True)
    res = strax.split_by_containment(things, conts)
    prove(len(res) == nc, "split_contain:wrong number of groups")
    out = []
    for j in range(nc):
        ids = [int(x) for x in res[j]["id"]]
        out.append(ids)
        prove(ids == sorted(ids) and len(set(ids)) == len(ids), "split_contain:order/duplicates")
        for i in range(nt):
            first = sand(_contained(tt[i], te[i], ct[j], ce[j]),
                         *[snot(_contained(tt[i], te[i], ct[k], ce[k])) for k in range(j)])
            if i in ids:
                prove(first, f"split_contain:thing {i} in group {j} but not (first) contained")
            else:
                prove(snot(first), f"split_contain:thing {i} missing from group {j}")
    return out


def nat_split_contain(params, model):
    import strax

    enc = H.norm_enc(params["enc"])
    things = H.conc_intervals(enc, model, "a", params["nt"])
    conts = H.conc_intervals(enc, model, "c", params["nc"])
    with warnings.catch_warnings():
        warnings.simplefilter("ignore")
        got = [[int(x) for x in g["id"]] for g in strax.split_by_containment(things, conts)]
    nv = _naive_contain(things, conts)
    want = [[i for i in range(len(things)) if nv[i] == j] for j in range(len(conts))]
    return {"ok": got == want, "detail": f"got {got} want {want}"}


# ---------------------------------------------------------------------------- overlap_indices
def sym_overlap():
    import strax

    a1 = fresh_int("a1", -T, T)
    b1 = fresh_int("b1", -T, T)
    na = fresh_int("na", -2, T)
    nb = fresh_int("nb", -2, T)
    k = fresh_int("k")  # Skolem constant: proving for arbitrary k is proving for all k
    raised, r = H.expect_raises(ValueError, strax.overlap_indices, a1, na, b1, nb)
    prove(iff(sor(na < 0, nb < 0), raised), "overlap:raise iff negative length")
    if raised:
        return "raised"
    (as_, ae), (bs, be) = r
    in_a = sand(0 <= k, k < na, b1 <= a1 + k, a1 + k < b1 + nb)  # index k of a lies in b
    in_b = sand(0 <= k, k < nb, a1 <= b1 + k, b1 + k < a1 + na)
    prove(iff(sand(as_ <= k, k < ae), in_a), "overlap:a-range is not the index set of the intersection")
    prove(iff(sand(bs <= k, k < be), in_b), "overlap:b-range is not the index set of the intersection")
    prove(ae - as_ == be - bs, "overlap:ranges differ in length")
    prove(implies(ae - as_ == 0, sand(as_ == 0, ae == 0, bs == 0, be == 0)), "overlap:empty not normalised")
    return "ok"


T = 2**40


def nat_overlap(params, model):
    import strax

    a1, b1, na, nb = (model[k] for k in ("a1", "b1", "na", "nb"))
    # keep the brute-force oracle small: shift/clip preserves the relative geometry only if small
    if max(abs(na), abs(nb)) > 10**5:
        # analytic oracle
        lo, hi = max(a1, b1), min(a1 + na, b1 + nb)
        want = ((0, 0), (0, 0)) if (na <= 0 or nb <= 0 or lo >= hi) else ((lo - a1, hi - a1), (lo - b1, hi - b1))
    else:
        sa = [i for i in range(max(na, 0)) if b1 <= a1 + i < b1 + nb]
        sb = [i for i in range(max(nb, 0)) if a1 <= b1 + i < a1 + na]
        want = ((sa[0], sa[-1] + 1), (sb[0], sb[-1] + 1)) if sa else ((0, 0), (0, 0))
    raised, r = H.expect_raises(ValueError, strax.overlap_indices, a1, na, b1, nb)
    if na < 0 or nb < 0:
        return {"ok": raised, "detail": f"negative length raised={raised}"}
    got = tuple(tuple(int(x) for x in p) for p in r) if not raised else None
    return {"ok": got == want, "detail": f"got {got} want {want}"}


# ---------------------------------------------------------------------------- touching windows
def sym_touching(nt, nc, enc, wmode, ends_sorted):
    import strax

    enc = H.norm_enc(enc)
    things, tt, te = H.make_intervals(enc, "a", nt, allow_zero=True)
    conts, ct, ce = H.make_intervals(enc, "c", nc, allow_zero=True)
    if ends_sorted:
        for i in range(nt - 1):
            assume(te[i + 1] >= te[i])
    w = fresh_int("w", -2, 3) if wmode == "small" else fresh_int("w", -H.T_MAX, H.T_MAX)
    res = strax.touching_windows(things, conts, window=w)
    prove(len(res) == nc, "touching:wrong length")
    out = []
    for j in range(nc):
        l, r = int(res[j][0]), int(res[j][1])
        out.append((l, r))
        # definitions independent of end-sortedness: l = first thing ending inside/after the window start,
        # r = number of things starting before the window end
        for k in range(nt):
            if k < l:
                prove(te[k] <= ct[j] - w, f"touching:left index {l} skips a thing reaching the window")
            if k == l:
                prove(te[k] > ct[j] - w, f"touching:left index {l} is not the first thing reaching the window")
            if k < r:
                prove(tt[k] < ce[j] + w, f"touching:right index {r} includes a thing starting after the window")
            if k == r:
                prove(tt[k] >= ce[j] + w, f"touching:right index {r} stops early")
        prove(0 <= l <= nt and 0 <= r <= nt, "touching:index out of range")
        if ends_sorted:
            for k in range(nt):
                touches = sand(te[k] > ct[j] - w, tt[k] < ce[j] + w)
                inside = l <= k < r
                prove(touches if inside else snot(touches), f"touching:[{l},{r}) is not the touching set (k={k})")
    # split_touching_windows returns exactly those slices
    sp = strax.split_touching_windows(things, conts, window=w)
    for j in range(nc):
        l, r = out[j]
        prove([int(x) for x in sp[j]["id"]] == list(range(l, max(l, r))), "touching:split slices differ")
    return out


def nat_touching(params, model):
    import strax

    enc = H.norm_enc(params["enc"])
    nt, nc = params["nt"], params["nc"]
    things = H.conc_intervals(enc, model, "a", nt)
    conts = H.conc_intervals(enc, model, "c", nc)
    w = model["w"]
    te, ce = H.endtimes(things), H.endtimes(conts)
    with warnings.catch_warnings():
        warnings.simplefilter("ignore")
        got = [tuple(int(x) for x in r) for r in strax.touching_windows(things, conts, window=w)]
    want = []
    for j in range(nc):
        l = next((k for k in range(nt) if te[k] > conts["time"][j] - w), nt)
        r = sum(1 for k in range(nt) if things["time"][k] < ce[j] + w)
        want.append((l, r))
    ok = got == want
    if ok and params["ends_sorted"]:
        for j in range(nc):
            tset = [k for k in range(nt) if te[k] > conts["time"][j] - w and things["time"][k] < ce[j] + w]
            ok = ok and tset == list(range(got[j][0], max(got[j]))) if tset else ok and got[j][0] >= got[j][1]
    return {"ok": bool(ok), "detail": f"got {got} want {want} w={w}"}


def sym_touching_reject(nt, nc, which):
    import strax

    tt, te = H.sym_times("a", nt, sorted_=(which != "things"), allow_zero=True)
    ct, ce = H.sym_times("c", nc, sorted_=(which != "conts"), allow_zero=True)
    lst = tt if which == "things" else ct
    unsorted = sor(*[lst[i + 1] < lst[i] for i in range(len(lst) - 1)])
    raised, _ = H.expect_raises(ValueError, strax.touching_windows, H.arr_end(tt, te), H.arr_end(ct, ce))
    prove(iff(unsorted, raised) if core.is_sym(unsorted) else unsorted == raised, f"touching_reject:{which}")
    return raised


def nat_touching_reject(params, model):
    import strax

    things = H.conc_end(model, "a", params["nt"])
    conts = H.conc_end(model, "c", params["nc"])
    lst = things["time"] if params["which"] == "things" else conts["time"]
    unsorted = bool(np.any(np.diff(lst) < 0))
    with warnings.catch_warnings():
        warnings.simplefilter("ignore")
        raised, _ = H.expect_raises(ValueError, strax.touching_windows, things, conts)
    return {"ok": raised == unsorted, "detail": f"unsorted={unsorted} raised={raised}"}


# ---------------------------------------------------------------------------- diff / breaks
def sym_diff(n, enc):
    import strax

    enc = H.norm_enc(enc)
    data, tt, te = H.make_intervals(enc, "a", n, allow_zero=True)
    res = strax.diff(data)
    prove(len(res) == max(n - 1, 0), "diff:length")
    for i in range(n - 1):
        prove(res[i] == tt[i + 1] - core.smax(te[: i + 1]), f"diff:[{i}] is not gap to the running max end")
    return len(res)


def nat_diff(params, model):
    import strax

    enc = H.norm_enc(params["enc"])
    data = H.conc_intervals(enc, model, "a", params["n"])
    got = [int(x) for x in strax.diff(data)]
    e = H.endtimes(data)
    want = [int(data["time"][i + 1] - e[: i + 1].max()) for i in range(len(data) - 1)]
    return {"ok": got == want, "detail": f"got {got} want {want}"}


def sym_break(n, enc, left):
    import strax

    enc = H.norm_enc(enc)
    data, tt, te = H.make_intervals(enc, "a", n, allow_zero=True)
    sb = fresh_int("safe_break", 0, H.T_MAX)
    nb = fresh_int("not_before", 0, H.T_MAX)

    def is_break(i):
        return tt[i] >= core.smax([nb] + te[:i]) + sb

    if n == 0:
        raised, _ = H.expect_raises(NotImplementedError, strax.from_break, data, sb, nb, left)
        prove(raised, "break:empty input must raise NotImplementedError")
        return "empty"
    raised, r = H.expect_raises(strax.NoBreakFound, strax.from_break, data, sb, nb, left)
    if raised:
        for i in range(1, n):
            prove(snot(is_break(i)), f"break:NoBreakFound although {i} is a break")
        return "nobreak"
    part, btime = r
    ids = [int(x) for x in part["id"]]
    # which index was chosen?
    bi = len(ids) if left else n - len(ids)
    prove(1 <= bi < n, "break:index out of range")
    prove(ids == (list(range(bi)) if left else list(range(bi, n))), "break:wrong side returned")
    prove(is_break(bi), f"break:{bi} is not a break")
    for i in range(1, bi):
        prove(snot(is_break(i)), f"break:{bi} is not the first break")
    prove(btime == tt[bi], "break:time")
    return bi


def nat_break(params, model):
    import strax

    enc = H.norm_enc(params["enc"])
    n, left = params["n"], params["left"]
    data = H.conc_intervals(enc, model, "a", n)
    sb, nb = model["safe_break"], model["not_before"]
    e = H.endtimes(data)
    if n == 0:
        raised, _ = H.expect_raises(NotImplementedError, strax.from_break, data, sb, nb, left)
        return {"ok": raised, "detail": "empty"}
    want = next((i for i in range(1, n) if data["time"][i] >= max([nb] + list(e[:i])) + sb), None)
    raised, r = H.expect_raises(strax.NoBreakFound, strax.from_break, data, sb, nb, left)
    if raised:
        return {"ok": want is None, "detail": f"NoBreakFound, want {want}"}
    ids = [int(x) for x in r[0]["id"]]
    exp = None if want is None else (list(range(want)) if left else list(range(want, n)))
    return {"ok": ids == exp and int(r[1]) == int(data["time"][want]), "detail": f"got {ids} want {exp}"}


# ---------------------------------------------------------------------------- time to prev/next
def sym_prevnext(nt, ni, enc):
    import strax

    enc = H.norm_enc(enc)
    things, tt, te = H.make_intervals(enc, "a", nt, disjoint=True)
    ivs, it, ie = H.make_intervals(enc, "c", ni, disjoint=True)
    prev, nxt = strax.abs_time_to_prev_next_interval(things, ivs)
    prove(len(prev) == nt and len(nxt) == nt, "prevnext:length")
    for i in range(nt):
        # definition: smallest distance to an interval that ended at/before the thing starts ...
        cands = [(ie[j] <= tt[i], tt[i] - ie[j]) for j in range(ni)]
        none = sand(*[snot(c) for c, _ in cands])
        prove(iff(prev[i] == -1, none) if ni else prev[i] == -1, f"prevnext:prev[{i}] -1 iff no earlier interval")
        for c, d in cands:
            prove(implies(c, sand(prev[i] <= d, prev[i] >= 0)), f"prevnext:prev[{i}] not minimal")
        prove(sor(none, *[sand(c, prev[i] == d) for c, d in cands]), f"prevnext:prev[{i}] not attained")
        # ... and to an interval that starts at/after the thing ends
        cands = [(it[j] >= te[i], it[j] - te[i]) for j in range(ni)]
        none = sand(*[snot(c) for c, _ in cands])
        prove(iff(nxt[i] == -1, none) if ni else nxt[i] == -1, f"prevnext:next[{i}] -1 iff no later interval")
        for c, d in cands:
            prove(implies(c, sand(nxt[i] <= d, nxt[i] >= 0)), f"prevnext:next[{i}] not minimal")
        prove(sor(none, *[sand(c, nxt[i] == d) for c, d in cands]), f"prevnext:next[{i}] not attained")
    return nt


def nat_prevnext(params, model):
    import strax

    enc = H.norm_enc(params["enc"])
    things = H.conc_intervals(enc, model, "a", params["nt"])
    ivs = H.conc_intervals(enc, model, "c", params["ni"])
    te, ie = H.endtimes(things), H.endtimes(ivs)
    with warnings.catch_warnings():
        warnings.simplefilter("ignore")
        prev, nxt = strax.abs_time_to_prev_next_interval(things, ivs)
    wp, wn = [], []
    for i in range(len(things)):
        c = [int(things["time"][i] - ie[j]) for j in range(len(ivs)) if ie[j] <= things["time"][i]]
        wp.append(min(c) if c else -1)
        c = [int(ivs["time"][j] - te[i]) for j in range(len(ivs)) if ivs["time"][j] >= te[i]]
        wn.append(min(c) if c else -1)
    got = ([int(x) for x in prev], [int(x) for x in nxt])
    return {"ok": got == (wp, wn), "detail": f"got {got} want {(wp, wn)}"}


# ---------------------------------------------------------------------------- sorting
DT_CH = np.dtype([("time", np.int64), ("endtime", np.int64), ("channel", np.int16), ("id", np.int64)])
DT_NOCH = np.dtype([("time", np.int64), ("endtime", np.int64), ("id", np.int64)])


def sym_sort(n, channels):
    import strax

    dt = DT_CH if channels else DT_NOCH
    a = arrays.make(dt, n)
    tt, ch = [], []
    for i in range(n):
        t = fresh_int(f"at{i}", 0, 2**40)
        tt.append(t)
        a["time"][i] = t
        a["endtime"][i] = t + 1
        a["id"][i] = i
        if channels:
            c = fresh_int(f"ch{i}", -1, 2)
            ch.append(c)
            a["channel"][i] = c
    out = strax.sort_by_time(a)
    ids = [int(x) for x in out["id"]]
    prove(sorted(ids) == list(range(n)), "sort:not a permutation")
    for p in range(n - 1):
        i, j = ids[p], ids[p + 1]
        if channels:
            lt = sor(tt[i] < tt[j], sand(tt[i] == tt[j], ch[i] < ch[j]))
            eq = sand(tt[i] == tt[j], ch[i] == ch[j])
        else:
            lt, eq = tt[i] < tt[j], tt[i] == tt[j]
        prove(sor(lt, eq), "sort:not ordered by (time, channel)")
        prove(implies(eq, i < j), "sort:equal keys do not keep input order (unstable)")
    return ids


def nat_sort(params, model):
    import strax

    n, channels = params["n"], params["channels"]
    a = np.zeros(n, dtype=DT_CH if channels else DT_NOCH)
    for i in range(n):
        a["time"][i] = model[f"at{i}"]
        a["endtime"][i] = model[f"at{i}"] + 1
        a["id"][i] = i
        if channels:
            a["channel"][i] = model[f"ch{i}"]
    got = [int(x) for x in strax.sort_by_time(a)["id"]]
    key = (lambda i: (a["time"][i], a["channel"][i], i)) if channels else (lambda i: (a["time"][i], i))
    want = sorted(range(n), key=key)
    return {"ok": got == want, "detail": f"got {got} want {want}"}


# ---------------------------------------------------------------------------- reachability twin
def sym_twin_contain(nt, nc):
    import strax

    things, tt, te = H.make_intervals("end", "a", nt)
    conts, ct, ce = H.make_intervals("end", "c", nc, disjoint=True)
    strax.fully_contained_in(things, conts)
    prove(False, "twin:reachable")


# ---------------------------------------------------------------------------- grids
def _g_contain(tier):
    sizes = [(nt, nc) for nt in range(0, 5) for nc in range(0, 4)] if tier == "quick" else \
        [(nt, nc) for nt in range(0, 6) for nc in range(0, 5)]
    return [dict(nt=nt, nc=nc, enc=e) for nt, nc in sizes for e in H.enc_list(tier)
            if not (e != "end" and tier == "quick" and (nt, nc) != (4, 3) and nt + nc > 4)]


def _g_split(tier):
    sizes = [(nt, nc) for nt in range(0, 5) for nc in range(0, 4)] if tier == "quick" else \
        [(nt, nc) for nt in range(0, 6) for nc in range(0, 5)]
    return [dict(nt=nt, nc=nc, enc="end") for nt, nc in sizes] + \
           [dict(nt=3, nc=2, enc=e) for e in H.enc_list(tier) if e != "end"]


def _g_touch(tier):
    sizes = [(nt, nc) for nt in range(0, 4) for nc in range(0, 3)] if tier == "quick" else \
        [(nt, nc) for nt in range(0, 5) for nc in range(0, 4)]
    out = []
    for nt, nc in sizes:
        for es in (True, False):
            for wm in ("small", "any"):
                out.append(dict(nt=nt, nc=nc, enc="end", wmode=wm, ends_sorted=es))
    for e in H.enc_list(tier):
        if e != "end":
            out.append(dict(nt=2, nc=2, enc=e, wmode="small", ends_sorted=True))
    return out


def _g_rows(tier, extra=None):
    mx = 4 if tier == "quick" else 5
    return [dict(n=n, enc=e, **(extra or {})) for n in range(0, mx + 1) for e in H.enc_list(tier)
            if e == "end" or n in (2, 3)]


# ---------------------------------------------------------------------------- endtime (width of length * dt)
def sym_endtime(region):
    """strax.endtime of a (time, length, dt) interval == time + length * dt.  The proxies are mathematical integers,
    so a symbolic pass says nothing about machine width: the decision for each region comes from the native replay
    of its path witness (length int32, dt int16, product computed by numpy / numba)."""
    import strax

    t = fresh_int("t", 0, 2**40)
    l = fresh_int("l", 1, 2**31 - 1)
    d = fresh_int("dt", 1, 2**15 - 1)
    if region == "narrow":
        assume(l * d <= 2**31 - 1)
    else:
        assume(l * d >= 2**31)  # both factors legal for their fields, the end time far below 2^63
    a = arrays.make(H.DT_LEN, 1)
    a["time"][0], a["length"][0], a["dt"][0] = t, l, d
    e = strax.endtime(a)
    prove(e[0] == t + l * d, "endtime:endtime != time + length * dt")
    return region


def nat_endtime(params, model):
    import strax

    a = np.zeros(1, dtype=H.DT_LEN)
    a["time"], a["length"], a["dt"] = model["t"], model["l"], model["dt"]
    want = model["t"] + model["l"] * model["dt"]
    got = int(strax.endtime(a)[0])
    got_rec = int(strax.endtime(a[0]))
    ok = got == want and got_rec == want
    return {"ok": ok, "label": "endtime:int32 overflow of length * dt",
            "detail": f"time={model['t']} length={model['l']} dt={model['dt']}: endtime(array)={got} endtime(record)={got_rec} "
                      f"want {want}"}


# ---------------------------------------------------------------------------- sort_by_time: width of the sort key
def sym_sort_wide(channels):
    """sort_by_time over a time range beyond 2^53 ns with two records one nanosecond apart, given in descending order.
    As for `endtime`, the symbolic run is exact by construction; the decision for this region is the native replay of
    the path witnesses (is the combined sort key still computed exactly?)."""
    import strax

    dt = DT_CH if channels else DT_NOCH
    a = arrays.make(dt, 3)
    t1 = fresh_int("at1", 2**53, 2**61)
    assume(t1 % 4 == 0)
    tt = [t1 + 1, t1, 0]
    for i in range(3):
        a["time"][i], a["endtime"][i], a["id"][i] = tt[i], tt[i] + 1, i
        if channels:
            a["channel"][i] = 0
    out = strax.sort_by_time(a)
    ids = [int(x) for x in out["id"]]
    prove(ids == [2, 1, 0], f"sort_wide:not ordered by time: {ids}")
    return ids


def nat_sort_wide(params, model):
    import strax

    channels = params["channels"]
    a = np.zeros(3, dtype=DT_CH if channels else DT_NOCH)
    t1 = model["at1"]
    a["time"] = [t1 + 1, t1, 0]
    a["endtime"] = a["time"] + 1
    a["id"] = [0, 1, 2]
    got = [int(x) for x in strax.sort_by_time(a)["id"]]
    return {"ok": got == [2, 1, 0], "label": "sort_wide:records one ns apart are not ordered by time",
            "detail": f"times {a['time'].tolist()} -> order of ids {got}, want [2, 1, 0]"}


# ---------------------------------------------------------------------------- sort_by_time: the combined key fits int64
DT_PAY = np.dtype([("time", np.int64), ("endtime", np.int64), ("channel", np.int16), ("pay", np.int64), ("id", np.int64)])
DT_PAY_NOCH = np.dtype([("time", np.int64), ("endtime", np.int64), ("pay", np.int64), ("id", np.int64)])


def sym_sort_key(channels):
    """Whenever sort_by_time takes its fast path, (time - tmin) * (cmax + 1) + channel must fit int64 (the kernel computes
    it in int64): proved at the call of the real kernel, for a symbolic time range up to 2^63 - 1 and a symbolic number
    of channels."""
    import strax
    import strax.processing.general as g

    dt = DT_CH if channels else DT_NOCH
    a = arrays.make(dt, 3)
    T = fresh_int("T", 6, 2**63 - 2)
    C = fresh_int("C", 0, 32767) if channels else 0
    tt, cc = [0, 5, T], [0, C, C]
    for i in range(3):
        a["time"][i], a["endtime"][i], a["id"][i] = tt[i], tt[i] + 1, i
        if channels:
            a["channel"][i] = cc[i]
    real = g._sort_by_time_and_channel
    seen = []

    def spy(x, channel, mcp1, *aa, **kk):
        seen.append(1)
        key_max = (T - 0) * mcp1 + core.smax(channel[1], channel[2])
        prove(key_max <= 2**63 - 1, "sort_key:fast path taken although the combined sort key exceeds int64")
        return real(x, channel, mcp1, *aa, **kk)

    g._sort_by_time_and_channel = spy
    try:
        out = strax.sort_by_time(a)
    finally:
        g._sort_by_time_and_channel = real
    ids = [int(x) for x in out["id"]]
    prove(ids == [0, 1, 2], f"sort_key:not ordered by time: {ids}")
    return bool(seen)


def nat_sort_key(params, model):
    import strax

    channels = params["channels"]
    a = np.zeros(3, dtype=DT_CH if channels else DT_NOCH)
    T, C = model["T"], (model.get("C", 0) or 0)
    a["time"] = [0, 5, T]
    a["endtime"] = a["time"] + 1
    a["id"] = [0, 1, 2]
    if channels:
        a["channel"] = [0, C, C]
    got = [int(x) for x in strax.sort_by_time(a)["id"]]
    return {"ok": got == [0, 1, 2], "label": "sort_key:sorted input comes back out of order",
            "detail": f"times [0, 5, {T}] channels [0, {C}, {C}] -> order of ids {got}, want [0, 1, 2]"}


# ---------------------------------------------------------------------------- sort_by_time: field width, ties
SORT_EDGES = {
    # name: (channel dtype or None, times, channels, payload)
    "int16_edge": (np.int16, [7, 7, 7], [32767, 5, -1], [0, 0, 0]),
    "uint8_full": (np.uint8, [30, 20, 10], [0, 7, 255], [0, 0, 0]),
    "uint16_full": (np.uint16, [30, 20, 10], [0, 7, 65535], [0, 0, 0]),
    "ties_far_row": (np.int16, [0, 0, 0, 2**50], [5, 5, 5, 9999], [9, 3, 7, 0]),
    "ties_ch32767": (np.int16, [0, 0, 0, 1000], [5, 5, 5, 32767], [9, 3, 7, 0]),
    "ties_nochannel": (None, [0, 0, 0, 2**62 + 8], None, [9, 3, 7, 0]),
    "ties_near": (np.int16, [0, 0, 0, 1000], [5, 5, 5, 6], [9, 3, 7, 0]),
}


def _edge_array(case, off, obj):
    cdt, times, chans, pay = SORT_EDGES[case]
    fields = [("time", np.int64), ("endtime", np.int64)] + ([("channel", cdt)] if cdt else []) + [("pay", np.int64), ("id", np.int64)]
    dt = np.dtype(fields)
    n = len(times)
    a = arrays.make(dt, n) if obj else np.zeros(n, dtype=dt)
    for i in range(n):
        a["time"][i], a["endtime"][i], a["pay"][i], a["id"][i] = times[i] + off, times[i] + off + 1, pay[i], i
        if cdt:
            a["channel"][i] = chans[i]
    return a, times, chans


def _edge_want(times, chans):
    n = len(times)
    return sorted(range(n), key=lambda i: (times[i], chans[i] if chans else 0, i))


def sym_sort_edge(case):
    """concrete channel values at the edge of the channel field's type / tied rows with a payload in descending order,
    symbolic common time offset: ordered by (time, channel), ties in input order.  Field-width wrap-around exists only
    natively: the native replay of the path witnesses decides."""
    import strax

    off = fresh_int("off", 0, 2**40)
    a, times, chans = _edge_array(case, off, True)
    ids = [int(x) for x in strax.sort_by_time(a)["id"]]
    want = _edge_want(times, chans)
    prove(ids == want, f"sort_edge:{case}: order {ids}, want {want} (by time, channel, then input position)")
    return ids


def nat_sort_edge(params, model):
    import strax

    case = params["case"]
    a, times, chans = _edge_array(case, model.get("off", 0) or 0, False)
    ids = [int(x) for x in strax.sort_by_time(a)["id"]]
    want = _edge_want(times, chans)
    return {"ok": ids == want, "label": f"sort_edge:{case}: not ordered by (time, channel, input position)",
            "detail": f"channel dtype {SORT_EDGES[case][0]}, times {times}, channels {chans}: order {ids}, want {want}"}


OBLIGATIONS = [
    Ob("contain", sym_contain, _g_contain, nat_contain, setup=_setup,
       doc="fully_contained_in == first container with c.t<=t and e<=c.e, else -1"),
    Ob("contain_reject", sym_contain_reject,
       lambda tier: [dict(nt=nt, nc=nc, which=w) for nt, nc in ((2, 1), (3, 2), (1, 3)) for w in ("things", "conts")]
       + [dict(nt=2, nc=2, which=w, opt=True) for w in ("things", "conts")],
       nat_contain_reject, setup=_setup, doc="unsorted input <=> ValueError (also in an interpreter started with -O)"),
    Ob("split_contain", sym_split_contain, _g_split, nat_split_contain, setup=_setup,
       doc="split_by_containment groups == things whose (first) container is j"),
    Ob("overlap", sym_overlap, lambda tier: [dict()], nat_overlap, setup=_setup,
       doc="overlap_indices == index sets of the intersection (Skolemised forall k), unbounded"),
    Ob("touching", sym_touching, _g_touch, nat_touching, setup=_setup,
       doc="touching_windows [l,r) == first thing reaching window / #things starting before window end; "
           "== touching set when end times sorted"),
    Ob("touching_reject", sym_touching_reject,
       lambda tier: [dict(nt=nt, nc=nc, which=w) for nt, nc in ((2, 1), (3, 2), (1, 3)) for w in ("things", "conts")],
       nat_touching_reject, setup=_setup),
    Ob("diff", sym_diff, _g_rows, nat_diff, setup=_setup, doc="diff[i] == time[i+1] - max(end[0..i])"),
    Ob("break", sym_break, lambda tier: [dict(p, left=l) for p in _g_rows(tier) for l in (True, False)],
       nat_break, setup=_setup, doc="from_break/_find_break_i == first index with gap >= safe_break"),
    Ob("prevnext", sym_prevnext,
       lambda tier: [dict(nt=nt, ni=ni, enc=e) for nt in range(0, 4 if tier == "quick" else 5)
                     for ni in range(0, 4 if tier == "quick" else 5) for e in (["end"] if nt + ni != 4 else H.enc_list(tier))],
       nat_prevnext, setup=_setup, doc="abs_time_to_prev_next_interval == min distances, -1 if none"),
    Ob("sort", sym_sort, lambda tier: [dict(n=n, channels=c) for n in range(0, 4 if tier == "quick" else 5)
                                       for c in (False, True)],
       nat_sort, setup=_setup, doc="sort_by_time: permutation, ordered by (time, channel), stable"),
    Ob("sort_wide", sym_sort_wide, lambda tier: [dict(channels=False), dict(channels=True)], nat_sort_wide, setup=_setup,
       witnesses=2, doc="sort_by_time with a time range > 2^53 ns and records 1 ns apart, decided natively"),
    Ob("sort_key", sym_sort_key, lambda tier: [dict(channels=False), dict(channels=True)], nat_sort_key, setup=_setup,
       witnesses=2, doc="fast path of sort_by_time only when (time range) * (channels) + channel fits int64"),
    Ob("sort_edge", sym_sort_edge, lambda tier: [dict(case=c) for c in SORT_EDGES], nat_sort_edge, setup=_setup,
       witnesses=1, doc="channel values at the edge of the field type; tied rows on both paths keep their input order"),
    Ob("endtime", sym_endtime, lambda tier: [dict(region="narrow"), dict(region="wide")], nat_endtime, setup=_setup,
       witnesses=2, doc="endtime == time + length*dt, decided natively per region (product below / above 2^31)"),
    Ob("twin_contain", sym_twin_contain, lambda tier: [dict(nt=2, nc=2)], None, setup=_setup, expect_cex=True),
]


MUTANTS = [
    dict(name="sortedness check is an assert statement again (original defect F-C17f)", file="strax/processing/general.py",
         only="contain_reject", old="    mask = np.all((time[1:] - time[:-1]) >= 0)\n    # Not an assert statement: python -O compiles those away\n    if not mask:\n        raise AssertionError",
         new="    mask = np.all((time[1:] - time[:-1]) >= 0)\n    assert mask"),
    dict(name="sort guard by float division (original defect F-C17c)", file="strax/processing/general.py", only="sort_key",
         old="    max_time_difference = (int(np.iinfo(np.int64).max) - 10) // max_channel_plus_one - 1",
         new="    max_time_difference = (np.iinfo(np.int64).max - 10) / max_channel_plus_one"),
    dict(name="sort key in the channel field's own type (original defect F-C17d)", file="strax/processing/general.py", only="sort_edge",
         old='        channel = x["channel"].astype(np.int64)', new='        channel = x["channel"].copy()'),
    dict(name="slow path sorts with order= (original defect F-C17e)", file="strax/processing/general.py", only="sort_edge",
         old='        x = x[np.lexsort((channel, x["time"]))]', new='        x = np.sort(x, kind="mergesort", order=("time", "channel"))'),
    dict(name="original F-C17b: float sort key for data without a channel field", file="strax/processing/general.py", only="sort_wide",
         old="        channel = np.ones(len(x), dtype=np.int64)", new="        channel = np.ones(len(x))"),
    dict(name="original F-C17: endtime multiplies length by dt in int32", file="strax/processing/general.py", only="endtime",
         old="            length = length.astype(np.int64)\n        else:\n            length = np.int64(length)\n",
         new="            pass\n"),
    dict(name="containment uses strict end", file="strax/processing/general.py", only="contain,split_contain",
         old="        if b_starts[b_i] <= a_starts[a_i] and a_ends[a_i] <= b_ends[b_i]:",
         new="        if b_starts[b_i] <= a_starts[a_i] and a_ends[a_i] < b_ends[b_i]:"),
    dict(name="containment skips containers with < instead of <=", file="strax/processing/general.py", only="contain,split_contain",
         old="        while b_i < len(b_starts) and b_ends[b_i] <= a_starts[a_i]:",
         new="        while b_i < len(b_starts) and b_ends[b_i] < a_starts[a_i]:"),
    dict(name="touching window right bound inclusive", file="strax/processing/general.py", only="touching",
         old="        while right_i <= n - 1 and thing_start[right_i] < t1 + window:",
         new="        while right_i <= n - 1 and thing_start[right_i] <= t1 + window:"),
    dict(name="overlap_indices off by one", file="strax/processing/general.py", only="overlap",
         old="    b_end = min(n_b, s + n_a)", new="    b_end = min(n_b, s + n_a + 1)"),
    dict(name="diff forgets the running maximum", file="strax/processing/general.py", only="diff",
         old="        max_endtime = max(max_endtime, endtime)", new="        max_endtime = endtime"),
    dict(name="break found one gap too early", file="strax/processing/general.py", only="break",
         old='        if d["time"] >= latest_end_seen + safe_break:', new='        if d["time"] > latest_end_seen + safe_break - 2:'),
    dict(name="time to next interval uses start instead of end", file="strax/processing/general.py", only="prevnext",
         old='            times_to_next[thing_ind] = veto_interval["time"] - current_event_endtime',
         new='            times_to_next[thing_ind] = veto_interval["time"] - current_event_time'),
    dict(name="sort key ignores the channel", file="strax/processing/general.py", only="sort",
         old='    sort_key = (x["time"] - x["time"].min()) * max_channel_plus_one + channel',
         new='    sort_key = (x["time"] - x["time"].min()) * max_channel_plus_one'),
]
