"""C18 — hit finding and data reduction keep exactly the samples they should.

The Python source of the njit kernels (find_hits/_find_hits through growing_result, record_links, zero_out_of_bounds,
integrate, cut_outside_hits/_cut_outside_hits, cut_baseline) runs on records whose samples, thresholds, lengths, times
and extensions are symbolic integers.
"""
import warnings

import numpy as np

from symx import core, arrays
from symx.core import fresh_int, assume, prove, sand, sor, snot, implies, iff, ite, smax
from symx.run import Ob
from harness import common as H

LEVEL = "model_checking"
FUNCTIONS = ["strax.processing.pulse_processing.find_hits", "_find_hits", "strax.utils.growing_result", "record_links",
             "zero_out_of_bounds", "integrate", "strax.processing.data_reduction.cut_outside_hits", "_cut_outside_hits",
             "cut_baseline", "baseline", "strax.processing.general.overlap_indices"]
BOUNDS = {
    "quick": "hit finder: 1 record x 4 samples and 2 records x 3 samples, samples symbolic in [-3,6], thresholds symbolic "
             "(scalar and per channel), record length symbolic <= record size, baseline fractional part in {0, 1/2}; "
             "links: 3-4 records, 2 channels, times symbolic; reduction: pulses of 1-2 fragments x 3 samples, extensions "
             "symbolic in [0,3]; integrate / zero_out_of_bounds: 2 records x 4 samples; baseline: one pulse of symbolic "
             "length 1..4 in a 4-sample record, raw samples symbolic in [0,40] / [-40,40], baseline_samples in {2,3,6}; "
             "cut_baseline: pulses of 1-2 fragments x 3 samples, n_before <= 3, n_after <= pulse length + 1",
    "thorough": "2 records x 4 samples, 3 fragments, 2 channels for the reduction",
}
ASSUMPTIONS = ["sample values are integers within int16, thresholds non-negative integers; int16/int32 wrap-around not modelled",
               "record times >= 1 ns (record_links initialises its 'expected next start' table with 0, so a non-first "
               "fragment that is the first of its channel and sits at time 0 is linked to index -1: a boundary observation "
               "outside realistic inputs)", "baseline(): flip=True; the standard deviation is an uninterpreted non-negative real; "
               "float32 storage of the baseline is exact for the small values used",
               "baselines with fractional part 0 or 1/2 (exact in float32); noise-scaled thresholds only with "
               "min_height_over_noise = 0 (the float product baseline_rms * factor is outside)",
               "NUMBA_DISABLE_JIT=1: kernels run as their Python source; witnesses replayed on the compiled kernels"]
OUTSIDE = ["filter_records (scipy convolution)", "noise-scaled thresholds with non-dyadic rms", "int16 overflow in baseline()",
           "baseline(flip=False) vs the always-added baseline fraction; baselines of multi-fragment pulses; float32 vs "
           "float64 mean of > 1024-sample records"]
STUBS = ["np constructors -> object arrays (pulse_processing, data_reduction, utils)", "min/max/int shims"]
S_MAX = 4


def _setup():
    import strax.processing.pulse_processing as pp
    import strax.processing.data_reduction as dr

    def extra(inj):
        for m in (pp, dr):
            inj.inject_default(m, which=("np", "int", "min", "max"))
            inj.inject(m, print=lambda *a, **k: None, round=arrays.sym_round)

    warnings.simplefilter("ignore")
    return H.setup_strax(extra=extra)


def rec_dtype(S):
    import strax

    return np.dtype(strax.record_dtype(S))


def mk_records(specs, S, obj):
    """specs: list of dict(time, length, channel, record_i, pulse_length, baseline, dt, data=[...])."""
    import strax

    D = rec_dtype(S)
    a = arrays.make(D, len(specs)) if obj else np.zeros(len(specs), D)
    for i, s in enumerate(specs):
        for k in ("time", "length", "channel", "record_i", "pulse_length", "baseline", "dt"):
            a[k][i] = s[k]
        a["baseline_rms"][i] = s.get("baseline_rms", 0)
        a["amplitude_bit_shift"][i] = s.get("shift", 0)
        for q in range(S):
            a["data"][i][q] = s["data"][q]
    return a


# ---------------------------------------------------------------------------- hit finder
def _hit_specs(nrec, S, fpart2, sym, model=None, per_channel=False):
    specs = []
    for r in range(nrec):
        if sym:
            length = fresh_int(f"len{r}", 0, S)
            data = [fresh_int(f"x{r}_{q}", -3, 6) for q in range(S)]
            t = fresh_int(f"t{r}", 0, 2**40)
        else:
            length = model[f"len{r}"]
            data = [model[f"x{r}_{q}"] for q in range(S)]
            t = model[f"t{r}"]
        specs.append(dict(time=t, length=length, channel=(r % 2 if per_channel else 0), record_i=0, pulse_length=length,
                          baseline=16000 + (0.5 if fpart2 else 0.0), dt=2, data=data))
    return specs


def _expected_hits(specs, thr_of, S, fpart):
    """Maximal runs of in-record samples >= threshold.  Structure is decided by (already decided) comparisons."""
    out = []
    for ri, s in enumerate(specs):
        thr = thr_of(s["channel"])
        n = s["length"]
        run = None
        for i in range(S):
            inside = bool(i < n) and bool(s["data"][i] >= thr)
            if inside:
                run = [i, i + 1] if run is None else [run[0], i + 1]
            if (not inside or i == S - 1) and run is not None:
                xs = s["data"][run[0]:run[1]]
                # first maximum
                best, hmax = run[0], xs[0]
                for k in range(1, len(xs)):
                    if bool(xs[k] > hmax):
                        best, hmax = run[0] + k, xs[k]
                out.append(dict(record_i=ri, left=run[0], right=run[1], time=s["time"] + run[0] * s["dt"],
                                length=run[1] - run[0], area=core.ssum(xs, 0) + (run[1] - run[0]) * fpart,
                                height=hmax + fpart, max_time=s["time"] + best * s["dt"], channel=s["channel"], thr=thr))
                run = None
    return out


def sym_hits(nrec, S, fpart2=False, per_channel=False):
    import strax

    specs = _hit_specs(nrec, S, fpart2, True, per_channel=per_channel)
    recs = mk_records(specs, S, True)
    if per_channel:
        thrs = [fresh_int("thr0", 0, 7), fresh_int("thr1", 0, 7)]
        hits = strax.find_hits(recs, min_amplitude=arrays.struct if False else _objarr(thrs), min_height_over_noise=_objarr([0, 0]))
        thr_of = lambda ch: thrs[ch]
    else:
        thr = fresh_int("thr", 0, 7)
        hits = strax.find_hits(recs, min_amplitude=thr, min_height_over_noise=0)
        thr_of = lambda ch: smax(thr, 0 * 0)  # threshold = max(min_amplitude, rms * 0)
    fpart = 0.5 if fpart2 else 0
    want = _expected_hits(specs, lambda ch: smax(thr_of(ch), 0), S, fpart)
    prove(len(hits) == len(want), f"hits:found {len(hits)} hits, definition gives {len(want)}")
    for h, w in zip(hits, want):
        for k in ("record_i", "left", "right", "channel"):
            prove(h[k] == w[k], f"hits:{k} differs")
        prove(sand(h["time"] == w["time"], h["length"] == w["length"], h["dt"] == 2), "hits:time/length")
        prove(h["area"] == w["area"], "hits:area is not the sum of samples (+ baseline fraction)")
        prove(h["height"] == w["height"], "hits:height is not the maximum sample (+ baseline fraction)")
        prove(h["max_time"] == w["max_time"], "hits:max_time is not the time of the first maximum")
    return [(w["record_i"], w["left"], w["right"]) for w in want]


def _objarr(xs):
    a = np.empty(len(xs), dtype=object)
    for i, x in enumerate(xs):
        a[i] = x
    return a.view(arrays.SArr)


def nat_hits(params, model):
    import strax

    nrec, S = params["nrec"], params["S"]
    fpart2, per_channel = params.get("fpart2", False), params.get("per_channel", False)
    specs = _hit_specs(nrec, S, fpart2, False, model, per_channel)
    recs = mk_records(specs, S, False)
    if per_channel:
        thrs = [model["thr0"], model["thr1"]]
        hits = strax.find_hits(recs, min_amplitude=np.array(thrs, dtype=float), min_height_over_noise=np.zeros(2))
        thr_of = lambda ch: max(thrs[ch], 0)
    else:
        hits = strax.find_hits(recs, min_amplitude=model["thr"], min_height_over_noise=0)
        thr_of = lambda ch: max(model["thr"], 0)
    want = _expected_hits(specs, thr_of, S, 0.5 if fpart2 else 0)
    ok = len(hits) == len(want)
    for h, w in zip(hits, want):
        ok = ok and all(h[k] == w[k] for k in ("record_i", "left", "right", "channel", "time", "length", "max_time"))
        ok = ok and abs(float(h["area"]) - float(w["area"])) < 1e-3 and abs(float(h["height"]) - float(w["height"])) < 1e-3
    return {"ok": bool(ok), "detail": f"got {[(int(h['record_i']), int(h['left']), int(h['right']), float(h['area'])) for h in hits]} "
                                      f"want {[(w['record_i'], w['left'], w['right'], w['area']) for w in want]}"}


# ---------------------------------------------------------------------------- record links
def _link_specs(n, S, sym, model=None):
    specs = []
    chans = [0, 1, 0, 0][:n] if n <= 4 else [0, 1] * n
    for r in range(n):
        t = fresh_int(f"t{r}", 1, 2**40) if sym else model[f"t{r}"]
        ri = (core.concretize(fresh_int(f"ri{r}", 0, 2)) if sym else model[f"ri{r}"])
        specs.append(dict(time=t, length=S, channel=chans[r], record_i=ri, pulse_length=S, baseline=0.0, dt=2,
                          data=[0] * S))
    return specs


def sym_links(n, S=3):
    import strax

    specs = _link_specs(n, S, True)
    recs = mk_records(specs, S, True)
    prev, nxt = strax.record_links(recs)
    for i in range(n):
        cands = [j for j in range(i) if specs[j]["channel"] == specs[i]["channel"]]
        j = cands[-1] if cands else None
        linked = False
        if j is not None and specs[i]["record_i"] != 0:
            linked = specs[i]["time"] == specs[j]["time"] + S * 2
        got = int(prev[i])
        if got == -1:
            prove(snot(linked) if core.is_sym(linked) else not linked, f"links:record {i} should be linked to {j}")
        else:
            prove(got == j, f"links:record {i} linked to {got}, last record of that channel is {j}")
            prove(linked, f"links:record {i} linked although not time-adjacent / first fragment")
            prove(int(nxt[got]) == i, "links:next is not the inverse of previous")
    for j in range(n):
        if int(nxt[j]) != -1:
            prove(int(prev[int(nxt[j])]) == j, "links:dangling next link")
    return [int(x) for x in prev]


def nat_links(params, model):
    import strax

    n, S = params["n"], params.get("S", 3)
    specs = _link_specs(n, S, False, model)
    recs = mk_records(specs, S, False)
    prev, nxt = strax.record_links(recs)
    want = []
    for i in range(n):
        cands = [j for j in range(i) if specs[j]["channel"] == specs[i]["channel"]]
        j = cands[-1] if cands else None
        ok = j is not None and specs[i]["record_i"] != 0 and specs[i]["time"] == specs[j]["time"] + S * 2
        want.append(j if ok else -1)
    return {"ok": [int(x) for x in prev] == want, "detail": f"prev {prev.tolist()} want {want}"}


# ---------------------------------------------------------------------------- integrate / zero_out_of_bounds
def sym_integrate(S=4):
    import strax

    specs = []
    for r in range(2):
        specs.append(dict(time=10 * r, length=core.concretize(fresh_int(f"len{r}", 0, S)), channel=0, record_i=0, pulse_length=S,
                          baseline=16000.0, dt=1, data=[fresh_int(f"x{r}_{q}", -100, 100) for q in range(S)], shift=r))
    recs = mk_records(specs, S, True)
    strax.zero_out_of_bounds(recs)
    for r in range(2):
        for q in range(S):
            want = specs[r]["data"][q] if q < specs[r]["length"] else 0
            prove(recs["data"][r][q] == want, "zero_out_of_bounds:sample")
    strax.integrate(recs)
    for r in range(2):
        tot = core.ssum([specs[r]["data"][q] for q in range(specs[r]["length"])], 0)
        prove(recs["area"][r] == tot * 2 ** r, "integrate:area is not the sum of in-bounds samples x 2^shift")
    return "ok"


def nat_integrate(params, model):
    """native oracle (added after seed C18-3: counterexamples of this obligation had no replay)."""
    import strax

    S = params.get("S", 4)
    specs = [dict(time=10 * r, length=model[f"len{r}"], channel=0, record_i=0, pulse_length=S, baseline=16000.0, dt=1,
                  data=[model[f"x{r}_{q}"] for q in range(S)], shift=r) for r in range(2)]
    recs = mk_records(specs, S, False)
    strax.zero_out_of_bounds(recs)
    want = [[specs[r]["data"][q] if q < specs[r]["length"] else 0 for q in range(S)] for r in range(2)]
    got = [[int(v) for v in recs["data"][r]] for r in range(2)]
    if got != want:
        return {"ok": False, "detail": f"zero_out_of_bounds: {got} want {want}", "label": "zero_out_of_bounds:sample"}
    strax.integrate(recs)
    wa = [sum(want[r]) * 2 ** r for r in range(2)]
    ga = [int(v) for v in recs["area"]]
    return {"ok": ga == wa, "detail": f"area {ga} want {wa}", "label": None if ga == wa else "integrate:area is not the sum of in-bounds samples x 2^shift"}


# ---------------------------------------------------------------------------- reduction around hits
def _pulse_specs(nfrag, S, sym, model=None):
    specs = []
    for r in range(nfrag):
        data = [fresh_int(f"x{r}_{q}", 0, 3) if sym else model[f"x{r}_{q}"] for q in range(S)]
        specs.append(dict(time=100 + r * S * 2, length=S, channel=0, record_i=r, pulse_length=nfrag * S, baseline=16000.0, dt=2,
                          data=data))
    return specs


def _kept(specs, hits, le, re, S, r, s):
    """sample s of fragment r lies within the extension of a hit (continuing into the adjacent fragment)."""
    alts = []
    for h in hits:
        rh, left, right = int(h["record_i"]), int(h["left"]), int(h["right"])
        if rh == r:
            alts.append(sand(left - le <= s, s < right + re))
        elif rh == r + 1:  # r is the previous fragment of the hit's record
            alts.append(sand(left - le < 0, s >= S + (left - le)))
        elif rh == r - 1:  # r is the next fragment
            alts.append(sand(right + re > S, s < right + re - S))
    return sor(*alts) if alts else False


def sym_reduce(nfrag, S=3):
    import strax

    specs = _pulse_specs(nfrag, S, True)
    recs = mk_records(specs, S, True)
    le = fresh_int("le", 0, S)
    re = fresh_int("re", 0, S)
    hits = strax.find_hits(recs, min_amplitude=2, min_height_over_noise=0)
    meta = {k: [recs[k][i] for i in range(nfrag)] for k in ("time", "length", "channel", "record_i", "pulse_length", "dt", "baseline")}
    new = strax.cut_outside_hits(recs, hits, left_extension=le, right_extension=re)
    for r in range(nfrag):
        for s in range(S):
            kept = _kept(specs, hits, le, re, S, r, s)
            prove(new["data"][r][s] == ite(kept, specs[r]["data"][s], 0),
                  f"reduce:sample {s} of fragment {r} must be kept iff it lies within the extension of a hit")
        for k, v in meta.items():
            prove(new[k][r] == v[r], f"reduce:metadata field {k} altered")
    return len(hits)


def nat_reduce(params, model):
    import strax

    nfrag, S = params["nfrag"], params.get("S", 3)
    specs = _pulse_specs(nfrag, S, False, model)
    recs = mk_records(specs, S, False)
    le, re = model["le"], model["re"]
    hits = strax.find_hits(recs, min_amplitude=2, min_height_over_noise=0)
    new = strax.cut_outside_hits(recs, hits, left_extension=le, right_extension=re)
    ok = True
    for r in range(nfrag):
        for s in range(S):
            kept = bool(_kept(specs, hits, le, re, S, r, s))
            ok = ok and int(new["data"][r][s]) == (specs[r]["data"][s] if kept else 0)
    return {"ok": bool(ok), "detail": f"data {[d['data'] for d in specs]} le={le} re={re} -> {new['data'].tolist()}"}


# ---------------------------------------------------------------------------- reduction at the pulse edges
def _cutbase_run(recs, nb, na, rec_view):
    import strax

    a = _RecView(recs) if rec_view else recs  # the kernel reads fields as attributes (numba records)
    strax.cut_baseline(a, n_before=nb, n_after=na)
    return recs


class _Row:
    """row of a structured (object) array with numba-record style attribute access"""

    def __init__(self, arr, i):
        object.__setattr__(self, "_a", arr)
        object.__setattr__(self, "_i", i)

    def __getattr__(self, k):
        return self._a[k][self._i]

    def __getitem__(self, k):
        return self._a[k][self._i]

    def __setitem__(self, k, v):
        self._a[k][self._i] = v


class _RecView:
    def __init__(self, arr):
        self.arr = arr

    def __len__(self):
        return len(self.arr)

    def __getitem__(self, i):
        if isinstance(i, str):
            return self.arr[i]
        return _Row(self.arr, i)

    def __iter__(self):
        return (_Row(self.arr, i) for i in range(len(self.arr)))


def sym_cutbase(nfrag, S=3):
    """cut_baseline: the first n_before and the last n_after samples of the PULSE are zeroed, everything else and every
    metadata field is kept."""
    specs = _pulse_specs(nfrag, S, True)
    recs = mk_records(specs, S, True)
    nb = core.concretize(fresh_int("nb", 0, S))
    na = core.concretize(fresh_int("na", 0, nfrag * S + 1))
    meta = {k: [recs[k][i] for i in range(nfrag)] for k in ("time", "length", "channel", "record_i", "pulse_length", "dt", "baseline")}
    _cutbase_run(recs, nb, na, True)
    L = nfrag * S
    for r in range(nfrag):
        for q in range(S):
            g = r * S + q
            cut = g < nb or g >= L - na
            prove(recs["data"][r][q] == (0 if cut else specs[r]["data"][q]),
                  f"cutbase:sample {q} of fragment {r} (n_before={nb}, n_after={na}) must be {'zeroed' if cut else 'kept'}")
        for k, v in meta.items():
            prove(recs[k][r] == v[r], f"cutbase:metadata field {k} altered")
    return [nb, na]


def nat_cutbase(params, model):
    nfrag, S = params["nfrag"], params.get("S", 3)
    specs = _pulse_specs(nfrag, S, False, model)
    recs = mk_records(specs, S, False)
    nb, na = model.get("nb", 0) or 0, model.get("na", 0) or 0
    try:
        _cutbase_run(recs, nb, na, False)
    except Exception as e:  # numba TypingError and the like
        return {"ok": False, "label": f"cutbase:cut_baseline cannot be called: {type(e).__name__}",
                "detail": f"cut_baseline(records, {nb}, {na}) raised {type(e).__name__}: {str(e)[:200]}"}
    L, ok = nfrag * S, True
    for r in range(nfrag):
        for q in range(S):
            g = r * S + q
            want = 0 if (g < nb or g >= L - na) else specs[r]["data"][q]
            ok = ok and int(recs["data"][r][q]) == want
    return {"ok": bool(ok), "label": "cutbase:samples", "detail": f"n_before={nb} n_after={na} -> {recs['data'].tolist()}"}


# ---------------------------------------------------------------------------- baselining
def _bl_specs(S, sym, model=None, lo=0):
    if sym:
        length = core.concretize(fresh_int("len", 1, S))
        data = [fresh_int(f"x{q}", lo, 40) for q in range(S)]
    else:
        length = model.get("len", 1) or 1
        data = [model.get(f"x{q}", 0) or 0 for q in range(S)]
    data = [x if q < length else 0 for q, x in enumerate(data)]  # beyond the pulse a record is zero-padded
    return [dict(time=100, length=length, channel=0, record_i=0, pulse_length=length, baseline=0.0, dt=2, data=data)], length


def sym_baseline(B, S=4, lo=0, flip=True):
    """strax.baseline on one short pulse (length <= record size): the stored baseline is the mean of the first
    min(baseline_samples, length) REAL samples, and with the stored fractional part integrate() gives the exact
    baseline-subtracted area  sum(baseline - raw)."""
    import strax

    specs, length = _bl_specs(S, True, lo=lo)
    recs = mk_records(specs, S, True)
    strax.baseline(_RecView(recs), baseline_samples=B, flip=flip)  # rows whose sub-arrays are symbolic arrays (mean / std)
    n = min(B, length)
    true_bl = core.ssum(specs[0]["data"][:n], 0) / n
    prove(recs["baseline"][0] == true_bl, f"baseline:stored baseline is not the mean of the first {n} samples of the pulse "
                                          f"(length {length}, baseline_samples {B})")
    strax.integrate(recs)
    sign = 1 if flip else -1
    true_area = core.ssum([sign * (true_bl - specs[0]["data"][q]) for q in range(length)], 0)
    # the area field is an integer: integrate rounds the fractional contribution (documented), so within 1/2
    prove(sand(2 * (recs["area"][0] - true_area) <= 1, 2 * (recs["area"][0] - true_area) >= -1),
          "baseline:integrate(area) is not the (rounded) sum of (baseline - raw sample) over the pulse" if flip else
          "baseline:flip=False: integrate(area) is not the (rounded) sum of (raw sample - baseline) over the pulse")
    return length


def nat_baseline(params, model):
    import strax

    B, S = params["B"], params.get("S", 4)
    specs, length = _bl_specs(S, False, model)
    recs = mk_records(specs, S, False)
    flip = params.get("flip", True)
    strax.baseline(recs, baseline_samples=B, flip=flip)
    n = min(B, length)
    raw = specs[0]["data"]
    true_bl = sum(raw[:n]) / n
    strax.integrate(recs)
    true_area = sum((1 if flip else -1) * (true_bl - raw[q]) for q in range(length))
    ok = abs(float(recs["baseline"][0]) - true_bl) < 1e-3 and abs(float(recs["area"][0]) - true_area) <= 0.5 + 1e-3
    return {"ok": bool(ok), "label": "baseline:stored baseline / area differ from the definition" if flip else
            "baseline:flip=False: area differs from the definition",
            "detail": f"raw {raw} length {length} baseline_samples {B}: stored baseline {float(recs['baseline'][0])} (mean of the "
                      f"pulse's first {n} samples: {true_bl}), area {float(recs['area'][0])} (true {true_area})"}


def sym_twin():
    sym_hits(1, 3)
    prove(False, "twin:reachable")


MUTANTS = [
    dict(name="max_time only written above the running height (original defect F-C18d)", file="strax/processing/pulse_processing.py",
         only="hits", old='                max_time = r["time"] + i * r["dt"]\n                height = x\n',
         new='                if x > height:\n                    max_time = r["time"] + i * r["dt"]\n                height = max(x, height)\n'),
    dict(name="baseline window ignores the record length (original defect F-C18a)", file="strax/processing/pulse_processing.py",
         only="baseline", old='            w = d["data"][: min(baseline_samples, d["length"])]', new='            w = d["data"][:baseline_samples]'),
    dict(name="baseline truncated towards zero (original defect F-C18b)", file="strax/processing/pulse_processing.py",
         only="baseline", old='            d["data"][: d["length"]] - int(np.floor(bl))', new='            d["data"][: d["length"]] - int(bl)'),
    dict(name="cut_baseline calls astype on a scalar (original defect F-C18c)", file="strax/processing/data_reduction.py",
         only="cutbase", old="        clear_from -= np.int32(d.record_i) * samples_per_record",
         new="        clear_from -= d.record_i.astype(np.int32) * samples_per_record"),
    dict(name="cut_baseline clears one sample too few at the end", file="strax/processing/data_reduction.py",
         only="cutbase", old="        clear_from = d.pulse_length - n_after", new="        clear_from = d.pulse_length - n_after + 1"),
    dict(name="hit threshold strict", file="strax/processing/pulse_processing.py", only="hits",
         old="            satisfy_threshold = x >= threshold", new="            satisfy_threshold = x > threshold"),
    dict(name="hit at record end one sample short", file="strax/processing/pulse_processing.py", only="hits",
         old="                        hit_end = i + 1\n", new="                        hit_end = i\n"),
    dict(name="right extension not carried into the next fragment", file="strax/processing/data_reduction.py", only="reduce",
         old="        if end_keep > samples_per_record:", new="        if end_keep > samples_per_record + 1:"),
    dict(name="links ignore the fragment number", file="strax/processing/pulse_processing.py", only="links",
         old='        if r["record_i"] == 0:', new='        if False:'),
]

OBLIGATIONS = [
    Ob("hits", sym_hits, lambda tier: [dict(nrec=1, S=4), dict(nrec=1, S=4, fpart2=True), dict(nrec=2, S=3),
                                       dict(nrec=2, S=3, per_channel=True)] + ([dict(nrec=2, S=4)] if tier != "quick" else []),
       nat_hits, setup=_setup, witnesses=3, max_paths=400000,
       doc="hits == maximal in-record runs >= threshold with time/length/area/height/max_time/record_i"),
    Ob("links", sym_links, lambda tier: [dict(n=n) for n in ((2, 3, 4) if tier == "quick" else (2, 3, 4))], nat_links,
       setup=_setup, witnesses=2, doc="record_links connects exactly the time-adjacent fragments of one channel"),
    Ob("integrate", sym_integrate, lambda tier: [dict()], nat_integrate, setup=_setup, witnesses=1),
    Ob("reduce", sym_reduce, lambda tier: [dict(nfrag=1), dict(nfrag=2)] + ([dict(nfrag=3)] if tier != "quick" else []),
       nat_reduce, setup=_setup, witnesses=3, max_paths=400000,
       doc="cut_outside_hits keeps exactly the samples within the extensions of hits (into adjacent fragments), zeroes "
           "the rest, leaves metadata untouched"),
    Ob("baseline", sym_baseline, lambda tier: [dict(B=2), dict(B=3), dict(B=6), dict(B=3, lo=-40), dict(B=2, flip=False)], nat_baseline, setup=_setup,
       witnesses=2, doc="baseline == mean of the first min(baseline_samples, length) samples; area consistent with it"),
    Ob("cutbase", sym_cutbase, lambda tier: [dict(nfrag=1), dict(nfrag=2)], nat_cutbase, setup=_setup, witnesses=2,
       doc="cut_baseline zeroes exactly the first n_before / last n_after samples of the pulse"),
    Ob("twin", sym_twin, lambda tier: [dict()], None, setup=_setup, expect_cex=True),
]
