"""C19 — peak clustering, merging bookkeeping, replacement and the moving-average helper.

Python source of the njit kernels find_peaks (through growing_result), symmetric_moving_average, replace_merged /
_replace_merged (+ touching_windows), merge_peaks / _merge_peaks on symbolic hit times, lengths, areas, thresholds,
extensions and waveform samples.  Sub-claims of C19 that are NOT decided here are listed in OUTSIDE.
"""
import warnings

import numpy as np

from symx import core, arrays
from symx.core import fresh_int, assume, prove, sand, sor, snot, implies, iff, ite, smax, smin
from symx.run import Ob
from harness import common as H

LEVEL = "model_checking"
FUNCTIONS = ["strax.processing.peak_building.find_peaks", "strax.utils.growing_result",
             "strax.processing.peak_splitting.symmetric_moving_average", "strax.processing.peak_merging.replace_merged",
             "_replace_merged", "strax.processing.general.touching_windows", "strax.processing.peak_merging.merge_peaks",
             "_merge_peaks", "gcd_of_array", "strax.processing.statistics._process_intervals_numba"]
BOUNDS = {
    "quick": "find_peaks: <=4 hits in <=2 channels, times / lengths / areas, gap threshold, extensions, min_area and "
             "max_duration symbolic on Z; moving average: <=6 samples, wing 1..3; replace_merged: <=4 originals x <=2 "
             "merged, symbolic times; merge_peaks: 3 peaks with symbolic areas / n_hits / samples, concrete times; two "
             "groups in one call; two adjacent peaks whose union needs down-sampling (8-sample waveform) followed by "
             "replace_merged; _split_peaks on two-bump waveforms with a symbolic peak time; interval kernel of "
             "highest_density_region: 3-7 samples in [0,9], symbolic level, buffers of 1-3 intervals",
    "thorough": "<=5 hits, <=7 samples",
}
ASSUMPTIONS = ["replace_merged: merged intervals are hulls of disjoint groups of consecutive originals (how merged peaks arise); "
               "merged intervals touching no original, or two of them touching the same original, make _replace_merged "
               "fail its own assertions and are outside the precondition",
               "integer or exact-rational arithmetic: hit areas are integers, gains in {1, 2}; float32 accumulation order "
               "and rounding are not modelled", "hits sorted by time, same dt (documented preconditions of find_peaks)",
               "find_peaks' own assertion gap_threshold > left+right extension is a precondition"]
OUTSIDE = ["sum_waveform / store_downsampled_waveform / _build_hit_waveform (waveform summing)", "PeakSplitter.__call__ "
           "beyond _split_peaks' tiling (the re-summing of the fragments)", "index_of_fraction / compute_widths / compute_center_time",
           "highest_density_region beyond its interval kernel (sorting, float fractions)", "add_lone_hits", "IEEE rounding", "merge_peaks waveform buffers with symbolic times"]
STUBS = ["np constructors -> object arrays", "min/max/int shims"]


def _setup():
    import strax.processing.peak_building as pb
    import strax.processing.peak_merging as pm
    import strax.processing.peak_splitting as ps

    def extra(inj):
        for m in (pb, pm, ps):
            inj.inject_default(m, which=("np", "int", "min", "max"))

    warnings.simplefilter("ignore")
    return H.setup_strax(extra=extra)


# ---------------------------------------------------------------------------- moving average
def sym_sma(n, w):
    import strax

    xs = [fresh_int(f"a{i}", -50, 50) for i in range(n)]
    a = np.empty(n, dtype=object)
    for i, x in enumerate(xs):
        a[i] = x
    out = strax.processing.peak_splitting.symmetric_moving_average(a.view(arrays.SArr), w)
    for i in range(n):
        lo, hi = max(0, i - w), min(n, i + w + 1)
        want_sum = core.ssum(xs[lo:hi], 0)
        # out[i] * count == sum over the window
        prove(out[i] * (hi - lo) == want_sum, f"sma:sample {i} is not the mean over [i-{w}, i+{w}]")
    return n


def nat_sma(params, model):
    import strax

    n, w = params["n"], params["w"]
    a = np.array([model[f"a{i}"] for i in range(n)], dtype=np.float64)
    out = strax.processing.peak_splitting.symmetric_moving_average(a, w)
    want = [a[max(0, i - w): i + w + 1].mean() for i in range(n)]
    ok = all(abs(o - x) < 1e-9 for o, x in zip(out, want))
    return {"ok": ok, "detail": f"a={a.tolist()} wing={w} got={np.round(out, 3).tolist()} want={np.round(want, 3).tolist()}"}


# ---------------------------------------------------------------------------- highest-density region: interval kernel
def _hdr_ind(n, pick):
    """the samples above a level: positions i with x_i >= level"""
    return [i for i in range(n) if pick(i)]


def _hdr_runs(ind):
    runs = []
    for i in ind:
        if runs and runs[-1][1] == i:
            runs[-1][1] = i + 1
        else:
            runs.append([i, i + 1])
    return runs


def _hdr_call(ind, B):
    import strax.processing.statistics as ss

    ind_a = np.array(ind, dtype=np.int64)
    # the caller's own lines (highest_density_region)
    gaps = np.arange(1, len(ind_a) + 1)
    diff = ind_a[1:] - ind_a[:-1]
    gaps = gaps[:-1][diff > 1]
    pad = 3  # the result buffer is followed by the rows of the next fractions: writes beyond row 0 land there
    res = np.zeros((pad, 2, B), dtype=np.int32)
    fi, res = ss._process_intervals_numba(ind_a, gaps, 0, res, 0, B)
    return fi, res


def _hdr_verdict(ind, B, fi, res):
    runs = _hdr_runs(ind)
    if (res[1:] != 0).any():
        return f"hdr:{len(runs)} intervals, buffer {B}: rows of OTHER fractions were overwritten"
    if len(runs) > B:
        return None if (res[0] == -1).all() else f"hdr:{len(runs)} intervals do not fit the buffer of {B} but no overflow flag: {res[0].tolist()}"
    got = [[int(res[0, 0, q]), int(res[0, 1, q])] for q in range(len(runs))]
    return None if got == runs and fi == 1 else f"hdr:intervals {got} instead of {runs} (buffer {B})"


def sym_hdr(n, B):
    xs = [fresh_int(f"x{i}", 0, 9) for i in range(n)]
    level = fresh_int("level", 1, 9)
    ind = _hdr_ind(n, lambda i: bool(xs[i] >= level))
    if not ind:
        raise core.PathAbort("no sample above the level")
    fi, res = _hdr_call(ind, B)
    v = _hdr_verdict(ind, B, fi, res)
    prove(v is None, v or "hdr")
    return len(_hdr_runs(ind))


def nat_hdr(params, model):
    n, B = params["n"], params["B"]
    lvl = model.get("level", 1) or 1
    ind = _hdr_ind(n, lambda i: (model.get(f"x{i}", 0) or 0) >= lvl)
    if not ind:
        return {"ok": True, "detail": "no sample"}
    fi, res = _hdr_call(ind, B)
    v = _hdr_verdict(ind, B, fi, res)
    return {"ok": v is None, "detail": v or "intervals are the maximal runs / overflow flagged", "label": v}


# ---------------------------------------------------------------------------- find_peaks
def _hits(n, sym, model=None):
    import strax

    hits = []
    prev = None
    for i in range(n):
        if sym:
            t = fresh_int(f"t{i}", 0, 2**40); l = fresh_int(f"l{i}", 1, 2**20); ar = fresh_int(f"ar{i}", 0, 1000)
            if prev is not None:
                assume(t >= prev)
        else:
            t, l, ar = model[f"t{i}"], model[f"l{i}"], model[f"ar{i}"]
        prev = t
        hits.append(dict(time=t, length=l, area=ar, channel=i % 2))
    return hits


def _hit_arr(hits, obj, dt=1):
    import strax

    D = np.dtype(strax.hit_dtype)
    a = arrays.make(D, len(hits)) if obj else np.zeros(len(hits), D)
    for i, h in enumerate(hits):
        a["time"][i], a["length"][i], a["dt"][i], a["area"][i], a["channel"][i] = h["time"], h["length"], dt, h["area"], h["channel"]
    return a


def _clusters(hits, gap, le, re, maxdur):
    """Definition: a new peak starts when the next hit is >= gap after the running end, or the peak would get too long."""
    out, cur, end = [], [], None
    for i, h in enumerate(hits):
        t0, t1 = h["time"], h["time"] + h["length"]
        if not cur:
            cur, end, start = [i], t1, t0 - le
        else:
            cur.append(i)
            end = smax(end, t1)
        last = i == len(hits) - 1
        if not last:
            nh = hits[i + 1]
            far = nh["time"] - end >= gap
            # duration of the peak if the next hit joined it: from (first hit - left extension) to (its end + right
            # extension); start already contains the left extension
            toolong = (nh["time"] + nh["length"] + re - start) > maxdur
            cut = bool(sor(far, toolong))
        if last or cut:
            out.append((cur, start, end, (not last) and bool(far)))
            cur = []
    return out


def sym_peaks(n, minch=1):
    import strax

    hits = _hits(n, True)
    gap = fresh_int("gap", 1, 2**30); le = fresh_int("le", 0, 2**20); re = fresh_int("re", 0, 2**20)
    assume(gap > le + re)
    minarea = fresh_int("minarea", 0, 3000)
    maxdur = fresh_int("maxdur", 1, 2**36)  # find_peaks asserts left + max_duration + right < 429496729400
    PD = np.dtype(strax.peak_dtype(n_channels=2, n_sum_wv_samples=4))
    peaks = strax.find_peaks(_hit_arr(hits, True), np.array([1, 2]), gap_threshold=gap, left_extension=le, right_extension=re,
                             min_area=minarea, min_channels=minch, max_duration=maxdur, result_dtype=arrays.obj_dtype(PD))
    want = []
    for idx, start, end, far_cut in _clusters(hits, gap, le, re, maxdur):
        area = core.ssum([hits[i]["area"] * (1 if hits[i]["channel"] == 0 else 2) for i in idx], 0)
        per = [core.ssum([hits[i]["area"] for i in idx if hits[i]["channel"] == 0], 0),
               core.ssum([hits[i]["area"] * 2 for i in idx if hits[i]["channel"] == 1], 0)]
        nch = core.ssum([ite(p != 0, 1, 0) for p in per], 0)
        if bool(area < minarea) or bool(nch < minch):
            continue
        want.append(dict(time=start, end=end + re, area=area, n_hits=len(idx), per=per, far_cut=far_cut))
    prove(len(peaks) == len(want), f"peaks:{len(peaks)} peaks, the gap-threshold clusters (after cuts) are {len(want)}")
    prev_end, prev_far = None, True
    for p, w in zip(peaks, want):
        prove(p["time"] == w["time"], "peaks:start is not first hit - left extension")
        prove(p["time"] + p["length"] * p["dt"] == w["end"], "peaks:end is not last hit end + right extension")
        prove(p["area"] == w["area"], "peaks:area is not the gain-weighted sum of its hits")
        prove(p["n_hits"] == w["n_hits"], "peaks:n_hits")
        prove(sand(p["area_per_channel"][0] == w["per"][0], p["area_per_channel"][1] == w["per"][1]), "peaks:area per channel")
        if prev_end is not None:
            if prev_far:
                prove(p["time"] >= prev_end, "peaks:peaks separated by a gap >= threshold overlap / out of order")
            else:
                prove(p["time"] >= prev_end, "peaks:peaks overlap after a max_duration cut")
        prev_end, prev_far = w["end"], w["far_cut"]
    return len(want)


def nat_peaks(params, model):
    import strax

    n, minch = params["n"], params.get("minch", 1)
    hits = _hits(n, False, model)
    gap, le, re, minarea, maxdur = (model[k] for k in ("gap", "le", "re", "minarea", "maxdur"))
    peaks = strax.find_peaks(_hit_arr(hits, False), np.array([1., 2.]), gap_threshold=gap, left_extension=le,
                             right_extension=re, min_area=minarea, min_channels=minch, max_duration=maxdur,
                             result_dtype=np.dtype(strax.peak_dtype(n_channels=2, n_sum_wv_samples=4)))
    want = []
    for idx, start, end, far_cut in _clusters(hits, gap, le, re, maxdur):
        area = sum(hits[i]["area"] * (1 if hits[i]["channel"] == 0 else 2) for i in idx)
        nch = len({hits[i]["channel"] for i in idx if hits[i]["area"] != 0})
        if area < minarea or nch < minch:
            continue
        per = [sum(hits[i]["area"] * (1 if c == 0 else 2) for i in idx if hits[i]["channel"] == c) for c in (0, 1)]
        want.append((start, end + re, area, len(idx), per))
    got = [(int(p["time"]), int(p["time"] + p["length"] * p["dt"]), float(p["area"]), int(p["n_hits"]),
            [float(x) for x in p["area_per_channel"]]) for p in peaks]
    ok = len(got) == len(want) and all(g[0] == w[0] and g[1] == w[1] and abs(g[2] - w[2]) < 1e-3 and g[3] == w[3]
                                       and all(abs(a - b) < 1e-3 for a, b in zip(g[4], w[4]))
                                       for g, w in zip(got, want))
    if ok and any(got[i + 1][0] < got[i][1] for i in range(len(got) - 1)):
        return {"ok": False, "label": "peaks:peaks overlap after a max_duration cut",
                "detail": f"peaks overlap in time: {[(g[0], g[1]) for g in got]} (hits {[(h['time'], h['time'] + h['length']) for h in hits]}, "
                          f"gap {gap}, extensions {le}/{re}, max_duration {maxdur})"}
    return {"ok": ok, "detail": f"got {got} want {want}"}


# ---------------------------------------------------------------------------- replace_merged
def sym_replace(no, groups):
    """merge = hulls of disjoint groups of consecutive originals (how merged peaks arise)."""
    import strax

    ot, oe = H.sym_times("o", no, disjoint=True)
    mt = [ot[a] for a, b in groups]
    me = [oe[b] for a, b in groups]
    nm = len(groups)
    orig, merge = H.arr_end(ot, oe), H.arr_end(mt, me, ids=[100 + j for j in range(nm)])
    res = strax.replace_merged(orig, merge)
    ids = [int(x) for x in res["id"]]
    inside = {i for a, b in groups for i in range(a, b + 1)}
    want = sorted([i for i in range(no) if i not in inside] + [100 + j for j in range(nm)],
                  key=lambda x: (groups[x - 100][0] if x >= 100 else x, 0 if x >= 100 else 1))
    prove(ids == want, f"replace:result {ids} is not the merged intervals plus the untouched originals in time order {want}")
    for q, i in enumerate(ids):
        t, e = (ot[i], oe[i]) if i < 100 else (mt[i - 100], me[i - 100])
        prove(sand(res["time"][q] == t, res["endtime"][q] == e), "replace:content changed")
        if q:
            prove(res["time"][q] >= res["endtime"][q - 1], "replace:result not ordered / overlapping")
    return ids


def nat_replace(params, model):
    import strax

    no, groups = params["no"], params["groups"]
    orig = H.conc_end(model, "o", no)
    merge = np.zeros(len(groups), dtype=orig.dtype)
    for j, (a, b) in enumerate(groups):
        merge[j] = (orig["time"][a], orig["endtime"][b], 100 + j)
    with warnings.catch_warnings():
        warnings.simplefilter("ignore")
        res = strax.replace_merged(orig, merge)
    inside = {i for a, b in groups for i in range(a, b + 1)}
    want = sorted([int(o["id"]) for o in orig if int(o["id"]) not in inside] + [100 + j for j in range(len(groups))])
    ok = sorted(int(x) for x in res["id"]) == want and bool(np.all(np.diff(res["time"]) >= 0))
    return {"ok": ok, "detail": f"got {res['id'].tolist()} want (as set) {want}"}


# ---------------------------------------------------------------------------- merge_peaks bookkeeping
def sym_merge():
    import strax

    PD = np.dtype(strax.peak_dtype(n_channels=2, n_sum_wv_samples=16))  # no down-sampling: 13 samples fit
    n = 3
    peaks = arrays.make(PD, n)
    times, lens = [10, 14, 19], [3, 2, 4]
    ar = [fresh_int(f"ar{i}", 0, 10**6) for i in range(n)]
    nh = [fresh_int(f"nh{i}", 0, 1000) for i in range(n)]
    for i in range(n):
        peaks["time"][i], peaks["length"][i], peaks["dt"][i], peaks["area"][i], peaks["n_hits"][i] = times[i], lens[i], 1, ar[i], nh[i]
        peaks["channel"][i] = -1
    merged = strax.merge_peaks(peaks, np.array([0]), np.array([3]), max_buffer=64)
    prove(len(merged) == 1, "merge:count")
    prove(merged["time"][0] == times[0], "merge:start is not the first peak's start")
    prove(merged["time"][0] + merged["length"][0] * merged["dt"][0] == times[-1] + lens[-1], "merge:end is not the last peak's end")
    prove(merged["area"][0] == core.ssum(ar, 0), "merge:area is not the sum of the merged areas")
    prove(merged["n_hits"][0] == core.ssum(nh, 0), "merge:n_hits is not the sum")
    return "ok"


def _merge_seq_inputs(mk, val):
    """Two merge groups handled by ONE merge_peaks call (the scratch buffers are shared between groups):
    A = peaks 0,1 spanning 20 samples (more than the 8-sample waveform field: down-sampled), B = peaks 2,3 spanning
    8 samples with a 5-sample hole between them (fits: not down-sampled)."""
    spec = [(0, 8), (12, 8), (100, 2), (107, 1)]  # (time, length), dt = 1
    peaks = mk(len(spec))
    vals = []
    for i, (t, l) in enumerate(spec):
        peaks["time"][i], peaks["length"][i], peaks["dt"][i], peaks["channel"][i] = t, l, 1, -1
        # two samples symbolic (the one of A that sits where B's hole will be, and one of B); merge_peaks branches
        # on sample values (2^17 paths with all 19 symbolic), the others are distinct concrete values
        row = [val(f"d{i}_{k}") if (i, k) in ((0, 6), (2, 0)) else 3 + 5 * i + k for k in range(l)]
        vals.append(row)
        for k in range(l):
            peaks["data"][i][k] = row[k]
        peaks["area"][i] = sum(row[1:], row[0])
        peaks["n_hits"][i] = 1
    return peaks, spec, vals


def _merge_seq_check(merged, spec, vals):
    prove(len(merged) == 2, "merge_seq:count")
    b = merged[1]
    prove(sand(b["time"] == 100, b["length"] == 8, b["dt"] == 1), "merge_seq:span of the second merged peak")
    want = [0] * 8
    for (t, l), row in zip(spec[2:], vals[2:]):
        for k in range(l):
            want[t - 100 + k] = row[k]
    for k in range(8):
        prove(b["data"][k] == want[k], f"merge_seq:sample {k} of the second merged peak is not the sum of its constituents "
                                       f"(left over from the group merged before it?)")
    prove(b["area"] == sum(vals[2][1:], vals[2][0]) + vals[3][0], "merge_seq:area of the second merged peak")
    return "ok"


def sym_merge_seq():
    import strax

    PD = np.dtype(strax.peak_dtype(n_channels=2, n_sum_wv_samples=8))
    peaks, spec, vals = _merge_seq_inputs(lambda n: arrays.make(PD, n), lambda nm: fresh_int(nm, 1, 1000))
    merged = strax.merge_peaks(peaks, np.array([0, 2]), np.array([2, 4]), max_buffer=64)
    return _merge_seq_check(merged, spec, vals)


def nat_merge_seq(params, model):
    import strax

    PD = np.dtype(strax.peak_dtype(n_channels=2, n_sum_wv_samples=8))
    peaks, spec, vals = _merge_seq_inputs(lambda n: np.zeros(n, PD), lambda nm: model.get(nm, 1))
    merged = strax.merge_peaks(peaks, np.array([0, 2]), np.array([2, 4]), max_buffer=64)
    label = core.concrete_run(lambda: _merge_seq_check(merged, spec, vals), model)
    return {"ok": label is None, "detail": label or f"second merged waveform {merged[1]['data'].tolist()}", "label": label}


# ---------------------------------------------------------------------------- splitting tiles the parent peak
WAVES = {  # two bumps with a valley: both splitters cut once
    "a": [5, 9, 5, 0, 0, 0, 0, 5, 9, 5],
    "b": [1, 8, 1, 0, 7, 9, 2],
    "c": [3, 9, 0, 0, 9, 9, 9, 3],
}


def _split_children(mk, t, dt, wave, algo):
    import strax
    from strax.processing import peak_splitting as ps

    w = WAVES[wave]
    PD = np.dtype(strax.peak_dtype(n_channels=2, n_sum_wv_samples=len(w)))
    p = mk(PD, 1)
    p["time"][0], p["length"][0], p["dt"][0], p["channel"][0] = t, len(w), dt, -1
    for k, v in enumerate(w):
        p["data"][0][k] = float(v)
    p["area"][0] = float(sum(w))
    S, args = (ps.NaturalBreaksSplitter, (np.array([0.1]), False, False, 0)) if algo == "natural_breaks" else \
        (ps.LocalMinimumSplitter, (1.0, 0.0))
    is_split = np.zeros(1, dtype=bool)
    out = S._split_peaks(split_finder=S.find_split_points, peaks=p, is_split=is_split, orig_dt=dt, min_area=0,
                         args_options=args, result_dtype=PD)
    return out, len(w)


def _split_check(out, t, dt, n):
    prove(len(out) >= 2, "split:the two-bump waveform was not split (harness precondition)")
    prove(out["time"][0] == t, "split:first fragment does not start at the parent's start")
    for k in range(len(out) - 1):
        prove(out["time"][k] + out["length"][k] * out["dt"][k] == out["time"][k + 1],
              "split:consecutive fragments are not adjacent")
    prove(out["time"][-1] + out["length"][-1] * out["dt"][-1] == t + n * dt,
          "split:fragments do not cover the parent up to its end (time not conserved)")
    return [int(x) for x in out["length"]]


def sym_split(algo, wave, dt):
    t = fresh_int("t", 0, 2**60)
    out, n = _split_children(lambda d, k: arrays.make(d, k), t, dt, wave, algo)
    return _split_check(out, t, dt, n)


def nat_split(params, model):
    t = model["t"]
    out, n = _split_children(lambda d, k: np.zeros(k, d), t, params["dt"], params["wave"], params["algo"])
    label = core.concrete_run(lambda: _split_check(out, t, params["dt"], n), model)
    return {"ok": label is None, "label": label,
            "detail": label or f"fragments {[(int(o['time']), int(o['length'])) for o in out]} tile the parent"}


def _replace_grid(tier):
    out = []
    for n in range(1, 6 if tier == "quick" else 7):
        spans = [(a, b) for a in range(n) for b in range(a, n)]
        for g1 in spans:
            out.append((n, [list(g1)]))
            for g2 in spans:
                if g2[0] > g1[1]:
                    out.append((n, [list(g1), list(g2)]))
    return out


# ---------------------------------------------------------------------------- merge with down-sampling, then replace
def _merge_down(mk, val, l1, l2, ns):
    import strax

    peaks = mk(2)
    spec = [(0, l1), (l1, l2)]
    ar = []
    for i, (t, l) in enumerate(spec):
        peaks["time"][i], peaks["length"][i], peaks["dt"][i], peaks["channel"][i], peaks["n_hits"][i] = t, l, 1, -1, 1
        a = val(f"ar{i}")
        ar.append(a)
        peaks["area"][i] = a
        for k in range(min(l, ns)):
            peaks["data"][i][k] = 1
    merged = strax.merge_peaks(peaks, np.array([0]), np.array([2]), max_buffer=64)
    out = strax.replace_merged(peaks, merged)
    return peaks, merged, out, ar


def _merge_down_check(merged, out, ar, l1, l2):
    end = merged["time"][0] + merged["length"][0] * merged["dt"][0]
    prove(end >= l1 + l2, f"merge_down:merged peak ends at {end}, before the end {l1 + l2} of its last constituent "
                          f"(down-sampled length floored)")
    prove(len(out) == 1, f"merge_down:replace_merged keeps {len(out)} peaks: a constituent survives next to the merged peak")
    tot = out["area"][0]
    for q in range(1, len(out)):
        tot = tot + out["area"][q]
    prove(tot == ar[0] + ar[1], "merge_down:total area after replace_merged is not the area before")
    return "ok"


def sym_merge_down(l1, l2, ns=4):
    import strax

    PD = np.dtype(strax.peak_dtype(n_channels=2, n_sum_wv_samples=ns))
    peaks, merged, out, ar = _merge_down(lambda n: arrays.make(PD, n), lambda nm: fresh_int(nm, 0, 10**6), l1, l2, ns)
    return _merge_down_check(merged, out, ar, l1, l2)


def nat_merge_down(params, model):
    import strax

    l1, l2, ns = params["l1"], params["l2"], params.get("ns", 4)
    PD = np.dtype(strax.peak_dtype(n_channels=2, n_sum_wv_samples=ns))
    peaks, merged, out, ar = _merge_down(lambda n: np.zeros(n, PD), lambda nm: model.get(nm, 0) or 0, l1, l2, ns)
    label = core.concrete_run(lambda: _merge_down_check(merged, out, ar, l1, l2), model)
    return {"ok": label is None, "detail": label or "merged peak spans its constituents; area conserved", "label": label}


# ---------------------------------------------------------------------------- find_peaks: sampling grid
def _grid_inputs(val):
    return dict(t=val("t", 0, 1000), l=val("l", 1, 20), le=val("le", 0, 30), re=val("re", 0, 30))


def sym_peakgrid(dt):
    """one hit with dt > 1 and extensions that need not be multiples of dt: the peak still spans the hit plus its
    extensions (it may overshoot by less than one sample)"""
    import strax

    v = _grid_inputs(lambda n, lo, hi: fresh_int(n, lo, hi))
    PD = np.dtype(strax.peak_dtype(n_channels=2, n_sum_wv_samples=4))
    hits = [dict(time=v["t"], length=v["l"], area=5, channel=0)]
    peaks = strax.find_peaks(_hit_arr(hits, True, dt), np.array([1, 2]), gap_threshold=100, left_extension=v["le"],
                             right_extension=v["re"], min_area=0, min_channels=1, max_duration=10**7,
                             result_dtype=arrays.obj_dtype(PD))
    prove(len(peaks) == 1, "peakgrid:count")
    p = peaks[0]
    # the length field is an integer number of samples: what is stored is the truncated quotient
    length = core.trunc(p["length"]) if isinstance(p["length"], core.SymReal) else p["length"]
    end = p["time"] + length * dt
    want = v["t"] + v["l"] * dt + v["re"]
    prove(p["time"] == v["t"] - v["le"], "peakgrid:start is not hit start - left extension")
    prove(sand(end >= want, end < want + dt), f"peakgrid:peak (dt {dt}) does not span its hit plus the right extension")
    return "ok"


def nat_peakgrid(params, model):
    import strax

    dt = params["dt"]
    v = _grid_inputs(lambda n, lo, hi: model.get(n, lo) or lo if n == "l" else (model.get(n, 0) or 0))
    PD = np.dtype(strax.peak_dtype(n_channels=2, n_sum_wv_samples=4))
    hits = [dict(time=v["t"], length=v["l"], area=5, channel=0)]
    peaks = strax.find_peaks(_hit_arr(hits, False, dt), np.array([1., 2.]), gap_threshold=100, left_extension=v["le"],
                             right_extension=v["re"], min_area=0, min_channels=1, max_duration=10**7, result_dtype=PD)
    p = peaks[0]
    end = int(p["time"]) + int(p["length"]) * dt
    want = v["t"] + v["l"] * dt + v["re"]
    ok = len(peaks) == 1 and int(p["time"]) == v["t"] - v["le"] and want <= end < want + dt
    return {"ok": bool(ok), "label": f"peakgrid:peak (dt {dt}) does not span its hit plus the right extension",
            "detail": f"hit [{v['t']}, {v['t'] + v['l'] * dt}) dt {dt}, extensions {v['le']}/{v['re']}: peak [{int(p['time'])}, {end}), "
                      f"hit end + right extension = {want}"}


def sym_twin():
    sym_sma(3, 1)
    prove(False, "twin:reachable")


MUTANTS = [
    dict(name="peak length truncated on a coarse grid (original defect F-C19h)", file="strax/processing/peak_building.py", only="peakgrid",
         old='            p["length"] = (peak_endtime - p["time"] + right_extension + dt - 1) // dt',
         new='            p["length"] = (peak_endtime - p["time"] + right_extension) // dt'),
    dict(name="max_duration cut counts the left extension twice (original defect F-C19f)", file="strax/processing/peak_building.py",
         only="peaks", old="                + next_hit[\"dt\"] * next_hit[\"length\"]\n                + right_extension",
         new="                + next_hit[\"dt\"] * next_hit[\"length\"]\n                + left_extension\n                + right_extension"),
    dict(name="hdr overflow guard counts gaps, not intervals (original defect F-C19e)", file="strax/processing/statistics.py",
         only="hdr", old="    if len(gaps) + 1 > _buffer_size:", new="    if len(gaps) > _buffer_size:"),
    dict(name="original F-C19d: natural breaks splitter ends one sample early", file="strax/processing/peak_splitting.py", only="split",
         old="            yield max_i, 0.0\n            yield len(w), 0.0", new="            yield max_i, 0.0\n            yield len(w) - 1, 0.0"),
    dict(name="merge buffer not re-zeroed between groups (the comment calls it overkill)", file="strax/processing/peak_merging.py", only="merge_seq",
         old="        buffer[:bl] = 0\n", new="        pass\n"),
    dict(name="gap threshold strict", file="strax/processing/peak_building.py", only="peaks",
         old='            next_hit_is_far = next_hit["time"] - peak_endtime >= gap_threshold',
         new='            next_hit_is_far = next_hit["time"] - peak_endtime > gap_threshold'),
    dict(name="peak end forgets the right extension", file="strax/processing/peak_building.py", only="peaks",
         old='            p["length"] = (peak_endtime - p["time"] + right_extension + dt - 1) // dt', new='            p["length"] = (peak_endtime - p["time"] + dt - 1) // dt'),
    dict(name="replace_merged drops the last merged interval", file="strax/processing/peak_merging.py", only="replace",
         old="    if skip_end == n_orig:", new="    if False:"),
    dict(name="original F-C19: sample 0 never leaves the window", file="strax/processing/peak_splitting.py", only="sma",
         old="        if just_out >= 0:", new="        if just_out > 0:"),
]

OBLIGATIONS = [
    Ob("sma", sym_sma, lambda tier: [dict(n=n, w=w) for n in range(1, 7 if tier == "quick" else 8) for w in (1, 2, 3)], nat_sma,
       setup=_setup, witnesses=2, doc="symmetric_moving_average == mean(a[max(0,i-w) : i+w+1])"),
    Ob("peaks", sym_peaks, lambda tier: [dict(n=n, minch=m) for n in range(1, 5 if tier == "quick" else 6) for m in (1, 2)],
       nat_peaks, setup=_setup, witnesses=3, max_paths=400000,
       doc="find_peaks == gap-threshold clusters subject to duration / area / channel cuts; span, area, n_hits"),
    Ob("replace", sym_replace, lambda tier: [dict(no=n, groups=g) for n, g in _replace_grid(tier)], nat_replace,
       setup=_setup, witnesses=2, doc="replace_merged == merged + originals touching none of them, sorted"),
    Ob("merge", sym_merge, lambda tier: [dict()], None, setup=_setup, witnesses=0),
    Ob("split", sym_split, lambda tier: [dict(algo=a, wave=w, dt=d) for a in ("natural_breaks", "local_minimum")
                                         for w in WAVES for d in (1, 10)], nat_split, setup=_setup, witnesses=1,
       doc="_split_peaks with each splitter's real find_split_points on two-bump waveforms, symbolic peak time: the "
           "fragments tile the parent peak"),
    Ob("merge_seq", sym_merge_seq, lambda tier: [dict()], nat_merge_seq, setup=_setup, witnesses=1,
       doc="two groups in one merge_peaks call (first down-sampled, second with a hole): the second merged waveform is "
           "the sum of its own constituents only"),
    Ob("merge_down", sym_merge_down, lambda tier: [dict(l1=6, l2=2, ns=8), dict(l1=8, l2=8, ns=8), dict(l1=8, l2=1, ns=8), dict(l1=7, l2=4, ns=8)],
       nat_merge_down, setup=_setup, witnesses=1,
       doc="merge_peaks with down-sampling, then replace_merged: the merged peak reaches the end of its last constituent, "
           "no constituent survives, total area conserved"),
    Ob("peakgrid", sym_peakgrid, lambda tier: [dict(dt=1), dict(dt=2), dict(dt=10)], nat_peakgrid, setup=_setup, witnesses=2,
       doc="find_peaks on a coarser sampling grid: the peak spans hit + extensions up to one sample"),
    Ob("hdr", sym_hdr, lambda tier: [dict(n=n, B=B) for n, B in ((3, 1), (5, 2), (6, 2), (7, 3))], nat_hdr, setup=_setup,
       witnesses=2, doc="_process_intervals_numba (highest_density_region): the intervals are the maximal runs of "
                        "samples above a symbolic level, or the overflow flag when they do not fit the buffer; nothing "
                        "outside the fraction's own row is written"),
    Ob("twin", sym_twin, lambda tier: [dict()], None, setup=_setup, expect_cex=True),
]
