"""Shared harness helpers: symbolic interval rows, shims setup, concrete reconstruction."""
import logging
import os

import numpy as np

from symx import core, arrays
from symx.core import fresh_int, assume, prove, sand, sor, ite, is_sym

T_MAX = 2**62  # no-overflow assumption on all int64 time values

DT_END = np.dtype([("time", np.int64), ("endtime", np.int64), ("id", np.int64)])
DT_LEN = np.dtype([("time", np.int64), ("length", np.int32), ("dt", np.int16), ("id", np.int64)])


def sym_times(prefix, n, *, sorted_=True, positive=True, disjoint=False, lo=0, hi=T_MAX,
              allow_zero=False):
    """n symbolic intervals (t_i, e_i) with the requested (documented) preconditions assumed."""
    ts, es = [], []
    for i in range(n):
        t = fresh_int(f"{prefix}t{i}", lo, hi)
        e = fresh_int(f"{prefix}e{i}", lo, hi)
        if positive and not allow_zero:
            assume(e > t)
        else:
            assume(e >= t)
        if i and sorted_:
            assume(t >= ts[-1])
        if i and disjoint:
            assume(t >= es[-1])
        ts.append(t)
        es.append(e)
    return ts, es


def arr_end(ts, es, ids=None):
    a = arrays.make(DT_END, len(ts))
    for i in range(len(ts)):
        a["time"][i] = ts[i]
        a["endtime"][i] = es[i]
        a["id"][i] = i if ids is None else ids[i]
    return a


def sym_len_intervals(prefix, n, dt, *, sorted_=True, disjoint=False, lo=0, hi=T_MAX, min_len=1,
                      max_len=None):
    # strax.endtime multiplies the int32 `length` by the int16 `dt` in int32: the proxies are mathematical integers,
    # so the claim is restricted to products that fit (the region beyond is decided by C17's `endtime` obligation)
    if max_len is None:
        max_len = (2**31 - 1) // max(int(dt), 1)
    ts, ls = [], []
    for i in range(n):
        t = fresh_int(f"{prefix}t{i}", lo, hi)
        l = fresh_int(f"{prefix}l{i}", min_len, max_len)
        if i and sorted_:
            assume(t >= ts[-1])
        if i and disjoint:
            assume(t >= ts[-1] + ls[-1] * dt)
        ts.append(t)
        ls.append(l)
    return ts, ls


def arr_len(ts, ls, dt, ids=None):
    a = arrays.make(DT_LEN, len(ts))
    for i in range(len(ts)):
        a["time"][i] = ts[i]
        a["length"][i] = ls[i]
        a["dt"][i] = dt
        a["id"][i] = i if ids is None else ids[i]
    return a


def conc_end(model, prefix, n):
    a = np.zeros(n, dtype=DT_END)
    for i in range(n):
        a["time"][i] = model[f"{prefix}t{i}"]
        a["endtime"][i] = model[f"{prefix}e{i}"]
        a["id"][i] = i
    return a


def conc_len(model, prefix, n, dt):
    a = np.zeros(n, dtype=DT_LEN)
    for i in range(n):
        a["time"][i] = model[f"{prefix}t{i}"]
        a["length"][i] = model[f"{prefix}l{i}"]
        a["dt"][i] = dt
        a["id"][i] = i
    return a


def make_intervals(enc, prefix, n, **kw):
    """-> (array, ts, es) in either endtime encoding ('end' or ('len', dt))."""
    if enc == "end":
        ts, es = sym_times(prefix, n, **kw)
        return arr_end(ts, es), ts, es
    dt = enc[1]
    kw.pop("positive", None)
    if kw.pop("allow_zero", False):
        kw["min_len"] = 0
    ts, ls = sym_len_intervals(prefix, n, dt, **kw)
    es = [t + l * dt for t, l in zip(ts, ls)]
    return arr_len(ts, ls, dt), ts, es


def conc_intervals(enc, model, prefix, n):
    if enc == "end":
        return conc_end(model, prefix, n)
    return conc_len(model, prefix, n, enc[1])


def enc_list(tier):
    return ["end", ["len", 2]] if tier == "quick" else ["end", ["len", 1], ["len", 2], ["len", 10]]


def norm_enc(enc):
    return "end" if enc == "end" else ("len", int(enc[1]))


def endtimes(a):
    a = np.asarray(a)
    if "endtime" in a.dtype.names:
        return a["endtime"].astype(np.int64)
    return a["time"].astype(np.int64) + a["length"].astype(np.int64) * a["dt"].astype(np.int64)


# --------------------------------------------------------------------------------------
def setup_strax(modules=None, extra=None):
    """Inject the np / builtin shims into the strax modules under analysis; stub formatting."""
    import strax

    logging.disable(logging.CRITICAL)
    inj = arrays.Injector()
    import strax.chunk, strax.processing.general, strax.utils

    default = [strax.chunk, strax.processing.general, strax.utils]
    for m in modules if modules is not None else default:
        inj.inject_default(m)
    # formatting is behaviour-free and forks on symbolic durations: constant stubs
    inj.set(strax.Chunk, "__repr__", lambda self: "<chunk>")
    if extra:
        extra(inj)
    return inj


def expect_raises(exc_types, fn, *a, **k):
    """Run fn; return (raised: bool, value_or_exception)."""
    try:
        return False, fn(*a, **k)
    except exc_types as e:
        return True, e
