"""Context-level harness infrastructure: in-memory storage frontend (real StorageFrontend / StorageBackend /
Saver base classes), symbolic sources, harness plugins, shim setup for whole-Context symbolic runs."""
import logging
import warnings

import numpy as np

from symx import core, arrays, conc
from symx.core import fresh_int, fresh_bool, assume, prove, sand, sor, snot, implies, iff, ite, smax, smin
from harness import common as H

T_MAX = H.T_MAX


# ======================================================================================
def setup(extra_modules=()):
    """Shims for every strax module that touches symbolic times during a Context run."""
    import strax
    import strax.chunk, strax.utils, strax.context, strax.processing.general
    import strax.plugins.plugin, strax.plugins.overlap_window_plugin, strax.plugins.loop_plugin
    import strax.plugins.down_chunking_plugin, strax.plugins.exhaust_plugin, strax.plugins.merge_only_plugin
    import strax.storage.common, strax.processors.post_office, strax.processors.single_thread
    import strax.processors.threaded_mailbox, strax.mailbox

    logging.disable(logging.CRITICAL)
    warnings.simplefilter("ignore")
    inj = arrays.Injector()
    for m in (strax.chunk, strax.processing.general, strax.utils, strax.plugins.plugin,
              strax.plugins.overlap_window_plugin, strax.plugins.loop_plugin, strax.storage.common,
              strax.context) + tuple(extra_modules):
        which = [k for k in ("np", "int", "min", "max") if k != "np" or "np" in m.__dict__]
        inj.inject_default(m, which=which)
    inj.set(strax.Chunk, "__repr__", lambda self: "<chunk>")
    inj.inject(strax.plugins.plugin, print=lambda *a, **k: None)
    inj.set(strax.Context, "_update_progress_bar", staticmethod(lambda *a, **k: None))
    return inj


# ======================================================================================
# in-memory storage (harness side subclasses of the real abstract classes)
def _bk(key):
    return f"{key._run_id}-{key.data_type}-{key.lineage_hash}"


class MemBackend:
    pass


def make_storage_classes():
    import strax

    class MemBackend(strax.StorageBackend):
        def __init__(self):
            self.store = {}  # backend key -> {"md": dict, "chunks": {chunk_i: array}}

        def _get_metadata(self, backend_key, **kw):
            if backend_key not in self.store:
                raise strax.DataNotAvailable(backend_key)
            return self.store[backend_key]["md"]

        def _read_chunk(self, backend_key, chunk_info, dtype, compressor):
            return self.store[backend_key]["chunks"][chunk_info["chunk_i"]]

        def _saver(self, key, metadata, **kw):
            kw.pop("saver_timeout", None)
            return MemSaver(key, metadata, self)

    class MemSaver(strax.Saver):
        def __init__(self, key, metadata, backend):
            super().__init__(metadata)
            self.key, self.backend = key, backend
            self.entry = {"md": self.md, "chunks": {}, "lineage": None}
            self.backend.store[key] = self.entry  # visible while being written (no writing_ended yet)

        def _save_chunk(self, data, chunk_info, executor=None):
            self.entry["chunks"][chunk_info["chunk_i"]] = data
            return dict(filename=f"mem-{chunk_info['chunk_i']}"), None

        def _save_chunk_metadata(self, chunk_info):
            self.md["chunks"].append(chunk_info)

        def _close(self):
            pass

    class MemFrontend(strax.StorageFrontend):
        can_define_runs = True
        provide_run_metadata = True
        provide_superruns = True

        def __init__(self, *a, **k):
            super().__init__(*a, **k)
            self.backends = [MemBackend()]
            self.keys = {}  # backend key -> DataKey
            self.run_md = {}
            self.find_log = []

        def _find(self, key, write, allow_incomplete, fuzzy_for, fuzzy_for_options):
            bk = _bk(key)
            be = self.backends[0]
            if write:
                if bk in be.store and not self._can_overwrite(key):
                    raise strax.DataExistsError(at=bk)
                self.keys[bk] = key
                return be.__class__.__name__, bk
            if bk in be.store and not (fuzzy_for or fuzzy_for_options):
                return be.__class__.__name__, bk
            if fuzzy_for or fuzzy_for_options:
                for bk2, k2 in self.keys.items():
                    if bk2 in be.store and k2.run_id == key.run_id and k2.data_type == key.data_type and \
                            self._matches(k2.lineage, key.lineage, fuzzy_for, fuzzy_for_options):
                        return be.__class__.__name__, bk2
            raise strax.DataNotAvailable

        def run_metadata(self, run_id, projection=None):
            if run_id not in self.run_md:
                raise strax.RunMetadataNotAvailable(run_id)
            return self.run_md[run_id]

        def write_run_metadata(self, run_id, metadata):
            self.run_md[run_id] = metadata

        def _scan_runs(self, store_fields):
            for r, md in self.run_md.items():
                yield dict(md, name=r)

        def remove(self, key):
            self.backends[0].store.pop(_bk(key), None)

    return MemFrontend, MemBackend, MemSaver


# ======================================================================================
ROW = np.dtype([("time", np.int64), ("endtime", np.int64), ("id", np.int64)])
VAL = np.dtype([("time", np.int64), ("endtime", np.int64), ("id", np.int64), ("val", np.int64)])


def dt(d, obj):
    return arrays.obj_dtype(d) if obj else np.dtype(d)


def new_arr(d, n, obj):
    return arrays.make(d, n) if obj else np.zeros(n, dtype=d)


class Layout:
    """A law-abiding chunking of one source: boundaries b[0..k], rows (t,e,id) per chunk."""

    def __init__(self, bounds, chunks):
        self.bounds, self.chunks = bounds, chunks  # chunks: list of list of (t, e, id)

    @property
    def rows(self):
        return [r for c in self.chunks for r in c]


def sym_layout(prefix, rows_per_chunk, S=None, *, disjoint=False, first_id=0, E=None):
    """Symbolic chunking: len(rows_per_chunk) chunks, contiguous from S, rows sorted, positive length, inside their
    chunk, no row of a later chunk starts before an earlier chunk's end (laws of chunking)."""
    k = len(rows_per_chunk)
    b = [S if S is not None else fresh_int(f"{prefix}b0", 0, T_MAX)]
    for j in range(1, k + 1):
        if j == k and E is not None:
            b.append(E)
        else:
            b.append(fresh_int(f"{prefix}b{j}", 0, T_MAX))
        assume(b[j] >= b[j - 1])
    chunks, rid, prev_t, prev_e = [], first_id, None, None
    for j, nr in enumerate(rows_per_chunk):
        rows = []
        for q in range(nr):
            t = fresh_int(f"{prefix}t{rid}", 0, T_MAX)
            e = fresh_int(f"{prefix}e{rid}", 0, T_MAX)
            assume(sand(t >= b[j], e <= b[j + 1], e > t))
            if prev_t is not None:
                assume(t >= (prev_e if disjoint else prev_t))
            rows.append((t, e, rid))
            prev_t, prev_e = t, e
            rid += 1
        chunks.append(rows)
    return Layout(b, chunks)


def conc_layout(model, prefix, rows_per_chunk, S=None, first_id=0, E=None):
    k = len(rows_per_chunk)
    b = [S if S is not None else model[f"{prefix}b0"]]
    for j in range(1, k + 1):
        b.append(E if (j == k and E is not None) else model[f"{prefix}b{j}"])
    chunks, rid = [], first_id
    for nr in rows_per_chunk:
        rows = []
        for q in range(nr):
            rows.append((model[f"{prefix}t{rid}"], model[f"{prefix}e{rid}"], rid))
            rid += 1
        chunks.append(rows)
    return Layout(b, chunks)


# ======================================================================================
# harness plugins.  Every factory returns a fresh class (one per path / replay).
def P_source(name, kind, layout, obj, rechunk_on_save=False, save_when=None, fail_at=None, version="0.0.0"):
    import strax

    class Source(strax.Plugin):
        provides = (name,)
        depends_on = ()
        data_kind = kind
        dtype = dt(ROW, obj)
        __version__ = version

        def source_finished(self):
            return True

        def is_ready(self, chunk_i):
            return chunk_i < len(layout.chunks)

        def compute(self, chunk_i):
            if fail_at is not None and chunk_i == fail_at:
                raise ZeroDivisionError(f"source {name} fails at chunk {chunk_i}")
            rows = layout.chunks[chunk_i]
            a = new_arr(ROW, len(rows), obj)
            for q, (t, e, i) in enumerate(rows):
                a["time"][q], a["endtime"][q], a["id"][q] = t, e, i
            COUNTS[name] = COUNTS.get(name, 0) + 1
            return self.chunk(start=layout.bounds[chunk_i], end=layout.bounds[chunk_i + 1], data=a)

    Source.rechunk_on_save = rechunk_on_save
    if save_when is not None:
        Source.save_when = save_when
    Source.__name__ = f"Source_{name}"
    return Source


COUNTS = {}  # compute-call counters (per path; reset by the harness)


def P_map(name, dep, obj, kind=None, offset=0, save_when=None, rechunk_on_save=True, fail_at=None, version="0.0.0",
          parent_kind=None):
    """Row-wise: val = (endtime - time) + offset; same rows."""
    import strax

    class Map(strax.Plugin):
        provides = (name,)
        depends_on = (dep,)
        data_kind = kind or f"k_{name}"
        dtype = dt(VAL, obj)
        __version__ = version

        def compute(self, **kw):
            (x,) = kw.values()
            n = COUNTS[name] = COUNTS.get(name, 0) + 1
            if fail_at is not None and n - 1 == fail_at:
                raise ZeroDivisionError(f"plugin {name} fails at chunk {n - 1}")
            r = new_arr(VAL, len(x), obj)
            for q in range(len(x)):
                r["time"][q], r["endtime"][q], r["id"][q] = x["time"][q], x["endtime"][q], x["id"][q]
                r["val"][q] = x["endtime"][q] - x["time"][q] + offset
            return r

    Map.rechunk_on_save = rechunk_on_save
    if save_when is not None:
        Map.save_when = save_when
    Map.__name__ = f"Map_{name}"
    return Map


def P_filter(name, dep, obj, thr, save_when=None, rechunk_on_save=True, version="0.0.0"):
    """Keeps rows with endtime - time >= thr (thr may be symbolic)."""
    import strax

    class Filter(strax.Plugin):
        provides = (name,)
        depends_on = (dep,)
        data_kind = f"k_{name}"
        dtype = dt(ROW, obj)
        __version__ = version

        def compute(self, **kw):
            (x,) = kw.values()
            COUNTS[name] = COUNTS.get(name, 0) + 1
            keep = [q for q in range(len(x)) if x["endtime"][q] - x["time"][q] >= thr]
            r = new_arr(ROW, len(keep), obj)
            for o, q in enumerate(keep):
                r["time"][o], r["endtime"][o], r["id"][o] = x["time"][q], x["endtime"][q], x["id"][q]
            return r

    Filter.rechunk_on_save = rechunk_on_save
    if save_when is not None:
        Filter.save_when = save_when
    Filter.__name__ = f"Filter_{name}"
    return Filter


def P_merge(name, deps, kind_arg, obj, save_when=None, version="0.0.0"):
    """Depends on several same-kind data types; sees them column-merged; val2 = val + id."""
    import strax

    D = np.dtype([("time", np.int64), ("endtime", np.int64), ("id", np.int64), ("val2", np.int64)])

    class Merge(strax.Plugin):
        provides = (name,)
        depends_on = tuple(deps)
        data_kind = f"k_{name}"
        dtype = dt(D, obj)
        __version__ = version

        def compute(self, **kw):
            (x,) = kw.values()
            COUNTS[name] = COUNTS.get(name, 0) + 1
            r = new_arr(D, len(x), obj)
            for q in range(len(x)):
                r["time"][q], r["endtime"][q], r["id"][q] = x["time"][q], x["endtime"][q], x["id"][q]
                r["val2"][q] = x["val"][q] + x["id"][q]
            return r

    if save_when is not None:
        Merge.save_when = save_when
    Merge.__name__ = f"Merge_{name}"
    return Merge


def P_split2(names, dep, obj, thr, save_when=None, version="0.0.0", rechunk_on_save=True):
    """Two outputs: names[0] = rows with length >= thr (new kind), names[1] = all rows with val (new kind)."""
    import strax
    from immutabledict import immutabledict

    class Split2(strax.Plugin):
        provides = tuple(names)
        depends_on = (dep,)
        data_kind = immutabledict({names[0]: f"k_{names[0]}", names[1]: f"k_{names[1]}"})
        dtype = {names[0]: dt(ROW, obj), names[1]: dt(VAL, obj)}
        __version__ = version

        def compute(self, **kw):
            (x,) = kw.values()
            COUNTS[names[0]] = COUNTS.get(names[0], 0) + 1
            keep = [q for q in range(len(x)) if x["endtime"][q] - x["time"][q] >= thr]
            a = new_arr(ROW, len(keep), obj)
            for o, q in enumerate(keep):
                a["time"][o], a["endtime"][o], a["id"][o] = x["time"][q], x["endtime"][q], x["id"][q]
            b = new_arr(VAL, len(x), obj)
            for q in range(len(x)):
                b["time"][q], b["endtime"][q], b["id"][q] = x["time"][q], x["endtime"][q], x["id"][q]
                b["val"][q] = x["endtime"][q] - x["time"][q]
            return {names[0]: a, names[1]: b}

    Split2.rechunk_on_save = rechunk_on_save
    if save_when is not None:
        Split2.save_when = save_when
    Split2.__name__ = f"Split2_{names[0]}"
    return Split2


def P_loop(name, base_dep, things_dep, base_kind, things_kind, obj, version="0.0.0"):
    """LoopPlugin over base rows counting the contained rows of another kind."""
    import strax

    D = np.dtype([("time", np.int64), ("endtime", np.int64), ("id", np.int64), ("n", np.int64)])

    class Loop(strax.LoopPlugin):
        provides = (name,)
        depends_on = (base_dep, things_dep)
        data_kind = base_kind
        dtype = dt(D, obj)
        loop_over = base_kind
        __version__ = version

        def compute_loop(self, base, **kw):
            (things,) = kw.values()
            return dict(time=base["time"], endtime=base["endtime"], id=base["id"], n=len(things))

    Loop.__name__ = f"Loop_{name}"
    return Loop


def P_down(name, dep, obj, version="0.0.0"):
    """DownChunkingPlugin: yields one chunk per input row plus the remainder (cuts at row ends)."""
    import strax

    class Down(strax.DownChunkingPlugin):
        provides = (name,)
        depends_on = (dep,)
        data_kind = f"k_{name}"
        dtype = dt(ROW, obj)
        rechunk_on_save = False
        __version__ = version

        def compute(self, start, end, **kw):
            (x,) = kw.values()
            COUNTS[name] = COUNTS.get(name, 0) + 1
            last = start
            for q in range(len(x)):
                # a cut right after row q is admissible iff every later row starts at/after its end and every earlier
                # row ends at/before it
                cut = x["endtime"][q]
                ok = all(bool(x["endtime"][p] <= cut) for p in range(q)) and \
                    all(bool(x["time"][p] >= cut) for p in range(q + 1, len(x)))
                if not ok or q == len(x) - 1:
                    continue
                lo = [p for p in range(len(x)) if bool(x["time"][p] >= last) and bool(x["endtime"][p] <= cut)]
                a = new_arr(ROW, len(lo), obj)
                for o, p in enumerate(lo):
                    a["time"][o], a["endtime"][o], a["id"][o] = x["time"][p], x["endtime"][p], x["id"][p]
                yield self.chunk(start=last, end=cut, data=a, data_type=name)
                last = cut
            lo = [p for p in range(len(x)) if bool(x["time"][p] >= last)]
            a = new_arr(ROW, len(lo), obj)
            for o, p in enumerate(lo):
                a["time"][o], a["endtime"][o], a["id"][o] = x["time"][p], x["endtime"][p], x["id"][p]
            yield self.chunk(start=last, end=end, data=a, data_type=name)

    Down.__name__ = f"Down_{name}"
    return Down


def P_exhaust(name, dep, obj, version="0.0.0"):
    import strax

    D = np.dtype([("time", np.int64), ("endtime", np.int64), ("id", np.int64), ("tot", np.int64)])

    class Exhaust(strax.ExhaustPlugin):
        provides = (name,)
        depends_on = (dep,)
        data_kind = f"k_{name}"
        dtype = dt(D, obj)
        __version__ = version

        def compute(self, **kw):
            (x,) = kw.values()
            COUNTS[name] = COUNTS.get(name, 0) + 1
            r = new_arr(D, len(x), obj)
            for q in range(len(x)):
                r["time"][q], r["endtime"][q], r["id"][q] = x["time"][q], x["endtime"][q], x["id"][q]
                r["tot"][q] = len(x)
            return r

    Exhaust.__name__ = f"Exhaust_{name}"
    return Exhaust


# ======================================================================================
def make_context(plugins, storage=None, config=None, **opts):
    import strax

    MemFrontend, _, _ = make_storage_classes() if storage is None else (None, None, None)
    st = strax.Context(
        storage=storage if storage is not None else [MemFrontend()],
        register=list(plugins),
        config=config or {},
        **dict(dict(allow_multiprocess=False, allow_shm=False, use_per_run_defaults=False), **opts),
    )
    return st


def rows_of(chunks_or_arr, fields=("id",)):
    """[(id, ...)] from an array"""
    a = chunks_or_arr
    return [tuple(a[f][q] for f in fields) for q in range(len(a))]


def check_tiling(chunks, S, E, label):
    """Yielded chunks tile [S,E] contiguously and every row lies inside its chunk."""
    prove(len(chunks) >= 1, label + ":no chunks")
    prove(chunks[0].start == S, label + ":first chunk does not start at the run start")
    prove(chunks[-1].end == E, label + ":last chunk does not end at the run end")
    for i, c in enumerate(chunks):
        if i:
            prove(c.start == chunks[i - 1].end, label + ":chunks not contiguous")
        for q in range(len(c.data)):
            e = c.data["endtime"][q] if "endtime" in c.data.dtype.names else \
                c.data["time"][q] + c.data["length"][q] * c.data["dt"][q]
            prove(sand(c.data["time"][q] >= c.start, e <= c.end), label + ":row outside its chunk")


# ======================================================================================
# real DataDirectory / FileSaver / FileSytemBackend on symbolic data: byte layer -> handle files
class HandleStore:
    """strax.save_file / load_file stand-ins: the chunk file is really created (temp name, then rename, like the
    original) but holds a handle into this in-memory table."""

    def __init__(self):
        self.table = {}
        self.n = 0

    def save_file(self, f, data, compressor="zstd"):
        import os

        assert isinstance(f, str)
        self.n += 1
        h = f"h{self.n}"
        self.table[h] = data
        with open(f + "_temp", mode="w") as fh:
            fh.write(h)
        os.rename(f + "_temp", f)
        return 8 * (len(data) + 1)

    def load_file(self, f, compressor, dtype):
        with open(f, mode="r") as fh:
            h = fh.read().strip()
        return self.table[h]


class JsonShim:
    """json look-alike that can write symx proxies (placeholders + side table) and numpy ints."""

    def __init__(self):
        import json

        self._json = json
        self.side = {}
        self.n = 0
        self.JSONDecodeError = json.JSONDecodeError

    def _default(self, o):
        if core.is_sym(o):
            self.n += 1
            key = f"s{self.n}"
            self.side[key] = o
            return {"__sym__": key}
        if isinstance(o, np.integer):
            return int(o)
        if isinstance(o, np.floating):
            return float(o)
        raise TypeError(f"not JSON serializable: {type(o)}")

    def _hook(self, d):
        if len(d) == 1 and "__sym__" in d:
            return self.side[d["__sym__"]]
        return d

    def dumps(self, obj, **kw):
        kw.setdefault("default", self._default)
        return self._json.dumps(obj, **kw)

    def loads(self, s, **kw):
        kw.setdefault("object_hook", self._hook)
        return self._json.loads(s, **kw)

    def load(self, f, **kw):
        return self.loads(f.read(), **kw)

    def dump(self, obj, f, **kw):
        f.write(self.dumps(obj, **kw))


def filestore_shims(inj):
    """Rebind the byte layer and json of strax.storage.files (and the save/load entry points looked up on the strax
    package).  Returns the HandleStore."""
    import strax
    import strax.storage.files as sf
    import strax.storage.file_rechunker as fr

    hs, js = HandleStore(), JsonShim()
    inj.set(strax, "save_file", hs.save_file)
    inj.set(strax, "load_file", hs.load_file)
    inj.inject(sf, json=js, print=lambda *a, **k: None)
    if "json" in fr.__dict__:
        inj.inject(fr, json=js)
    if "np" in sf.__dict__:
        inj.inject_default(sf, which=("np",))
    return hs, js


# ======================================================================================
class StubFuture:
    def __init__(self, fn, args, kwargs):
        self.fn, self.args, self.kwargs = fn, args, kwargs
        self._done, self._result, self._exc = False, None, None

    def run(self):
        if self._done:
            return
        try:
            self._result = self.fn(*self.args, **self.kwargs)
        except Exception as e:  # noqa
            self._exc = e
        self._done = True

    def done(self):
        return self._done

    def result(self, timeout=None):
        self.run()
        if self._exc is not None:
            raise self._exc
        return self._result

    def exception(self, timeout=None):
        self.run()
        return self._exc


class StubPool:
    """concurrent.futures look-alike for strax.utils.multi_run: work is done synchronously when `wait` says so;
    `chooser(pending) -> list of futures to complete now` decides the completion order (solver-chosen in C15)."""

    chooser = None
    order = []

    def __init__(self, max_workers=None):
        self.max_workers = max_workers

    def __enter__(self):
        return self

    def __exit__(self, *a):
        return False

    def submit(self, fn, *args, **kwargs):
        return StubFuture(fn, args, kwargs)

    def shutdown(self, wait=True):
        pass


def stub_wait(futures, timeout=None, return_when=None):
    pending = [f for f in futures if not f.done()]
    done = [f for f in futures if f.done()]
    if pending:
        pick = StubPool.chooser(pending) if StubPool.chooser else pending[:1]
        for f in pick:
            f.run()
            StubPool.order.append(f.args[0] if f.args else None)
        done = done + list(pick)
    return set(done), set(f for f in futures if not f.done())


def multirun_shims(inj, chooser=None):
    import strax.utils as su

    StubPool.chooser = chooser
    StubPool.order = []

    class NoBar:
        def __init__(self, *a, **k):
            pass

        def update(self, *a):
            pass

        def close(self):
            pass

    inj.inject(su, ThreadPoolExecutor=StubPool, wait=stub_wait, tqdm=NoBar)


def P_source_runs(name, kind, layouts, obj, save_when=None, fail_runs=()):
    """Source whose chunking depends on the run id: layouts = {run_id: Layout}."""
    import strax

    class SourceR(strax.Plugin):
        provides = (name,)
        depends_on = ()
        data_kind = kind
        dtype = dt(ROW, obj)
        rechunk_on_save = False

        def source_finished(self):
            return True

        def is_ready(self, chunk_i):
            return chunk_i < len(layouts[self.run_id].chunks)

        def compute(self, chunk_i):
            if self.run_id in fail_runs:
                raise ZeroDivisionError(f"run {self.run_id} fails")
            L = layouts[self.run_id]
            rows = L.chunks[chunk_i]
            a = new_arr(ROW, len(rows), obj)
            for q, (t, e, i) in enumerate(rows):
                a["time"][q], a["endtime"][q], a["id"][q] = t, e, i
            return self.chunk(start=L.bounds[chunk_i], end=L.bounds[chunk_i + 1], data=a)

    if save_when is not None:
        SourceR.save_when = save_when
    SourceR.__name__ = f"SourceR_{name}"
    return SourceR
