"""Shared machinery for the mailbox step obligations (C05, C06, C13): symbolic invariant states on a
real strax.Mailbox object, havoc hooks for the threading stub, section drivers, concrete replays."""
import heapq
import logging

import z3

from symx import core, arrays, conc
from symx.core import (SymInt, SymBool, fresh_int, fresh_bool, assume, prove, sand, sor, snot, implies, iff,
                       smin, smax, ite)

N_MAX = 2**40
F = z3.Function("payload", z3.IntSort(), z3.IntSort())  # payload of message number k (ghost)


def payload(num):
    if core._CONCRETE is not None:
        return ("payload", int(num))
    if isinstance(num, SymInt):
        return SymInt(F(num.t))
    return SymInt(F(z3.IntVal(int(num))))


INJECTED = []  # concrete replay: every state that was injected into the mailbox (checked for reachability)


class StopSection(core.SymxControl):
    pass


def setup():
    import strax.mailbox as mbm

    logging.disable(logging.CRITICAL)
    inj = arrays.Injector()
    inj.inject(mbm, int=arrays.sym_int, min=_min_default, max=core.smax)
    return inj


def _min_default(*xs, default=None, **kw):
    if len(xs) == 1:
        xs = tuple(xs[0])
    if not xs:
        return default
    return core.smin(*xs) if len(xs) > 1 else xs[0]


class Sim(conc.Hooks):
    """A real Mailbox whose threading module is the havoc stub; holds ghost copies of the last
    havocked state so that sections can be checked against it."""

    def __init__(self, nsubs, lazy, cap, drivers=None, lmax=3, numbering="default", displacement=0):
        import strax.mailbox as mbm

        self.nsubs, self.lazy, self.cap, self.lmax = nsubs, lazy, cap, lmax
        self.numbering, self.disp = numbering, displacement
        self.drivers = drivers if drivers is not None else [True] * nsubs
        self.saved_threading = mbm.threading
        mbm.threading = conc.HavocThreading(self)
        try:
            self.mb = mbm.Mailbox(name="mb", timeout=1, lazy=lazy, max_messages=cap)
        finally:
            mbm.threading = self.saved_threading
        self.mb._read_condition.threading_condition.name = "read"
        self.mb._write_condition.threading_condition.name = "write"
        self.mb._fetch_new_condition.threading_condition.name = "fetch"
        self.notes = {"read": 0, "write": 0, "fetch": 0}
        self.acquire_handler = None
        self.wait_handler = None
        self.release_handler = None
        self.k = 0  # havoc counter (names)

    # hooks
    def on_acquire(self, lock):
        if self.acquire_handler:
            self.acquire_handler()

    def on_release(self, lock):
        if self.release_handler:
            self.release_handler()

    def on_notify(self, cond):
        self.notes[cond.name] += 1

    def on_wait(self, cond, pred):
        if self.wait_handler is None:
            raise RuntimeError("unexpected wait on " + str(cond.name))
        return self.wait_handler(cond, pred)

    def reset_notes(self):
        self.notes = {"read": 0, "write": 0, "fetch": 0}

    # ------------------------------------------------------------------ symbolic invariant state
    def havoc(self, *, tie_n=None, tie_r=None, closed=None, killed=False, force_killed=False, waiting=None,
              min_len=0, explicit_next=None, sender=None, exact_len=None):
        """Overwrite the mailbox state with a fresh symbolic state satisfying the invariant.

        tie_n: value that _n_sent must equal (sender's stale local).  tie_r: {j: value} for a reader's own
        counter.  closed: None = fork.  waiting: {j: value-or-None} fixed entries; others fork between
        None and r_j+1.  Returns a snapshot dict.
        """
        mb, S = self.mb, self.nsubs
        self.k += 1
        tag = f"h{self.k}_"
        n = fresh_int(tag + "n", 0, N_MAX)
        if tie_n is not None:
            assume(n == tie_n)
        r = []
        for j in range(S):
            rj = fresh_int(tag + f"r{j}", -1, N_MAX)
            assume(rj <= n - 1)
            if tie_r and j in tie_r:
                assume(rj == tie_r[j])
            r.append(rj)
        m = smin(*r) if S > 1 else r[0]
        # heap length: fork over 0..lmax
        lmax = self.lmax if self.lazy or self.cap is None else min(self.lmax, self.cap)
        Lsym = fresh_int(tag + "L", min_len, lmax)
        if exact_len is not None:
            assume(Lsym == exact_len)
        L = core.concretize(Lsym)
        if self.numbering == "default":
            # the queue holds exactly the messages m+1..n-1; its ARRAY is one of the layouts a binary heap can reach by
            # pushing increasing numbers and popping the minimum (enumerated exactly, see heap_layouts)
            assume(n - 1 - m == L)
            lcap = self.cap if (self.cap and not self.lazy) else 7
            if L >= 3:
                pcls = core.concretize(smin(m + 1, POP_CLASSES))  # how many messages have been popped so far (capped)
            else:
                pcls = POP_CLASSES
            lays = heap_layouts(L, pcls, lcap)
            li = core.concretize(fresh_int(tag + "lay", 0, len(lays) - 1)) if len(lays) > 1 else 0
            perm = lays[li]
            hs = [m + 1 + perm[i] for i in range(L)]
        else:
            # explicit numbering with every displacement < capacity (the property's precondition): the number sent at
            # position p lies in [p - dmax, p + dmax], so after n sends every queued number is <= n - 1 + dmax and
            # every number <= n - 1 - dmax has been sent (hence is queued unless everybody read it)
            dmax = (self.cap or 1) - 1
            hs = [fresh_int(tag + f"h{i}", 0, N_MAX) for i in range(L)]
            for i in range(L):
                assume(sand(hs[i] > m, hs[i] <= n - 1 + dmax))
                if i:
                    assume(hs[(i - 1) // 2] < hs[i])  # heap order (numbers distinct)
                for i2 in range(i):
                    assume(hs[i] != hs[i2])
            for dd in range(1, self.lmax + 2):
                assume(implies(m + dd <= n - 1 - dmax, sor(*[h == m + dd for h in hs]) if hs else False))
            # every number that some subscriber has read beyond m is still queued;
            # number of sends = popped (m+1) + queued
            assume(n == m + 1 + L)
            for j in range(S):
                # all numbers in (m, r_j] are in the heap: encoded for the (at most lmax) candidates
                for d in range(1, self.lmax + 2):
                    assume(implies(m + d <= r[j], sor(*[h == m + d for h in hs]) if hs else False))
        if closed is None:
            closed = bool(fresh_bool(tag + "closed"))
        msgs = [payload(h) for h in hs]
        if closed:
            assume(n >= 1)
            # the end marker is message n-1: queued unless everybody read it
            if L:
                if self.numbering == "default":
                    s = list(perm).index(L - 1)
                else:
                    s = core.concretize(fresh_int(tag + "stop", 0, L - 1))
                    assume(hs[s] == n - 1)
                msgs[s] = StopIteration
            else:
                assume(m == n - 1)
        w = []
        for j in range(S):
            if waiting and j in waiting:
                w.append(waiting[j])
            else:
                # published demand is only ever read by the lazy fetch gate
                isw = bool(fresh_bool(tag + f"w{j}")) if self.lazy else False
                if isw and closed:
                    assume(r[j] < n - 1)  # a reader that has seen the end marker has left
                w.append(r[j] + 1 if isw else None)
        if self.lazy and not killed:
            # demand-driven production: nothing is produced while somebody waits for a queued message
            for j in range(S):
                if w[j] is not None:
                    assume(w[j] >= n - 1)
                    if sender in ("sending", "closing"):
                        # the sender has passed the fetch gate: nobody was waiting for a queued message then, and a
                        # reader never starts waiting for a queued message
                        assume(w[j] >= n)
        mb._n_sent = n
        mb._subscribers_have_read = list(r)
        mb._subscriber_waiting_for = list(w)
        mb._subscriber_can_drive = list(self.drivers)
        mb._mailbox = [(hs[i], msgs[i]) for i in range(L)]
        mb.closed, mb.killed, mb.force_killed = closed, killed, force_killed
        mb.killed_because = "because" if killed else None
        if core._CONCRETE is not None:
            INJECTED.append(dict(self.snapshot(), nsubs=S, lazy=self.lazy, cap=self.cap, drivers=list(self.drivers),
                                 numbering=self.numbering, sender=sender))
        return self.snapshot()

    def snapshot(self):
        mb = self.mb
        return {
            "n": mb._n_sent, "r": list(mb._subscribers_have_read), "w": list(mb._subscriber_waiting_for),
            "heap": list(mb._mailbox), "closed": mb.closed, "killed": mb.killed, "force_killed": mb.force_killed,
        }

    # ------------------------------------------------------------------ invariant as obligations
    def prove_inv(self, st, label):
        n, r, heap = st["n"], st["r"], st["heap"]
        S = self.nsubs
        prove(n >= 0, label + ":n>=0")
        for j in range(S):
            prove(sand(r[j] >= -1, r[j] <= n - 1), label + f":r{j} in [-1,n-1]")
        m = smin(*r) if S > 1 else r[0]
        # explicit numbering: a number may run ahead of its send position by up to dmax = capacity - 1
        ahead = 0 if self.numbering == "default" else (self.cap or 1) - 1
        for i, (h, v) in enumerate(heap):
            prove(sand(h > m, h <= n - 1 + ahead), label + ":queued message already read by all / beyond n_sent")
            if i:
                prove(heap[(i - 1) // 2][0] < h, label + ":heap order broken")
            if v is StopIteration:
                prove(sand(h == n - 1, st["closed"]), label + ":end marker not last / not closed")
            else:
                prove(v == payload(h), label + ":payload of a queued message changed")
        if self.numbering != "default":
            prove(n == m + 1 + len(heap), label + ":explicit: number of sends is not read-by-all + queued")
        if self.numbering == "default":
            prove(n - 1 - m == len(heap), label + ":queue is not exactly the unread messages")
            if len(heap) >= 3:
                lcap = self.cap if (self.cap and not self.lazy) else 7
                alts = []
                for pc in range(POP_CLASSES + 1):
                    cond = (m + 1 == pc) if pc < POP_CLASSES else (m + 1 >= pc)
                    alts.append(sand(cond, sor(*[sand(*[heap[i][0] == m + 1 + lay[i] for i in range(len(heap))])
                                                 for lay in heap_layouts(len(heap), pc, lcap)])))
                prove(sor(*alts), label + ":queue array is not a layout a heap can reach (invariant not inductive)")
        if not self.lazy and not st["killed"]:
            prove(len(heap) <= self.cap, label + ":eager queue exceeds capacity")
        for j in range(S):
            if st["w"][j] is not None:
                prove(st["w"][j] == r[j] + 1, label + ":published demand is not the reader's next message")
                if self.lazy and not st["killed"]:
                    prove(st["w"][j] >= n - 1, label + ":lazy: produced beyond a waiter's queued message")


_LAYOUTS = {}
POP_CLASSES = 3  # layout sets stop growing after 3 pops (for queues of <= 6 entries)


def heap_layouts(L, pops=POP_CLASSES, cap=None):
    """All rank patterns of a heapq array of size L reachable by pushing increasing numbers and popping the minimum,
    never exceeding `cap` entries, after min(pops, POP_CLASSES) pops (exact enumeration by BFS)."""
    cap = cap if cap is not None else 7
    pops = min(pops, POP_CLASSES)
    if cap not in _LAYOUTS:
        seen, work = {((), 0)}, [((), 0)]
        while work:
            a, p = work.pop()
            if len(a) < cap:
                b = list(a); heapq.heappush(b, len(a)); stt = (tuple(b), p)
                if stt not in seen:
                    seen.add(stt); work.append(stt)
            if a:
                b = list(a); heapq.heappop(b); stt = (tuple(x - 1 for x in b), min(p + 1, POP_CLASSES))
                if stt not in seen:
                    seen.add(stt); work.append(stt)
        d = {}
        for a, p in seen:
            d.setdefault((len(a), p), set()).add(a)
        _LAYOUTS[cap] = {k: sorted(v) for k, v in d.items()}
    return _LAYOUTS[cap].get((L, pops), [tuple(range(L))])


def has(heap, num):
    """number num is queued (symbolic)"""
    return sor(*[h == num for h, _ in heap]) if heap else False


def same_entries(a, b, label):
    """Two heaps hold the same (number, payload) pairs (numbers distinct)."""
    prove(len(a) == len(b), label + ":length")
    for h, v in a:
        prove(sor(*[sand(h == h2, _same(v, v2)) for h2, v2 in b]) if b else False, label + ":entry missing")


def _same(v, v2):
    if v is StopIteration or v2 is StopIteration:
        return v is v2
    return v == v2


def next_number_cell(pred):
    names = pred.__code__.co_freevars
    return pred.__closure__[names.index("next_number")]


# ======================================================================================
# whole-mailbox runs on real threads under the deterministic scheduler
class SchedRun:
    """Context manager: strax.mailbox.threading (and optionally other modules' threading) -> scheduler."""

    def __init__(self, policy, modules=None, max_steps=20000):
        import strax.mailbox as mbm

        self.sched = conc.Sched(policy, max_steps=max_steps)
        self.mods = modules or [mbm]
        self.saved = []

    def __enter__(self):
        st = conc.SchedThreading(self.sched)
        for m in self.mods:
            self.saved.append((m, m.threading))
            m.threading = st
        return self.sched

    def __exit__(self, *a):
        for m, old in self.saved:
            m.threading = old
        return False


def deviating_policy(base, budget, tag="dev"):
    """Canonical policy `base` with up to `budget` solver-chosen deviations: at every switch point with more
    than one runnable task a symbolic Boolean decides whether to deviate, the task chosen is a symbolic index
    constrained to the runnable set."""
    state = {"left": budget, "k": 0, "used": []}

    def pol(s, r):
        state["k"] += 1
        canon = base(s, r)
        if state["left"] <= 0 or len(r) < 2 or not core.active():
            return canon
        if bool(fresh_bool(f"{tag}{state['k']}")):
            others = [t for t in r if t is not canon]
            i = core.concretize(fresh_int(f"{tag}{state['k']}_i", 0, len(others) - 1))
            state["left"] -= 1
            state["used"].append((state["k"], others[i].name))
            return others[i]
        return canon

    pol.state = state
    return pol


# ======================================================================================
# reachability of an injected (concrete) state by a REAL history: exhaustive search over the schedules of real
# sender / reader threads driving the real Mailbox under the deterministic scheduler (stateful DFS).
class _Found(BaseException):
    pass


def normalise(st):
    """Shift message numbers so that the slowest reader is at -1 (the mailbox is shift-invariant).  The ARRAY ORDER of
    the queue is kept: it is part of the state (heap layout after pops is not sorted)."""
    m = min(st["r"])
    sh = m + 1
    heap = [h - sh for h, _ in st["heap"]]
    stop = [h - sh for h, v in st["heap"] if v is StopIteration]
    return {"n": st["n"] - sh, "r": [x - sh for x in st["r"]], "w": [None if x is None else x - sh for x in st["w"]],
            "heap": heap, "closed": bool(st["closed"]), "killed": bool(st["killed"]), "stop": stop}


def _snap(mb):
    return {"n": mb._n_sent, "r": list(mb._subscribers_have_read), "w": list(mb._subscriber_waiting_for),
            "heap": list(mb._mailbox), "closed": mb.closed, "killed": mb.killed}


def search_reach(st, budget=6000):
    """-> (found: bool, script, runs).  st: an entry of INJECTED.  Real sender / reader threads drive the real Mailbox
    under the deterministic scheduler; stateful DFS over all schedules; a state matches if it equals the target after
    shifting message numbers (same relative counters, same queue ARRAY, same flags, sender at the required place)."""
    import strax.mailbox as mbm

    if st["killed"]:
        return None, None, 0
    if st.get("numbering") != "default":
        return search_reach_explicit(st, budget)
    tgt = normalise(st)
    nsubs, lazy, cap, drivers = st["nsubs"], st["lazy"], st["cap"], st["drivers"]
    runs_total = 0
    extra_max = (cap if cap else 3) + 1
    for extra in range(0, extra_max + 1):
        nreal = tgt["n"] - (1 if tgt["closed"] else 0) + extra  # real messages; the end marker is the last message
        if nreal < 0:
            continue
        seen, work = set(), [()]
        while work and runs_total < budget:
            script = list(work.pop())
            runs_total += 1
            pos = {"i": 0}
            holder = {}

            def matches(mb):
                cur = _snap(mb)
                if cur["killed"] or not cur["r"]:
                    return False
                sh = min(cur["r"]) + 1
                if st.get("sender") == "sending" and holder.get("fetching") != cur["n"]:
                    return False
                if st.get("sender") == "closing" and holder.get("fetching") != "end":
                    return False
                return normalise(cur) == dict(tgt, stop=normalise(cur)["stop"]) and \
                    (not tgt["closed"] or normalise(cur)["stop"] == tgt["stop"])

            def pol(s, r):
                mb = holder["mb"]
                if matches(mb):
                    holder["found"] = list(s.trace)
                    raise _Found()
                i = pos["i"]
                pos["i"] += 1
                if i < len(script):
                    for t in r:
                        if t.tid == script[i]:
                            return t
                    raise _Found()  # script no longer applies (should not happen: deterministic)
                key = (mb._n_sent, tuple(mb._subscribers_have_read), tuple(mb._subscriber_waiting_for),
                       tuple(h for h, _ in mb._mailbox), mb.closed,
                       tuple((t.state, t.notified, getattr(t.cond, "name", None)) for t in s.tasks), s.current.tid)
                if key in seen:
                    holder["pruned"] = True
                    raise _Found()
                seen.add(key)
                r = sorted(r, key=lambda t: t.tid)
                for alt in r[1:]:
                    work.append(tuple(s.trace) + (alt.tid,))
                return r[0]

            with SchedRun(pol) as s:
                mb = mbm.Mailbox("mb", timeout=1, lazy=lazy, max_messages=cap)
                holder["mb"] = mb

                def reader(it, j):
                    s.pause()
                    for x in it:
                        s.pause()

                def source():
                    for i in range(nreal):
                        holder["fetching"] = i  # the sender has passed the gate and is fetching message i
                        s.pause()
                        yield ("payload", i)
                    holder["fetching"] = "end"
                    s.pause()
                    if not tgt["closed"]:
                        s.park()

                for j in range(nsubs):
                    mb.add_reader(reader, j=j, can_drive=drivers[j])
                mb.add_sender(source())
                try:
                    mb.start()
                    s.finish()
                except _Found:
                    pass
            if "found" in holder:
                return True, holder["found"], runs_total
    return False, None, runs_total


def search_reach_explicit(st, budget=6000):
    """Explicit numbering: the sender sends numbers 0..N-1 in some order with displacement < capacity; readers as
    before.  Search over send orders x thread schedules for a state equal (after shifting) to the target."""
    import itertools

    import strax.mailbox as mbm

    tgt = normalise(st)
    nsubs, cap = st["nsubs"], st["cap"]
    if st["lazy"] or st["closed"]:
        return None, None, 0
    runs_total = 0
    top = max(tgt["heap"] + tgt["r"] + [tgt["n"] - 1]) + 1
    for N in range(max(top, 1), top + cap + 1):
        for order in itertools.permutations(range(N)):
            if any(abs(k - i) >= cap for i, k in enumerate(order)):
                continue
            seen, work = set(), [()]
            while work and runs_total < budget:
                script = list(work.pop())
                runs_total += 1
                pos = {"i": 0}
                holder = {}

                def matches(mb):
                    cur = _snap(mb)
                    return bool(cur["r"]) and normalise(cur) == tgt

                def pol(s, r):
                    mb = holder["mb"]
                    if matches(mb):
                        holder["found"] = (list(order), list(s.trace))
                        raise _Found()
                    i = pos["i"]
                    pos["i"] += 1
                    if i < len(script):
                        for t in r:
                            if t.tid == script[i]:
                                return t
                        raise _Found()
                    key = (mb._n_sent, tuple(mb._subscribers_have_read), tuple(h for h, _ in mb._mailbox),
                           tuple((t.state, t.notified, getattr(t.cond, "name", None)) for t in s.tasks), s.current.tid)
                    if key in seen:
                        raise _Found()
                    seen.add(key)
                    r = sorted(r, key=lambda t: t.tid)
                    for alt in r[1:]:
                        work.append(tuple(s.trace) + (alt.tid,))
                    return r[0]

                with SchedRun(pol) as s:
                    mb = mbm.Mailbox("mb", timeout=1, lazy=False, max_messages=cap)
                    holder["mb"] = mb

                    def reader(it, j):
                        s.pause()
                        for x in it:
                            s.pause()

                    def sender():
                        for k in order:
                            s.pause()
                            mb.send(("payload", k), msg_number=k)
                        s.pause()
                        s.park()

                    for j in range(nsubs):
                        mb.add_reader(reader, j=j)
                    mb._threads.append(mbm.threading.Thread(target=sender, name="explicit_sender"))
                    try:
                        mb.start()
                        s.finish()
                    except _Found:
                        pass
                if "found" in holder:
                    return True, holder["found"], runs_total
            if runs_total >= budget:
                return False, None, runs_total
    return False, None, runs_total


def nat_rg(sym_fn):
    """Concrete replay for a rely/guarantee obligation: (1) the same section(s) on the real Mailbox with plain
    Python values from the model must fail a prove(); (2) every state injected on the way must be reached by a
    real multi-threaded history (schedule search)."""

    def native(params, model):
        inj = setup()
        del INJECTED[:]
        try:
            try:
                label = core.concrete_run(lambda: sym_fn(**params), model)
            except core.ConcreteMismatch as e:
                return {"ok": None, "detail": f"concrete replay left the model's path: {e}"}
            except StopSection:
                label = None
            except core.PathAbort:
                label = None
        finally:
            inj.restore()
        if label is None:
            return {"ok": True, "detail": "all obligations hold on the concrete replay"}
        scripts = []
        # the failing section starts from the LAST injected state (earlier ones only feed stale locals, which
        # every obligation ties to the shared state by an equality)
        for st in list(INJECTED)[-1:]:
            found, script, runs = search_reach(st)
            if found is None:
                scripts.append("state outside the schedule search (explicit numbering / killed)")
            elif not found:
                return {"ok": None, "label": label,
                        "detail": f"'{label}' fails from the injected state {normalise(st)} but no real schedule "
                                  f"reaches that state ({runs} runs): invariant too weak, not a finding"}
            else:
                scripts.append(script)
        return {"ok": False, "label": label,
                "detail": f"'{label}' fails on the real Mailbox; injected states reached by real thread schedules {scripts}"}

    return native


# ======================================================================================
# completeness of the rely invariant: every state that REAL threads reach must be a state Sim.havoc can produce
# (an invariant that excludes reachable states silently shrinks every "from any invariant state" claim)
def enumerate_states(nsubs, lazy, cap, drivers, nreal, order=None, budget=1500):
    """Distinct (shift-normalised) mailbox states seen at the scheduling points of ALL schedules of a real sender and
    real readers (stateful DFS as in search_reach).  order: explicit send order (then nothing is closed)."""
    import strax.mailbox as mbm

    states, seen, work, runs = {}, set(), [()], 0
    while work and runs < budget:
        script = list(work.pop())
        runs += 1
        pos = {"i": 0}
        holder = {}

        def pol(s, r):
            mb = holder["mb"]
            cur = _snap(mb)
            if cur["r"] and not cur["killed"]:
                nst = normalise(cur)
                sending = holder.get("fetching") == cur["n"]
                key = (nst["n"], tuple(nst["r"]), tuple(nst["w"]) if lazy else None, tuple(nst["heap"]), nst["closed"],
                       tuple(nst["stop"]), sending)
                states.setdefault(key, dict(nst, sending=sending))
            i = pos["i"]
            pos["i"] += 1
            if i < len(script):
                for t in r:
                    if t.tid == script[i]:
                        return t
                raise _Found()
            k2 = (mb._n_sent, tuple(mb._subscribers_have_read), tuple(mb._subscriber_waiting_for),
                  tuple(h for h, _ in mb._mailbox), mb.closed,
                  tuple((t.state, t.notified, getattr(t.cond, "name", None)) for t in s.tasks), s.current.tid)
            if k2 in seen:
                raise _Found()
            seen.add(k2)
            r = sorted(r, key=lambda t: t.tid)
            for alt in r[1:]:
                work.append(tuple(s.trace) + (alt.tid,))
            return r[0]

        with SchedRun(pol) as s:
            mb = mbm.Mailbox("mb", timeout=1, lazy=lazy, max_messages=cap)
            holder["mb"] = mb

            def reader(it, j):
                s.pause()
                for x in it:
                    s.pause()

            for j in range(nsubs):
                mb.add_reader(reader, j=j, can_drive=drivers[j])
            if order is None:
                def source():
                    for i in range(nreal):
                        holder["fetching"] = i
                        s.pause()
                        yield ("payload", i)
                    holder["fetching"] = "end"
                    s.pause()
                mb.add_sender(source())
            else:
                def sender():
                    for k in order:
                        s.pause()
                        mb.send(("payload", k), msg_number=k)
                    s.pause()
                    s.park()
                mb._threads.append(mbm.threading.Thread(target=sender, name="explicit_sender"))
            try:
                mb.start()
                s.finish()
            except _Found:
                pass
    return list(states.values()), runs


def covered_by_invariant(st, nsubs, lazy, cap, drivers, numbering):
    """Is the concrete (normalised) state st one of the states Sim.havoc ranges over?  Decided by a nested exploration:
    havoc, constrain to st, and ask for a reachability witness."""
    def probe():
        sim = Sim(nsubs, lazy, cap, drivers=drivers, lmax=max(len(st["heap"]), 1 if cap is None else cap, 3),
                  numbering=numbering)
        waiting = {j: st["w"][j] for j in range(nsubs)} if lazy else None
        h = sim.havoc(closed=bool(st["closed"]), exact_len=len(st["heap"]), waiting=None,
                      sender="sending" if (st.get("sending") and not st["closed"]) else None)
        # shift: the havocked state may sit anywhere on the number line
        sh = fresh_int("shift", 0, N_MAX)
        assume(h["n"] == st["n"] + sh)
        for j in range(nsubs):
            assume(h["r"][j] == st["r"][j] + sh)
            if lazy:
                if st["w"][j] is None:
                    assume(h["w"][j] is None)
                else:
                    assume(h["w"][j] is not None)
                    if h["w"][j] is not None:
                        assume(h["w"][j] == st["w"][j] + sh)
        for (hn, hv), want in zip(h["heap"], st["heap"]):
            assume(hn == want + sh)
            if (want in st["stop"]) != (hv is StopIteration):
                assume(False)
        prove(False, "covered")

    res = core.nested_explore(probe, max_paths=400, stop_on_cex=True, want_witness=0)
    return any(c["label"] == "covered" for c in res.cex)
