"""C01 violation 1: with allow_multiprocess=True the ParallelSourcePlugin inlines a SECOND,
independent source plugin (a plugin without dependencies) into the first one.  The second
source is then computed with the chunk numbers of the first source and stops when the first
source stops: if it is chunked differently, its remaining chunks are never read.

A SaveWhen.NEVER consumer silently returns fewer rows (a SaveWhen.ALWAYS consumer raises
'terminated with leftover').  Single-thread and thread-pool processing are fine.
"""
import sys
import warnings
import numpy as np
import strax

warnings.filterwarnings("ignore")
VT = strax.time_fields + [("v", np.int64)]
SRC = {}


class _Src(strax.Plugin):
    depends_on = tuple()
    dtype = VT
    rechunk_on_save = False
    parallel = "process"  # like straxen's DAQReader

    def compute(self, chunk_i):
        s, e, d = SRC[self.provides[0]][chunk_i]
        return self.chunk(start=s, end=e, data=d)

    def is_ready(self, chunk_i):
        return chunk_i < len(SRC[self.provides[0]])

    def source_finished(self):
        return True


class SrcA(_Src):
    provides = "srca"
    data_kind = "a"


class SrcB(_Src):
    provides = "srcb"
    data_kind = "b"


class CountB(strax.Plugin):
    """For every a: number of b's that overlap with it."""

    depends_on = ("srca", "srcb")
    provides = "count_b"
    data_kind = "a"
    dtype = strax.time_fields + [("nb", np.int64)]
    save_when = strax.SaveWhen.NEVER

    def compute(self, a, b):
        r = np.zeros(len(a), self.dtype)
        r["time"] = a["time"]
        r["endtime"] = a["endtime"]
        for i in range(len(a)):
            r["nb"][i] = ((b["time"] < a["endtime"][i]) & (b["endtime"] > a["time"][i])).sum()
        return r


def get(chunks_a, chunks_b, allow_multiprocess=False, **kw):
    SRC["srca"], SRC["srcb"] = chunks_a, chunks_b
    st = strax.Context(
        storage=[], register=[SrcA, SrcB, CountB], timeout=120, allow_multiprocess=allow_multiprocess
    )
    return st.get_array("0", "count_b", progress_bar=False, **kw)


if __name__ == "__main__":
    N = 12
    a = np.zeros(N, dtype=VT)
    a["time"] = np.arange(N) * 10
    a["endtime"] = a["time"] + 4
    b = a.copy()
    b["time"] += 2
    b["endtime"] += 2
    end = N * 10
    # srca in 2 chunks, srcb in 4 chunks: both tile [0, 120) and split no row
    ca = [(0, 60, a[:6]), (60, end, a[6:])]
    cb = [(0, 30, b[:3]), (30, 70, b[3:7]), (70, 100, b[7:10]), (100, end, b[10:])]

    ref = get([(0, end, a)], [(0, end, b)], processor="single_thread")
    thr = get(ca, cb, processor="threaded_mailbox", max_workers=2)
    mp = get(ca, cb, processor="threaded_mailbox", max_workers=2, allow_multiprocess=True)
    print("unchunked, single thread      :", len(ref), "rows", ref["nb"].tolist())
    print("chunked, thread pool          :", len(thr), "rows", thr["nb"].tolist())
    print("chunked, allow_multiprocess   :", len(mp), "rows", mp["nb"].tolist())
    ok = len(mp) == len(ref) and np.array_equal(mp["nb"], ref["nb"])
    if not ok:
        print("VIOLATION: rows were lost / changed when processing with allow_multiprocess=True")
        sys.exit(1)
    print("no violation")
