"""C01 violation 2: OverlapWindowPlugin with a float window size and realistic timestamps
(ns since the unix epoch, ~1.7e18 > 2**53) returns rows that depend on the chunking.

get_window_size() may return "an integer(float)" (OverlapWindowPlugin._get_window_size).
With a float, do_compute evaluates
    invalid_beyond      = int(end - 2 * window - 1)
    cache_inputs_beyond = int(self.sent_until - 2 * window - 1)
in float64, where neighbouring representable values are 256 ns apart at 1.7e18.  The result
is rounded by up to 128 ns, i.e. by more than the (2 * window + 1) safety margin for windows
below ~128 ns: results that still miss their right neighbours are sent out, and inputs that
are still needed as left neighbours are dropped from the cache.
"""
import sys
import warnings
import numpy as np
import strax

warnings.filterwarnings("ignore")
VT = strax.time_fields + [("v", np.int64)]
T0 = 1_700_000_000_000_000_000
CHUNKS = []
WINDOW = 50.0  # ns, float


class Src(strax.Plugin):
    depends_on = tuple()
    provides = "src"
    data_kind = "a"
    dtype = VT

    def compute(self, chunk_i):
        s, e, d = CHUNKS[chunk_i]
        return self.chunk(start=s, end=e, data=d)

    def is_ready(self, chunk_i):
        return chunk_i < len(CHUNKS)

    def source_finished(self):
        return True


class Neighbours(strax.OverlapWindowPlugin):
    """Number of rows within 50 ns of each row (integer arithmetic)."""

    depends_on = "src"
    provides = "neighbours"
    data_kind = "a"
    dtype = strax.time_fields + [("nn", np.int64)]

    def get_window_size(self):
        return WINDOW

    def compute(self, a):
        r = np.zeros(len(a), self.dtype)
        r["time"] = a["time"]
        r["endtime"] = a["endtime"]
        for i in range(len(a)):
            r["nn"][i] = ((a["time"] < a["endtime"][i] + 50) & (a["endtime"] > a["time"][i] - 50)).sum()
        return r


def get(chunks, processor="single_thread"):
    CHUNKS[:] = chunks
    st = strax.Context(storage=[], register=[Src, Neighbours])
    return st.get_array("0", "neighbours", processor=processor, progress_bar=False)


data = np.zeros(40, dtype=VT)
data["time"] = T0 + np.arange(40) * 20
data["endtime"] = data["time"] + 10
end = int(data["endtime"][-1]) + 10

ref = get([(T0, end, data)])
print("one chunk     :", ref["nn"].tolist())
bad = 0
for k in range(1, 40):
    split = int(data["time"][k])
    got = get([(T0, split, data[:k]), (split, end, data[k:])])
    if not np.array_equal(got["nn"], ref["nn"]):
        bad += 1
        if bad <= 3:
            print(f"split at T0+{split - T0:3d}:", got["nn"].tolist())

WINDOW = 50  # same window as an integer: no chunking dependence
bad_int = sum(
    not np.array_equal(
        get([(T0, int(data["time"][k]), data[:k]), (int(data["time"][k]), end, data[k:])])["nn"],
        ref["nn"],
    )
    for k in range(1, 40)
)
print(f"two-chunk splittings with wrong rows: window=50.0 -> {bad}/39, window=50 -> {bad_int}/39")
if bad:
    print("VIOLATION: OverlapWindowPlugin result depends on the chunking for a float window size")
    sys.exit(1)
print("no violation")
