"""C01 violation 3: the DEFAULT processor settings (threaded_mailbox, allow_lazy=True,
max_workers=None -> lazy mailboxes) dead-lock on a legal plugin graph, while the single-thread
processor and the eager threaded processor return the rows.

Graph:  src -> Multi -> (m1, m2);  m2 -> Over (OverlapWindowPlugin) -> om;  Join(m1, om).

ThreadedMailboxProcessor lets all outputs of a multi-output plugin except the first one it
meets in components.plugins 'flow freely' (threaded_mailbox.py, 'to_flow_freely |=
double_dependency'), and in lazy mode divide_outputs (mailbox.py) fetches the next result of
the plugin only when a driving reader waits on that ONE output mailbox (here m1).  Join reads
m1[0] and om[0]; om lags behind by the overlap window, so om is the pacemaker and Join next
waits for om[1].  That needs m2[1], which is only produced when somebody waits for m1[1] -
nobody does.  With depends_on = ("om", "m1") m2 happens to be the controlling output and it
works, so the result depends on processor, lazy mode and the order of depends_on.
"""
import sys
import time
import warnings
import numpy as np
import strax

warnings.filterwarnings("ignore")
VT = strax.time_fields + [("v", np.int64)]
CHUNKS = []


class Src(strax.Plugin):
    depends_on = tuple()
    provides = "src"
    data_kind = "a"
    dtype = VT

    def compute(self, chunk_i):
        s, e, d = CHUNKS[chunk_i]
        return self.chunk(start=s, end=e, data=d)

    def is_ready(self, chunk_i):
        return chunk_i < len(CHUNKS)

    def source_finished(self):
        return True


class Multi(strax.Plugin):
    depends_on = "src"
    provides = ("m1", "m2")
    data_kind = dict(m1="a", m2="b")
    dtype = dict(m1=VT, m2=VT)

    def compute(self, a):
        return dict(m1=a, m2=a[a["v"] % 2 == 0])


class Over(strax.OverlapWindowPlugin):
    depends_on = "m2"
    provides = "om"
    data_kind = "b"
    dtype = VT

    def get_window_size(self):
        return 5

    def compute(self, b):
        return b


class Join(strax.Plugin):
    depends_on = ("m1", "om")
    provides = "join"
    data_kind = "a"
    dtype = VT

    def compute(self, a, b):
        r = a.copy()
        r["v"] += len(b)
        return r


N = 40
a = np.zeros(N, dtype=VT)
a["time"] = np.arange(N) * 10
a["endtime"] = a["time"] + 5
a["v"] = np.arange(N)
CHUNKS[:] = [(i * 100, (i + 1) * 100, a[i * 10 : (i + 1) * 10]) for i in range(4)]

failed = False
for lazy, proc in [(True, "single_thread"), (False, "threaded_mailbox"), (True, "threaded_mailbox")]:
    st = strax.Context(storage=[], register=[Src, Multi, Over, Join], timeout=20, allow_lazy=lazy)
    t0 = time.time()
    try:
        r = st.get_array("0", "join", processor=proc, progress_bar=False)
        print(f"allow_lazy={lazy!s:5} {proc:17}: {len(r)} rows in {time.time() - t0:.1f} s")
    except Exception as e:
        failed = True
        print(f"allow_lazy={lazy!s:5} {proc:17}: {type(e).__name__}: {str(e)[:120]} (after {time.time() - t0:.1f} s)")
if failed:
    print("VIOLATION: no rows with the default (lazy, threaded) processor; it is a dead-lock, not a slow run")
    sys.exit(1)
print("no violation")
