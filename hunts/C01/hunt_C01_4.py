"""C01 violation 4: Plugin.iter gives up after ten 'early split' passes.

Two data kinds whose rows interleave (each kind for itself is sorted and non-overlapping):
   a: [0,10) [10,20) [20,30) ...       b: [5,15) [15,25) [25,35) ...
The whole run in one chunk per source works.  If source a is delivered in two chunks (split
at 200, a legal boundary for a) and b in one chunk, Plugin.iter has to move the common chunk
end back by one row per pass (200 -> 195 -> 190 ...) and raises RuntimeError after ten passes
(strax/plugins/plugin.py, Plugin.iter, 'max_passes_left = 10'), although continuing down to
the start of the buffer (an empty output chunk, keep everything buffered) would be correct.
"""
import sys
import warnings
import numpy as np
import strax

warnings.filterwarnings("ignore")
VT = strax.time_fields + [("v", np.int64)]
SRC = {}


def source(name):
    class _S(strax.Plugin):
        depends_on = tuple()
        provides = name
        data_kind = name
        dtype = VT

        def compute(self, chunk_i):
            s, e, d = SRC[name][chunk_i]
            return self.chunk(start=s, end=e, data=d)

        def is_ready(self, chunk_i):
            return chunk_i < len(SRC[name])

        def source_finished(self):
            return True

    _S.__name__ = "Src_" + name
    return _S


class CountB(strax.Plugin):
    depends_on = ("aa", "bb")
    provides = "count_b"
    data_kind = "aa"
    dtype = strax.time_fields + [("nb", np.int64)]

    def compute(self, aa, bb):
        r = np.zeros(len(aa), self.dtype)
        r["time"] = aa["time"]
        r["endtime"] = aa["endtime"]
        for i in range(len(aa)):
            r["nb"][i] = ((bb["time"] < aa["endtime"][i]) & (bb["endtime"] > aa["time"][i])).sum()
        return r


def get(ca, cb):
    SRC["aa"], SRC["bb"] = ca, cb
    st = strax.Context(storage=[], register=[source("aa"), source("bb"), CountB])
    return st.get_array("0", "count_b", processor="single_thread", progress_bar=False)


N = 30
a = np.zeros(N, dtype=VT)
a["time"] = np.arange(N) * 10
a["endtime"] = a["time"] + 10
b = np.zeros(N - 1, dtype=VT)
b["time"] = np.arange(N - 1) * 10 + 5
b["endtime"] = b["time"] + 10
end = N * 10

ref = get([(0, end, a)], [(0, end, b)])
print("one chunk per source:", len(ref), "rows")
try:
    got = get([(0, 200, a[:20]), (200, end, a[20:])], [(0, end, b)])
    print("a in two chunks     :", len(got), "rows, identical:", np.array_equal(got, ref))
    if np.array_equal(got, ref):
        print("no violation")
        sys.exit(0)
except Exception as e:
    print("a in two chunks     :", type(e).__name__, str(e)[:160].replace("\n", " "))
print("VIOLATION: result (here: a crash) depends on how source a is chunked")
sys.exit(1)
