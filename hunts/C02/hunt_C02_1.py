"""C02 hunt 1: storage keys of a plugin with __version__ = None (auto version) differ
between processes, so data written by one process is never found by the next one.

Plugin._auto_version (strax/plugins/plugin.py) hashes every class attribute; for the
properties of the Plugin base class (run_id, first_chunk, is_superrun, multi_output, log)
it falls back to str(obj) == '<property object at 0x7f...>', i.e. a memory address.
"""

import os
import subprocess
import sys
import tempfile
import shutil

CHILD = r"""
import sys, logging
import numpy as np
import strax
logging.getLogger("strax").setLevel(logging.ERROR)

class Numbers(strax.Plugin):
    __version__ = None          # documented switch for the automatic version
    depends_on = ()
    provides = "numbers"
    dtype = strax.time_fields
    rechunk_on_save = False

    def is_ready(self, chunk_i):
        return chunk_i < 1

    def source_finished(self):
        return True

    def compute(self, chunk_i):
        r = np.zeros(3, self.dtype)
        r["time"] = np.arange(3) * 10
        r["endtime"] = r["time"] + 5
        return self.chunk(start=0, end=100, data=r)

st = strax.Context(storage=sys.argv[1], register=[Numbers])
stored_before = st.is_stored("0", "numbers")
st.make("0", "numbers", progress_bar=False)
print(Numbers.version(), str(st.key_for("0", "numbers")), stored_before)
"""


def main():
    storage = tempfile.mkdtemp()
    script = os.path.join(storage, "child.py")
    with open(script, "w") as f:
        f.write(CHILD)
    data_dir = os.path.join(storage, "data")
    env = dict(os.environ)
    # same hash seed on purpose: the difference is not even due to hash randomisation
    env["PYTHONHASHSEED"] = "0"
    results = []
    try:
        for i in range(3):
            out = subprocess.run(
                [sys.executable, script, data_dir],
                env=env,
                capture_output=True,
                text=True,
                check=True,
            ).stdout.strip().splitlines()[-1]
            version, key, stored_before = out.split()
            print(f"process {i}: version={version} key={key} found_stored_data_at_start={stored_before}")
            results.append((version, key, stored_before))
        folders = sorted(x for x in os.listdir(data_dir))
        print("folders in the shared storage directory:", folders)
    finally:
        shutil.rmtree(storage)

    keys = {r[1] for r in results}
    if len(keys) != 1 or any(r[2] != "True" for r in results[1:]):
        print(
            f"VIOLATION: identical plugin code and settings gave {len(keys)} different storage keys "
            "in 3 processes; data made by an earlier process is not reused."
        )
        return 1
    print("OK: keys identical across processes")
    return 0


if __name__ == "__main__":
    sys.exit(main())
