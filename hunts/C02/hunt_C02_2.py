"""C02 hunt 2: fuzzy matching rejects stored data whose lineage differs ONLY in the
fuzzy option, as soon as some other (unchanged!) tracked option has a value that does not
survive the json round trip of the metadata unchanged: a dict with integer keys
({0: 1.0} is stored as {"0": 1.0}) or a float nan (nan != nan once it is another object).

StorageFrontend._matches (strax/storage/common.py) compares
hashablize(lineage read from metadata.json) with hashablize(lineage of the context);
hashablize only turns lists into tuples, it does not undo the other json conversions
(whereas the lineage *hash* used for exact matching is computed from the json text, so
exact matching of the very same data works fine).
"""

import logging
import shutil
import sys
import tempfile

import numpy as np
import strax

logging.getLogger("strax").setLevel(logging.ERROR)


def make_plugin():
    @strax.takes_config(
        strax.Option("gains", default=None, help="per-channel gain"),
        strax.Option("offset", default=1, help="the option we are fuzzy for"),
    )
    class Numbers(strax.Plugin):
        depends_on = ()
        provides = "numbers"
        dtype = strax.time_fields + [(("Value", "x"), np.float64)]
        rechunk_on_save = False

        def is_ready(self, chunk_i):
            return chunk_i < 1

        def source_finished(self):
            return True

        def compute(self, chunk_i):
            r = np.zeros(3, self.dtype)
            r["time"] = np.arange(3) * 10
            r["endtime"] = r["time"] + 5
            r["x"] = self.config["offset"]
            return self.chunk(start=0, end=100, data=r)

    return Numbers


def scenario(label, gains):
    storage = tempfile.mkdtemp()
    try:
        plugin = make_plugin()
        st = strax.Context(storage=storage, register=[plugin], config=dict(gains=gains))
        st.make("0", "numbers", progress_bar=False)  # stored with offset=1
        assert st.is_stored("0", "numbers")

        # Same directory, same plugin, only 'offset' differs and we are fuzzy for it
        st2 = strax.Context(
            storage=storage,
            register=[plugin],
            config=dict(gains=gains, offset=5),
            fuzzy_for_options=("offset",),
        )
        want = st2.lineage("0", "numbers")
        have = st.get_metadata("0", "numbers")["lineage"]
        accepted = st2.is_stored("0", "numbers")
        x = st2.get_array("0", "numbers", progress_bar=False)["x"][0]
        print(f"[{label}] gains={gains!r}")
        print(f"    lineage wanted : {want}")
        print(f"    lineage stored : {have}")
        print(f"    stored data accepted under fuzzy_for_options=('offset',): {accepted};"
              f" x = {x} (1.0 = loaded, 5.0 = recomputed)")
        return accepted
    finally:
        shutil.rmtree(storage)


def main():
    control = scenario("control, str keys", {"0": 1.0, "1": 2.0})
    int_keys = scenario("int keys", {0: 1.0, 1: 2.0})
    nan = scenario("nan value", float("nan"))
    if not control:
        print("unexpected: even the control is not accepted")
        return 2
    if not (int_keys and nan):
        print(
            "VIOLATION: the stored lineage differs from the requested one only in the fuzzy option "
            "'offset', yet the data is not accepted (int-keyed dict accepted: "
            f"{int_keys}, nan accepted: {nan})."
        )
        return 1
    print("OK")
    return 0


if __name__ == "__main__":
    sys.exit(main())
