"""C02 hunt 3: re-registering a same-named plugin with different dependencies does not
change the storage key when the new dependency is already an ancestor anyway -> stale read.

The lineage (Context.__add_lineage_to_plugin, strax/context.py) is a FLAT dict
{data_type: (class name, version, options)} merged over all ancestors; it does not record
which plugin depends on what. So
  (a) 'total' with depends_on=('mid',) and with depends_on=('mid', 'src') have the same key
      ('src' is in the lineage either way, via 'mid'), and
  (b) if 'sel' switches from depends_on='src' to depends_on='mid', the key of a descendant
      'top' that also depends on 'mid' directly does not change (only that of 'sel' does).
"""

import logging
import shutil
import sys
import tempfile

import numpy as np
import strax

logging.getLogger("strax").setLevel(logging.ERROR)


class Src(strax.Plugin):
    depends_on = ()
    provides = "src"
    dtype = strax.time_fields + [(("Some value", "x"), np.float64)]
    rechunk_on_save = False

    def is_ready(self, chunk_i):
        return chunk_i < 1

    def source_finished(self):
        return True

    def compute(self, chunk_i):
        r = np.zeros(3, self.dtype)
        r["time"] = np.arange(3) * 10
        r["endtime"] = r["time"] + 5
        r["x"] = 1
        return self.chunk(start=0, end=100, data=r)


class Mid(strax.Plugin):
    depends_on = "src"
    provides = "mid"
    dtype = strax.time_fields + [(("Another value", "y"), np.float64)]

    def compute(self, src):
        r = np.zeros(len(src), self.dtype)
        r["time"], r["endtime"] = src["time"], src["endtime"]
        r["y"] = src["x"] + 10
        return r


def sum_of_inputs(self, src):
    """Sum all value fields of whatever this plugin depends on."""
    r = np.zeros(len(src), self.dtype)
    r["time"], r["endtime"] = src["time"], src["endtime"]
    for f in src.dtype.names:
        if f not in ("time", "endtime"):
            r[self.out_field] += src[f]
    return r


def make_total(depends_on):
    # same class name, same version: only the dependencies differ
    return type(
        "Total",
        (strax.Plugin,),
        dict(
            depends_on=depends_on,
            provides="total",
            data_kind="src",
            out_field="t",
            dtype=strax.time_fields + [(("Sum of the inputs", "t"), np.float64)],
            compute=sum_of_inputs,
        ),
    )


def make_sel(depends_on):
    return type(
        "Sel",
        (strax.Plugin,),
        dict(
            depends_on=depends_on,
            provides="sel",
            data_kind="src",
            out_field="s",
            dtype=strax.time_fields + [(("Sum of the inputs", "s"), np.float64)],
            compute=sum_of_inputs,
        ),
    )


class Top(strax.Plugin):
    depends_on = ("mid", "sel")
    provides = "top"
    data_kind = "src"
    dtype = strax.time_fields + [(("y + s", "w"), np.float64)]

    def compute(self, src):
        r = np.zeros(len(src), self.dtype)
        r["time"], r["endtime"] = src["time"], src["endtime"]
        r["w"] = src["y"] + src["s"]
        return r


def fresh(plugins, target):
    d = tempfile.mkdtemp()
    try:
        st = strax.Context(storage=d, register=plugins)
        return st.get_array("0", target, progress_bar=False), str(st.key_for("0", target))
    finally:
        shutil.rmtree(d)


def main():
    bad = 0
    storage = tempfile.mkdtemp()
    try:
        # ---- (a) the re-registered plugin itself
        st = strax.Context(storage=storage, register=[Src, Mid, make_total(("mid",))])
        old = st.get_array("0", "total", progress_bar=False)
        key_old = str(st.key_for("0", "total"))
        st.register(make_total(("mid", "src")))
        got = st.get_array("0", "total", progress_bar=False)
        key_new = str(st.key_for("0", "total"))
        exp, key_fresh = fresh([Src, Mid, make_total(("mid", "src"))], "total")
        print("(a) Total.depends_on ('mid',) -> ('mid', 'src')")
        print(f"    key before {key_old}, key after {key_new}, key in a brand-new context {key_fresh}")
        print(f"    t from shared storage: {got['t']}, from a brand-new context: {exp['t']}"
              f" (old value: {old['t']})")
        if key_old == key_new or not np.array_equal(got, exp):
            print("    VIOLATION: key unchanged / stale data returned for 'total'")
            bad += 1

        # ---- (b) a descendant of the re-registered plugin
        st = strax.Context(storage=storage, register=[Src, Mid, make_sel("src"), Top])
        old = st.get_array("0", "top", progress_bar=False)
        key_old, key_sel_old = str(st.key_for("0", "top")), str(st.key_for("0", "sel"))
        st.register(make_sel("mid"))
        got = st.get_array("0", "top", progress_bar=False)
        key_new, key_sel_new = str(st.key_for("0", "top")), str(st.key_for("0", "sel"))
        exp, key_fresh = fresh([Src, Mid, make_sel("mid"), Top], "top")
        print("(b) Sel.depends_on 'src' -> 'mid', descendant Top.depends_on = ('mid', 'sel')")
        print(f"    key of sel before {key_sel_old}, after {key_sel_new}")
        print(f"    key of top before {key_old}, after {key_new}, in a brand-new context {key_fresh}")
        print(f"    w from shared storage: {got['w']}, from a brand-new context: {exp['w']}")
        if key_old == key_new or not np.array_equal(got, exp):
            print("    VIOLATION: key of descendant 'top' unchanged / stale data returned")
            bad += 1
    finally:
        shutil.rmtree(storage)
    return 1 if bad else 0


if __name__ == "__main__":
    sys.exit(main())
