"""C02 hunt 4: a version bump of a plugin does not reach the key of a child plugin that
inherits from it over two levels (child of a child) -> stale read.

For a plugin with child_plugin = True, Context.__add_lineage_to_plugin (strax/context.py)
adds name and version of the parent to the lineage, so that a change of the inherited code
invalidates the child's data. It only loops over plugin.__class__.__bases__, i.e. the DIRECT
base classes. For Grand(Child(Parent)) the lineage of 'grand' holds the version of Child but
not that of Parent, although Grand.compute runs Parent.compute through super().
"""

import logging
import shutil
import sys
import tempfile

import numpy as np
import strax

logging.getLogger("strax").setLevel(logging.ERROR)


class Src(strax.Plugin):
    depends_on = ()
    provides = "src"
    dtype = strax.time_fields
    rechunk_on_save = False

    def is_ready(self, chunk_i):
        return chunk_i < 1

    def source_finished(self):
        return True

    def compute(self, chunk_i):
        r = np.zeros(3, self.dtype)
        r["time"] = np.arange(3) * 10
        r["endtime"] = r["time"] + 5
        return self.chunk(start=0, end=100, data=r)


def plugins(parent_version, factor):
    """The 'module' with the three plugins; (parent_version, factor) is what a developer edits:
    the algorithm of Parent changes (factor) and its version is bumped accordingly."""

    @strax.takes_config(strax.Option("scale", default=1))
    class Parent(strax.Plugin):
        __version__ = parent_version
        depends_on = "src"
        provides = "parent"
        dtype = strax.time_fields + [(("Value", "y"), np.float64)]

        def compute(self, src):
            r = np.zeros(len(src), self.dtype)
            r["time"], r["endtime"] = src["time"], src["endtime"]
            r["y"] = factor * self.config["scale"]
            return r

    @strax.takes_config(
        strax.Option("scale_child", default=2, child_option=True, parent_option_name="scale")
    )
    class Child(Parent):
        __version__ = "0.0.1"
        child_plugin = True
        provides = "child"

        def compute(self, src):
            return super().compute(src)

    @strax.takes_config(
        strax.Option("scale_grand", default=3, child_option=True, parent_option_name="scale")
    )
    class Grand(Child):
        __version__ = "0.0.1"
        child_plugin = True
        provides = "grand"

        def compute(self, src):
            return super().compute(src)

    return [Src, Parent, Child, Grand]


def main():
    storage = tempfile.mkdtemp()
    fresh_dir = tempfile.mkdtemp()
    try:
        st = strax.Context(storage=storage, register=plugins("1.0.0", factor=1))
        before = {}
        for t in ("parent", "child", "grand"):
            before[t] = (str(st.key_for("0", t)), st.get_array("0", t, progress_bar=False)["y"][0])

        # New release of the module: Parent's algorithm changed, Parent.__version__ bumped
        st.register(plugins("2.0.0", factor=100))
        fresh = strax.Context(storage=fresh_dir, register=plugins("2.0.0", factor=100))

        bad = 0
        for t in ("parent", "child", "grand"):
            key = str(st.key_for("0", t))
            got = st.get_array("0", t, progress_bar=False)["y"][0]
            exp = fresh.get_array("0", t, progress_bar=False)["y"][0]
            print(f"{t:7s} key {before[t][0]} -> {key}   lineage entry {st.lineage('0', t)[t]}")
            print(f"        y: before bump {before[t][1]}, shared storage now {got},"
                  f" brand-new context {exp}")
            if got != exp or key == before[t][0]:
                print(f"        VIOLATION: key of '{t}' unchanged after the version bump of Parent;"
                      " stale data returned")
                bad += 1
    finally:
        shutil.rmtree(storage)
        shutil.rmtree(fresh_dir)
    return 1 if bad else 0


if __name__ == "__main__":
    sys.exit(main())
