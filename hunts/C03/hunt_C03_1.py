"""C03 violation 1: data saved by a saver that was inlined into a worker process
(ParallelSourcePlugin, allow_multiprocess=True, max_workers>1) is marked complete but its
metadata has no overall 'start' / 'end' (Saver.close computes them from md['chunks'] BEFORE
FileSaver._close collects the per-chunk metadata_*.json files written by the worker processes)."""
import os, sys, shutil, tempfile
_nb = tempfile.mkdtemp(prefix="nb_"); os.environ.setdefault("NUMBA_CACHE_DIR", _nb)
import numpy as np
import strax

N_CHUNKS = 4


class Src(strax.Plugin):
    provides = "src"
    depends_on = ()
    dtype = strax.time_fields + [("x", np.int64)]
    parallel = "process"
    rechunk_on_save = False

    def source_finished(self):
        return True

    def is_ready(self, chunk_i):
        return chunk_i < N_CHUNKS

    def compute(self, chunk_i):
        d = np.zeros(5, self.dtype)
        d["time"] = 1000 + chunk_i * 100 + np.arange(5) * 10
        d["endtime"] = d["time"] + 5
        d["x"] = chunk_i
        return self.chunk(start=1000 + chunk_i * 100, end=1000 + (chunk_i + 1) * 100, data=d)


class Child(strax.Plugin):
    provides = "child"
    depends_on = "src"
    dtype = strax.time_fields + [("y", np.int64)]
    parallel = "process"
    rechunk_on_save = False

    def compute(self, src):
        d = np.zeros(len(src), self.dtype)
        d["time"], d["endtime"], d["y"] = src["time"], src["endtime"], 2 * src["x"]
        return d


def run(max_workers):
    tmp = tempfile.mkdtemp(prefix="hunt_C03_1_")
    try:
        st = strax.Context(
            storage=[strax.DataDirectory(tmp)],
            register=[Src, Child],
            allow_multiprocess=True,
            allow_lazy=False,
            timeout=120,
        )
        st.make("r0", "child", max_workers=max_workers, processor="threaded_mailbox")
        out = {}
        for t in ("src", "child"):
            md = st.get_metadata("r0", t)
            out[t] = dict(
                start=md.get("start"),
                end=md.get("end"),
                complete="writing_ended" in md and "exception" not in md,
                chunk_ranges=[(c["start"], c["end"]) for c in md["chunks"]],
            )
        return out
    finally:
        shutil.rmtree(tmp, ignore_errors=True)


if __name__ == "__main__":
    bad = 0
    for mw in (1, 2):
        for t, info in run(mw).items():
            expected = (info["chunk_ranges"][0][0], info["chunk_ranges"][-1][1])
            ok = (info["start"], info["end"]) == expected
            print(
                f"max_workers={mw} {t}: complete={info['complete']} metadata start/end="
                f"{info['start']}/{info['end']} chunks say {expected} -> {'ok' if ok else 'VIOLATION'}"
            )
            bad += not ok
    shutil.rmtree(_nb, ignore_errors=True)
    if bad:
        print(f"FAIL: {bad} stored data sets are marked complete but lack overall start/end")
        sys.exit(1)
    print("no violation")
