"""C03 violation 2: the completion marker does not agree with the files.
Saver.close() records sys.exc_info() as md['exception'] - also when the exception being handled
has nothing to do with the saving (the caller merely is inside an `except` block).
A perfectly complete copy is then flagged as broken and can never be loaded."""
import os, sys, json, glob, shutil, tempfile
_nb = tempfile.mkdtemp(prefix="nb_"); os.environ.setdefault("NUMBA_CACHE_DIR", _nb)
import numpy as np
import strax


class Src(strax.Plugin):
    provides = "src"
    depends_on = ()
    dtype = strax.time_fields

    def source_finished(self):
        return True

    def is_ready(self, chunk_i):
        return chunk_i < 2

    def compute(self, chunk_i):
        d = np.zeros(2, self.dtype)
        d["time"] = chunk_i * 100 + np.arange(2) * 10
        d["endtime"] = d["time"] + 5
        return self.chunk(start=chunk_i * 100, end=(chunk_i + 1) * 100, data=d)


a = tempfile.mkdtemp(prefix="hunt_C03_2a_")
b = tempfile.mkdtemp(prefix="hunt_C03_2b_")
bad = 0
try:
    # --- A. plain saver, closed while an unrelated exception is being handled
    dt = np.dtype(strax.time_fields)
    d = np.zeros(1, dt); d["time"] = 1; d["endtime"] = 3
    chunk = strax.Chunk(data_type="x", data_kind="x", dtype=dt, run_id="r0", start=0, end=10, data=d)
    be = strax.FileSytemBackend()
    dirname = os.path.join(a, "r0-x-abcdef")
    try:
        raise KeyError("something unrelated")
    except KeyError:
        saver = be.saver(dirname, dict(run_id="r0", data_type="x", data_kind="x", dtype=dt))
        saver.save_from((c for c in [chunk]), rechunk=False)
    md = be.get_metadata(dirname)
    loaded = list(be.loader(dirname))
    print("A: all rows readable:", len(loaded) == 1 and loaded[0].data.tobytes() == d.tobytes(),
          "| 'exception' in metadata:", "exception" in md)
    bad += "exception" in md

    # --- B. the same through the public Context API (copy_to_frontend as a fallback)
    st = strax.Context(storage=[strax.DataDirectory(a), strax.DataDirectory(b, readonly=True)],
                       register=[Src])
    st.make("r0", "src")
    st.storage[1].readonly = False
    st_b = strax.Context(storage=[strax.DataDirectory(b)], register=[Src],
                         forbid_creation_of=("src",))
    try:
        st_b.get_array("r0", "src")  # not there yet
    except strax.DataNotAvailable:
        st.copy_to_frontend("r0", "src", target_frontend_id=1)  # ... so copy it
    md = json.load(open(glob.glob(b + "/r0-src-*/*metadata.json")[0]))
    files_ok = all(os.path.exists(os.path.join(glob.glob(b + "/r0-src-*")[0], c["filename"]))
                   for c in md["chunks"] if c["n"])
    print("B: copy finished, all chunk files present:", files_ok, "| writing_ended:",
          "writing_ended" in md, "| 'exception' in metadata:", "exception" in md)
    print("B: is_stored in target frontend:", st_b.is_stored("r0", "src"))
    if "exception" in md:
        print("   recorded 'exception':", md["exception"].strip().splitlines()[-1][:150])
    bad += ("exception" in md) or not st_b.is_stored("r0", "src")
finally:
    shutil.rmtree(a, ignore_errors=True); shutil.rmtree(b, ignore_errors=True)
    shutil.rmtree(_nb, ignore_errors=True)
if bad:
    print("FAIL: complete data carries an 'exception' marker (treated as corrupted / not available)")
    sys.exit(1)
print("no violation")
