"""C03 violation 3: structured dtypes with padding (np.dtype(..., align=True), or explicit
offsets / itemsize, e.g. what numpy multi-field indexing produces) do not survive save -> load.
StorageBackend.saver stores dtype.descr, which describes padding as anonymous ('', '|V<n>')
entries; the loader feeds that list to np.frombuffer, so numpy invents extra fields 'f<i>'.
Bytes are the same, but the loaded rows have a different dtype (extra columns), for every
compressor, and can not even be compared to what was written."""
import os, sys, shutil, tempfile
_nb = tempfile.mkdtemp(prefix="nb_"); os.environ.setdefault("NUMBA_CACHE_DIR", _nb)
import numpy as np
import strax

dtypes = dict(
    aligned=np.dtype(strax.time_fields + [("flag", np.int8), ("area", np.float64)], align=True),
    offsets=np.dtype(dict(names=["time", "endtime", "q"], formats=["<i8", "<i8", "<i4"],
                          offsets=[0, 8, 20], itemsize=32)),
)
bad = 0
tmp = tempfile.mkdtemp(prefix="hunt_C03_3_")
try:
    be = strax.FileSytemBackend()
    for name, dt in dtypes.items():
        for comp in ("blosc", "zstd", "lz4", "bz2"):
            d = np.zeros(3, dt)
            d["time"] = [1, 5, 9]; d["endtime"] = d["time"] + 2; d[dt.names[2]] = 1
            chunk = strax.Chunk(data_type="x", data_kind="x", dtype=dt, run_id="r0",
                                start=0, end=20, data=d)
            dirname = os.path.join(tmp, f"r0-x-{name}{comp}")
            saver = be.saver(dirname, dict(run_id="r0", data_type="x", data_kind="x", dtype=dt,
                                           compressor=comp))
            saver.save_from((c for c in [chunk]), rechunk=False)
            got = list(be.loader(dirname))[0].data
            same = got.dtype == d.dtype
            try:
                equal = bool(np.array_equal(got, d))
            except Exception as e:
                equal = f"{type(e).__name__}"
            print(f"{name:8s}{comp:6s} written fields {d.dtype.names} -> loaded fields "
                  f"{got.dtype.names}; dtype equal: {same}; array_equal: {equal}; "
                  f"bytes equal: {got.tobytes() == d.tobytes()}")
            bad += not same
finally:
    shutil.rmtree(tmp, ignore_errors=True); shutil.rmtree(_nb, ignore_errors=True)
if bad:
    print(f"FAIL: {bad} round trips returned rows of a different dtype than was written")
    sys.exit(1)
print("no violation")
