"""C03 violation 4 (thread-pool saving, needs one particular interleaving): Saver.save_from polls
the pending write futures twice,

        for f in pending:
            if f.done() and f.exception() is not None: raise ...
        pending = [f for f in pending if not f.done()]

A write that FAILS between the two polls is seen as 'not done' by the first and 'done' by the
second: it is dropped without anybody looking at its exception. The data set is then closed as
complete (writing_ended, no 'exception', renamed to its final directory) although a chunk file
listed in the metadata does not exist.

The interleaving is produced deterministically with an Executor whose first future completes
exactly between two consecutive done() polls (a legal history of a concurrent.futures.Future);
the write failure is a plain OSError from strax.save_file (a directory is in the way of the
chunk's temporary file - stands for disk full / quota / permission problems)."""
import os, sys, shutil, tempfile
_nb = tempfile.mkdtemp(prefix="nb_"); os.environ.setdefault("NUMBA_CACHE_DIR", _nb)
from concurrent.futures import Future, Executor
import numpy as np
import strax


class LateFuture(Future):
    """Runs its job at the moment of the 2nd done() poll: poll 1 -> False, poll 2 -> True."""

    def __init__(self, fn, args, kwargs):
        super().__init__()
        self._job, self._polls = (fn, args, kwargs), 0

    def done(self):
        self._polls += 1
        if self._polls == 2 and self._job is not None:
            (fn, a, kw), self._job = self._job, None
            try:
                self.set_result(fn(*a, **kw))
            except BaseException as e:
                self.set_exception(e)
        return super().done()


class Ex(Executor):
    n = 0

    def submit(self, fn, *a, **kw):
        self.n += 1
        f = LateFuture(fn, a, kw)
        if self.n > 1:  # every later write finishes immediately
            f._polls = 1
            f.done()
        return f


dt = np.dtype(strax.time_fields + [("x", "<i8")])
chunks = []
for i in range(3):
    d = np.zeros(1, dt); d["time"] = i * 10 + 1; d["endtime"] = i * 10 + 3; d["x"] = i
    chunks.append(strax.Chunk(data_type="x", data_kind="x", dtype=dt, run_id="r0",
                              start=i * 10, end=i * 10 + 10, data=d))
tmp = tempfile.mkdtemp(prefix="hunt_C03_4_")
bad = 0
try:
    dirname = os.path.join(tmp, "r0-x-abcdef")
    be = strax.FileSytemBackend()
    saver = be.saver(dirname, dict(run_id="r0", data_type="x", data_kind="x", dtype=dt,
                                   compressor="zstd"))
    # make the write of chunk 0 fail with an OSError
    os.makedirs(os.path.join(dirname + "_temp", "x-abcdef-000000_temp"))
    try:
        saver.save_from((c for c in chunks), rechunk=False, executor=Ex())
        print("save_from returned normally, saver.got_exception =", saver.got_exception)
    except Exception as e:
        print("save_from raised (good):", type(e).__name__, e)
    if os.path.isdir(dirname):
        md = be.get_metadata(dirname)
        complete = "writing_ended" in md and "exception" not in md
        missing = [c["filename"] for c in md["chunks"]
                   if c["n"] and not os.path.isfile(os.path.join(dirname, c["filename"]))]
        print("final directory exists; marked complete:", complete, "| chunk files missing:", missing)
        try:
            n = sum(len(c) for c in be.loader(dirname))
            print("loaded rows:", n)
        except Exception as e:
            print("loading fails:", type(e).__name__, str(e).splitlines()[0][:120])
        bad = complete and bool(missing)
finally:
    shutil.rmtree(tmp, ignore_errors=True); shutil.rmtree(_nb, ignore_errors=True)
if bad:
    print("FAIL: data marked complete although a chunk write failed and its file is missing")
    sys.exit(1)
print("no violation")
