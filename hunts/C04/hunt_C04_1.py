"""C04 violation 1: inlined (forked) savers publish incomplete data as valid.

With allow_multiprocess=True and max_workers>1, ThreadedMailboxProcessor inlines `src` and `mid`
(parallel='process', rechunk_on_save=False) and their savers into one ParallelSourcePlugin.
One chunk (chunk 3 of 8) of `mid` raises in its worker process.

Expected (C04): make() raises, and afterwards src / mid are either unavailable or complete.
Observed: make() raises, but src and mid are renamed to their final directory WITHOUT an
'exception' entry and WITHOUT chunk 3: Context.is_stored says True, loading them fails
("Data is not continuous").  Worse, retrying the identical request (crash gone) loads the
incomplete `mid` as a dependency, and silently computes and stores a `top` with 70 instead of
80 rows, which then loads without any error.

Why: strax/plugins/plugin.py  Plugin.iter, line ~552
        pending_futures = [f for f in pending_futures if not f.done()]
     forgets futures that are done *including the ones that failed*.  When the input is
     exhausted, ParallelSourcePlugin.cleanup -> Saver.close(wait_for=pending_futures) only
     inspects the futures still pending, sees no exception, and FileSaver._close renames
     <dir>_temp to <dir>.  The failed future is only noticed later by the (slower) consumer of
     the mailbox, after the savers were closed "successfully".
"""
import os
import shutil
import sys
import tempfile
import time

import numpy as np
import strax

N_CHUNKS = 8
N_PER = 10
DT = 100
FAIL_CHUNK = 3


class Src(strax.Plugin):
    """Online-like source: a new chunk becomes ready every 0.1 s."""

    provides = "src"
    depends_on = ()
    dtype = strax.time_fields + [(("x value", "x"), np.int64)]
    rechunk_on_save = False
    parallel = "process"

    def source_finished(self):
        return True

    def is_ready(self, chunk_i):
        if chunk_i < N_CHUNKS:
            time.sleep(0.1)
            return True
        return False

    def compute(self, chunk_i):
        r = np.zeros(N_PER, self.dtype)
        r["time"] = chunk_i * N_PER * DT + np.arange(N_PER) * DT
        r["endtime"] = r["time"] + DT
        r["x"] = np.arange(N_PER) + chunk_i * N_PER
        return self.chunk(start=chunk_i * N_PER * DT, end=(chunk_i + 1) * N_PER * DT, data=r)


class Mid(strax.Plugin):
    provides = "mid"
    depends_on = ("src",)
    data_kind = "src"
    dtype = strax.time_fields + [(("y value", "y"), np.int64)]
    rechunk_on_save = False
    parallel = "process"

    def compute(self, src, chunk_i):
        if chunk_i == FAIL_CHUNK:
            raise RuntimeError(f"plugin crash in chunk {chunk_i}")
        r = np.zeros(len(src), self.dtype)
        r["time"] = src["time"]
        r["endtime"] = src["endtime"]
        r["y"] = src["x"] * 2
        return r


class Top(strax.Plugin):
    """A consumer that is slower than the source (0.5 s per chunk); runs in the main process."""

    provides = "top"
    depends_on = ("mid",)
    data_kind = "src"
    dtype = strax.time_fields + [(("z value", "z"), np.int64)]
    parallel = False

    def compute(self, src):
        time.sleep(0.5)
        r = np.zeros(len(src), self.dtype)
        r["time"] = src["time"]
        r["endtime"] = src["endtime"]
        r["z"] = src["y"] + 1
        return r


def main():
    root = tempfile.mkdtemp(prefix="hunt_c04_1_")
    data = os.path.join(root, "data")

    def context(**kw):
        return strax.Context(
            storage=[strax.DataDirectory(data)],
            register=[Src, Mid, Top],
            allow_multiprocess=True,
            allow_lazy=False,
            timeout=60,
            saver_timeout=60,
            **kw,
        )

    def make(st):
        st.make(
            "0",
            "top",
            save=("src", "mid", "top"),
            max_workers=3,
            processor="threaded_mailbox",
            progress_bar=False,
        )

    st = context()
    err = None
    devnull = open(os.devnull, "w")
    stderr_fd = os.dup(2)
    os.dup2(devnull.fileno(), 2)  # silence the (expected) tracebacks of the worker threads
    try:
        try:
            make(st)
        except BaseException as e:
            err = e
    finally:
        os.dup2(stderr_fd, 2)
    print("make() raised:", repr(err))

    violations = []
    st = context(forbid_creation_of="*")
    for dt, field, mul, add in (("src", "x", 1, 0), ("mid", "y", 2, 0), ("top", "z", 2, 1)):
        stored = st.is_stored("0", dt)
        print(f"is_stored('0', '{dt}') = {stored}")
        if not stored:
            continue
        md = st.get_metadata("0", dt)
        print(
            f"   metadata: chunks {[c['chunk_i'] for c in md['chunks']]},"
            f" 'exception' in metadata: {'exception' in md}"
        )
        try:
            a = st.get_array("0", dt, progress_bar=False)
            exp = np.arange(N_CHUNKS * N_PER) * mul + add
            if len(a) != len(exp) or not np.array_equal(a[field], exp):
                violations.append(f"{dt}: stored, loads {len(a)} rows instead of {len(exp)}")
        except Exception as e:
            violations.append(f"{dt}: is_stored=True but loading raises {type(e).__name__}: {e}")

    # Retry of the identical request, now without the crash
    global FAIL_CHUNK
    FAIL_CHUNK = -1
    st = context()
    try:
        os.dup2(devnull.fileno(), 2)
        try:
            make(st)
            ok = st.is_stored("0", "top")
        finally:
            os.dup2(stderr_fd, 2)
        print("retry without crash: make() returned, top stored:", ok)
        if not ok:
            violations.append("retry: top still not stored")
        else:
            a = context(forbid_creation_of="*").get_array("0", "top", progress_bar=False)
            exp = np.arange(N_CHUNKS * N_PER) * 2 + 1
            print(f"   top after retry: {len(a)} rows, expected {len(exp)}")
            if len(a) != len(exp) or not np.array_equal(a["z"], exp):
                missing = sorted(int(v) for v in set(exp) - set(a["z"]))
                violations.append(
                    f"retry SILENTLY stored WRONG top (built from the incomplete mid): {len(a)} rows"
                    f" instead of {len(exp)}; missing z values {missing[:3]}..{missing[-1:]}"
                )
    except Exception as e:
        violations.append(f"retry of the identical request (no fault any more) raises "
                          f"{type(e).__name__}: {str(e)[:160]}")

    shutil.rmtree(root, ignore_errors=True)
    if violations:
        print("\nC04 VIOLATED:")
        for v in violations:
            print(" -", v)
        return 1
    print("no violation observed")
    return 0


if __name__ == "__main__":
    sys.exit(main())
