"""C04 violation 2: dying while the old (broken) data is being removed wedges the data type.

1. make('src') fails with a plugin exception -> '0-src-<hash>' is (correctly) left with an
   'exception' entry in its metadata, is_stored is False.
2. The identical request is repeated (crash gone).  FileSaver.__init__ removes the broken
   directory with shutil.rmtree(dirname) (strax/storage/files.py line ~308).  The process dies
   (here: os._exit in a forked child) inside that removal: the files are gone, the directory
   itself is still there.  The same state arises from an OSError during the removal, or from
   death after the metadata file was unlinked but before the chunk files were.
3. From now on, without any fault:
     - Context.is_stored('0', 'src') RAISES strax.DataCorrupted instead of returning False
     - Context.make('0', 'src') raises DataCorrupted in get_components, forever;
       the data is never recomputed until someone deletes the directory by hand.

Why: DataDirectory._find (files.py ~l.98/118) treats any existing directory with the right name
as a match; StorageFrontend.find (common.py ~l.360) and _can_overwrite (~l.414) then call
get_metadata, FileSytemBackend._get_metadata raises DataCorrupted("... has no metadata")
(files.py ~l.248), and neither Context._is_stored_in_sf / _get_partial_loader_for
(only `except DataNotAvailable`) nor find(write=True) / _add_saver handle DataCorrupted.
"""
import io
import contextlib
import os
import shutil
import sys
import tempfile

import numpy as np
import strax

N_CHUNKS = 5


class Src(strax.Plugin):
    provides = "src"
    depends_on = ()
    dtype = strax.time_fields + [(("x value", "x"), np.int64)]
    crash = True

    def source_finished(self):
        return True

    def is_ready(self, chunk_i):
        return chunk_i < N_CHUNKS

    def compute(self, chunk_i):
        if chunk_i == 3 and Src.crash:
            raise RuntimeError("plugin crash")
        r = np.zeros(10, self.dtype)
        r["time"] = chunk_i * 1000 + np.arange(10) * 100
        r["endtime"] = r["time"] + 100
        r["x"] = np.arange(10) + chunk_i * 10
        return self.chunk(start=chunk_i * 1000, end=(chunk_i + 1) * 1000, data=r)


def quiet_make(st):
    with contextlib.redirect_stdout(io.StringIO()):
        st.make("0", "src", progress_bar=False)


def main():
    root = tempfile.mkdtemp(prefix="hunt_c04_2_")
    data = os.path.join(root, "data")
    new_context = lambda: strax.Context(storage=[strax.DataDirectory(data)], register=[Src])

    # 1. plugin crash
    st = new_context()
    try:
        quiet_make(st)
    except Exception as e:
        print("1. first make raised:", repr(e))
    print("   is_stored:", st.is_stored("0", "src"), " dirs:", os.listdir(data))
    Src.crash = False

    # 2. retry in a child process that dies while removing the old data
    pid = os.fork()
    if pid == 0:
        real_rmdir = os.rmdir

        def dying_rmdir(path, *args, **kwargs):
            # abrupt death just before the last operation of the removal of the old data
            os._exit(137)

        os.rmdir = dying_rmdir
        try:
            quiet_make(new_context())
        finally:
            os._exit(0)
    _, status = os.waitpid(pid, 0)
    print("2. retry process died with exit status", os.waitstatus_to_exitcode(status))
    print("   dirs:", {d: os.listdir(os.path.join(data, d)) for d in os.listdir(data)})

    # 3. no more faults
    violations = []
    st = new_context()
    try:
        print("3. is_stored:", st.is_stored("0", "src"))
    except Exception as e:
        violations.append(f"is_stored raises {type(e).__name__}: {e}")
    for attempt in (1, 2):
        try:
            quiet_make(new_context())
            a = new_context().get_array("0", "src", progress_bar=False)
            assert np.array_equal(a["x"], np.arange(10 * N_CHUNKS))
            print(f"   attempt {attempt}: recomputed fine")
            break
        except Exception as e:
            violations.append(
                f"fault-free retry #{attempt} of the identical request raises "
                f"{type(e).__name__}: {e}"
            )

    shutil.rmtree(root, ignore_errors=True)
    if violations:
        print("\nC04 VIOLATED:")
        for v in violations:
            print(" -", v)
        return 1
    print("no violation observed")
    return 0


if __name__ == "__main__":
    sys.exit(main())
