"""C04 violation 3 (lower severity): an I/O error on directory creation turns the save into a
silent no-op that is reported as success.

FileSytemBackend._saver (strax/storage/files.py ~l.272-279) converts *any* OSError of
os.makedirs(parent_dir, exist_ok=True) into strax.DataNotAvailable, and Context._add_saver
(strax/context.py ~l.1504) swallows DataNotAvailable ("This frontend cannot save. Too bad.").
So st.make(run, 'src', save='src') returns normally although nothing was saved: a failed save
is reported to the caller as a success.
"""
import os
import shutil
import sys
import tempfile

import numpy as np
import strax


class Src(strax.Plugin):
    provides = "src"
    depends_on = ()
    dtype = strax.time_fields + [(("x value", "x"), np.int64)]

    def source_finished(self):
        return True

    def is_ready(self, chunk_i):
        return chunk_i < 3

    def compute(self, chunk_i):
        r = np.zeros(10, self.dtype)
        r["time"] = chunk_i * 1000 + np.arange(10) * 100
        r["endtime"] = r["time"] + 100
        return self.chunk(start=chunk_i * 1000, end=(chunk_i + 1) * 1000, data=r)


def main():
    root = tempfile.mkdtemp(prefix="hunt_c04_3_")
    data = os.path.join(root, "data")
    st = strax.Context(storage=[strax.DataDirectory(data)], register=[Src])

    real_makedirs = os.makedirs
    n_faults = [0]

    def faulty_makedirs(path, *a, **kw):
        if os.path.abspath(path) == os.path.abspath(data) and n_faults[0] == 0:
            n_faults[0] += 1
            raise OSError(5, "Input/output error (injected)", path)
        return real_makedirs(path, *a, **kw)

    os.makedirs = faulty_makedirs
    err = None
    try:
        st.make("0", "src", save="src", progress_bar=False)
    except Exception as e:
        err = e
    finally:
        os.makedirs = real_makedirs

    stored = st.is_stored("0", "src")
    print(f"injected I/O errors: {n_faults[0]}; make raised: {err!r}; is_stored: {stored};"
          f" dirs: {os.listdir(data)}")
    shutil.rmtree(root, ignore_errors=True)
    if n_faults[0] and err is None and not stored:
        print("C04 VIOLATED: the save failed with an I/O error, make() reported success "
              "and nothing was stored")
        return 1
    print("no violation observed")
    return 0


if __name__ == "__main__":
    sys.exit(main())
