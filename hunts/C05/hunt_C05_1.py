"""C05 violation 1: in eager mode more than `max_messages` undelivered messages are held.

Mailbox._read() moves *every* available message into a private `to_yield` list, marks all
of them as read and pops them from Mailbox._mailbox BEFORE handing even the first one to the
subscriber (mailbox.py lines 391-418).  The sender is then allowed to refill the mailbox
completely, so up to 2*max_messages-1 sent-but-undelivered messages are alive.

Part A is single threaded and fully deterministic; part B shows the same with the
high-level add_sender/add_reader API and a slow reader.
"""
import gc
import sys
import threading
import time
import weakref

import strax

CAP = 4
fail = False


class Msg:
    def __init__(self, i):
        self.i = i


# ---------------- Part A: deterministic, one thread ----------------
mb = strax.Mailbox(max_messages=CAP, timeout=2)
sub = mb.subscribe()
refs = []
n_sent = 0
for i in range(CAP):  # fill the mailbox to its capacity; none of these calls block
    m = Msg(i)
    refs.append(weakref.ref(m))
    mb.send(m)
    n_sent += 1
    del m
first = next(sub)  # the subscriber takes delivery of exactly ONE message
assert first.i == 0
n_delivered = 1
# The mailbox now claims to be empty although only one message was delivered ...
print(f"A: after delivering 1 of {CAP} messages len(_mailbox) = {len(mb._mailbox)}")
# ... so a full extra capacity of messages is accepted without blocking (timeout would raise)
for i in range(CAP, 2 * CAP):
    m = Msg(i)
    refs.append(weakref.ref(m))
    mb.send(m)
    n_sent += 1
    del m
del first
gc.collect()
alive = sorted(r().i for r in refs if r() is not None and r().i >= n_delivered)
undelivered = n_sent - n_delivered
print(f"A: capacity={CAP} sent={n_sent} delivered={n_delivered} undelivered={undelivered}")
print(f"A: undelivered message objects still alive (held by mailbox + its reader): {alive}")
if undelivered > CAP or len(alive) > CAP:
    print(f"A: VIOLATION: {len(alive)} undelivered messages held > capacity {CAP}")
    fail = True
# sanity: order / completeness is still right
rest = [next(sub).i for _ in range(1, 2 * CAP)]
mb.close()
assert rest + [m.i for m in sub] == list(range(1, 2 * CAP)), rest

# ---------------- Part B: threads, high level API ----------------
for cap in (2, 4):
    mb = strax.Mailbox(max_messages=cap, timeout=5)
    produced = []
    consumed = []
    worst = [0]
    go = threading.Event()

    def source():
        for i in range(20):
            produced.append(i)
            yield i

    def reader(it):
        for x in it:
            consumed.append(x)
            if x == 0:
                go.wait(3)  # slow on the first message only
            # messages given to send() and accepted, minus messages delivered
            worst[0] = max(worst[0], mb._n_sent - len(consumed))

    mb.add_sender(source())
    # let the sender fill the box before the reader starts
    mb._threads[0].start()
    time.sleep(0.3)
    t = threading.Thread(target=reader, args=(mb.subscribe(),))
    t.start()
    time.sleep(0.5)
    held = mb._n_sent - len(consumed)
    print(
        f"B: capacity={cap}: reader got {len(consumed)} message(s); sender already produced "
        f"{len(produced)}, mailbox accepted {mb._n_sent} -> {held} accepted-but-undelivered"
    )
    if held > cap:
        print(f"B: VIOLATION: {held} undelivered messages held > capacity {cap}")
        fail = True
    go.set()
    t.join(5)
    mb._threads[0].join(5)
    assert consumed == list(range(20))

sys.exit(1 if fail else 0)
