"""C05 violation 2: lazy divide_outputs dead-locks when one consumer reads two of its outputs.

In lazy mode divide_outputs (mailbox.py lines 488-506) refuses to fetch the next result until
EVERY non-flow_freely output mailbox has a driving subscriber that is currently blocked waiting
for the next message.  A consumer that owns subscriptions to two outputs (exactly what every
strax plugin depending on two outputs of one multi-output plugin does, see
ThreadedMailboxProcessor: `iters={dep: self.mailboxes[dep].subscribe() ...}`) can only block on
one of them at a time, so the divider waits for the second one forever: nobody gets any message,
not even the terminating StopIteration of an EMPTY stream, and everything dies on the timeout.
The same topology works in eager mode, and in lazy mode with one thread per output.
"""
import sys
import threading
from functools import partial

import strax

TIMEOUT = 2


def run(lazy, one_thread, n_msgs):
    names = ["a", "b"]
    mbs = {k: strax.Mailbox(name=k, lazy=lazy, timeout=TIMEOUT) for k in names}
    top = strax.Mailbox(name="top", lazy=lazy, timeout=TIMEOUT)
    top.add_sender(iter([{k: (k, i) for k in names} for i in range(n_msgs)]))
    top.add_reader(partial(strax.divide_outputs, mailboxes=mbs, lazy=lazy))

    results, errors = {}, []

    def zip_reader(it_a, it_b):
        try:
            results["zip"] = list(zip(it_a, it_b))
        except Exception as e:
            errors.append(f"{type(e).__name__}: {str(e)[:110]}")

    def reader(it, key):
        try:
            results[key] = list(it)
        except Exception as e:
            errors.append(f"{type(e).__name__}: {str(e)[:110]}")

    extra = []
    if one_thread:
        extra.append(
            threading.Thread(target=zip_reader, args=(mbs["a"].subscribe(), mbs["b"].subscribe()))
        )
    else:
        for k in names:
            mbs[k].add_reader(reader, key=k)
    for m in [top, *mbs.values()]:
        m.start()
    for t in extra:
        t.start()
    for t in extra:
        t.join(5 * TIMEOUT)
    for m in [top, *mbs.values()]:
        try:
            m.cleanup()
        except RuntimeError as e:
            errors.append(str(e))
    return results, errors


# silence the tracebacks the dying threads print
threading.excepthook = lambda args: None

fail = False
for n_msgs in (0, 3):
    expect = [(("a", i), ("b", i)) for i in range(n_msgs)]
    res, err = run(lazy=False, one_thread=True, n_msgs=n_msgs)
    print(f"eager, one consumer thread, {n_msgs} msgs : {res} errors={err}")
    assert res == {"zip": expect} and not err
    res, err = run(lazy=True, one_thread=False, n_msgs=n_msgs)
    print(f"lazy,  one thread per output, {n_msgs} msgs: {res} errors={err}")
    assert not err
    res, err = run(lazy=True, one_thread=True, n_msgs=n_msgs)
    print(f"lazy,  one consumer thread, {n_msgs} msgs : {res} errors={err}")
    if res != {"zip": expect} or err:
        print("  VIOLATION: subscriber did not receive the messages / did not terminate normally")
        fail = True
sys.exit(1 if fail else 0)
