"""C05 violation 3: add_sender() rejects plain iterables although it documents to accept them.

Mailbox docstring: "A sender can be any iterable."; add_sender: ":param source: Iterable to read
from".  Mailbox._send_from (mailbox.py line 277) calls next(iterable) directly, so any iterable
that is not already an iterator (list, tuple, range, a numpy array, any
object with only __iter__ ...) raises TypeError in the sender thread, the mailbox is killed and every
subscriber gets MailboxKilled instead of the messages.
"""
import sys
import threading

import numpy as np
import strax

threading.excepthook = lambda args: None  # silence the traceback of the dying sender thread

fail = False
for label, source in [
    ("iterator (control)", iter([0, 1, 2])),
    ("list", [0, 1, 2]),
    ("range", range(3)),
    ("numpy array", np.arange(3)),
]:
    for lazy in (False, True):
        mb = strax.Mailbox(timeout=2, lazy=lazy)
        mb.add_sender(source if label != "iterator (control)" else iter([0, 1, 2]))
        got, err = [], []

        def reader(it):
            try:
                for x in it:
                    got.append(int(x))
            except Exception as e:
                err.append(f"{type(e).__name__}({e.args[0][0].__name__}: {e.args[0][1]})")

        mb.add_reader(reader)
        mb.start()
        mb.cleanup()
        ok = got == [0, 1, 2] and not err
        print(f"{label:20s} lazy={lazy!s:5s} received={got} error={err}")
        if not ok:
            fail = True
if fail:
    print("VIOLATION: documented-legal iterable senders deliver nothing; subscribers are killed")
sys.exit(1 if fail else 0)
