"""C06 violation 1: a saver failure on a side output of a multi-output plugin makes the caller
hang until the mailbox timeout and receive MailboxReadTimeout instead of the original exception.

Mechanism (strax/mailbox.py, divide_outputs, the ``else:`` branch at the end):

    else:
        for m in mbs_to_kill:
            m.close()

If one of the output mailboxes was killed (by its failing saver) after divide_outputs sent it the
last chunk, ``m.close()`` -> ``send(StopIteration)`` raises MailboxKilled.  That exception escapes
from the ``else:`` branch, the divide_outputs thread dies, and the mailboxes that come later in
``outputs`` are neither closed nor killed.  Their readers (here: the caller of get_array) wait for a
message that never comes.

Trigger: multi-output plugin providing (side, target) in that order; 'side' is saved and its saver
raises on the LAST chunk; default (lazy) threaded_mailbox processor.  In lazy mode divide_outputs
only asks the plugin for more once the consumer wants the next chunk, so the saver has all the time
it needs to fail in between.
"""
import sys
import tempfile
import threading
import time

import numpy as np
import strax
from immutabledict import immutabledict

N_CHUNKS = 5
TIMEOUT = 5  # mailbox timeout (strax default is 60 s); only sets how long we hang


class DiskFull(Exception):
    pass


class Source(strax.Plugin):
    provides = "src"
    depends_on = tuple()
    dtype = strax.time_fields
    save_when = strax.SaveWhen.NEVER

    def source_finished(self):
        return True

    def is_ready(self, chunk_i):
        return chunk_i < N_CHUNKS

    def compute(self, chunk_i):
        r = np.zeros(3, self.dtype)
        r["time"] = chunk_i * 10 + np.arange(3)
        r["endtime"] = r["time"] + 1
        return self.chunk(start=chunk_i * 10, end=(chunk_i + 1) * 10, data=r)


class TwoOutputs(strax.Plugin):
    provides = ("side", "main")  # the saved side output comes first
    depends_on = ("src",)
    data_kind = dict(side="side", main="main")
    dtype = dict(side=strax.time_fields, main=strax.time_fields)
    save_when = immutabledict(side=strax.SaveWhen.ALWAYS, main=strax.SaveWhen.NEVER)
    rechunk_on_save = False

    def compute(self, src):
        return dict(side=src.copy(), main=src.copy())


class FailingSaver(strax.FileSaver):
    """A saver whose write of the last chunk fails (disk full, lost connection, ...)"""

    def _save_chunk(self, data, chunk_info, executor=None):
        if chunk_info["chunk_i"] == N_CHUNKS - 1:
            raise DiskFull(f"cannot write chunk {chunk_info['chunk_i']} of side")
        return super()._save_chunk(data, chunk_info, executor=executor)


class FailingBackend(strax.FileSytemBackend):
    def _saver(self, dirname, metadata, **kwargs):
        return FailingSaver(dirname, metadata=metadata, **kwargs)


class FailingDirectory(strax.DataDirectory):
    def __init__(self, *args, **kwargs):
        super().__init__(*args, **kwargs)
        self.backends = [FailingBackend()]


def main():
    with tempfile.TemporaryDirectory() as d:
        st = strax.Context(
            storage=FailingDirectory(d),
            register=[Source, TwoOutputs],
            timeout=TIMEOUT,
        )
        n_seen = 0
        t0 = time.time()
        try:
            for chunk in st.get_iter(
                "0", "main", processor="threaded_mailbox", progress_bar=False
            ):
                n_seen += 1
                time.sleep(0.2)  # a consumer that does a little work per chunk
            outcome = None
        except BaseException as e:
            outcome = e
        elapsed = time.time() - t0

    print(f"chunks received: {n_seen}/{N_CHUNKS}, elapsed {elapsed:.1f} s (mailbox timeout {TIMEOUT} s)")
    print(f"caller received: {type(outcome).__name__}: {outcome}")
    ok = isinstance(outcome, DiskFull) and elapsed < TIMEOUT
    if ok:
        print("OK: original exception reached the caller promptly")
        return 0
    print(
        "VIOLATION: the saver raised DiskFull, but the caller hung until the mailbox timeout "
        "and did not get the original exception"
    )
    return 1


if __name__ == "__main__":
    sys.exit(main())
