"""C06 violation 2: the original exception of a failing side-output saver is replaced by
RuntimeError('generator raised StopIteration') (eager mode / worker pools).

Mechanism (strax/mailbox.py):
 * divide_outputs: when ``mailboxes[d].send(x)`` raises (here MailboxKilled, because the saver of
   output 'side' failed and force-killed that mailbox) it does ``source.throw(e)``.
 * ``source`` is Mailbox._read of the <Plugin>_divide_outputs mailbox.  Its
   ``except Exception as e: self.kill_from_exception(e)`` swallows MailboxKilled and then simply
   CONTINUES with the next message of the batch it grabbed earlier.  If x was the last chunk and the
   closing StopIteration message was grabbed in the same batch, the generator returns, so
   ``source.throw(e)`` raises StopIteration inside divide_outputs.
 * divide_outputs' outer ``except Exception as e`` now handles e=StopIteration and kills the other
   output mailboxes (the target!) with reason (StopIteration, ...).  The processor re-raises that
   reason inside its generator -> RuntimeError('generator raised StopIteration').

Trigger: multi-output plugin providing (side, main); 'side' is saved; its saver raises on the
second-to-last chunk; allow_lazy=False; the consumer is slow on the first chunk so that the plugin
finishes while divide_outputs is blocked on the full 'main' mailbox (so last chunk + StopIteration
are read as one batch).  The same happens without any slow consumer when max_workers > 1, because
then all futures and the StopIteration are batched anyway (seen 3 times in ~200 runs).
"""
import sys
import tempfile
import threading
import time

import numpy as np
import strax
from immutabledict import immutabledict

N_CHUNKS = 5
TIMEOUT = 20
MAX_MESSAGES = 2  # mailbox capacity; N_CHUNKS = MAX_MESSAGES + 3


class DiskFull(Exception):
    pass


class Source(strax.Plugin):
    provides = "src"
    depends_on = tuple()
    dtype = strax.time_fields
    save_when = strax.SaveWhen.NEVER

    def source_finished(self):
        return True

    def is_ready(self, chunk_i):
        return chunk_i < N_CHUNKS

    def compute(self, chunk_i):
        time.sleep(0.1)  # data arrives every 0.1 s
        r = np.zeros(3, self.dtype)
        r["time"] = chunk_i * 10 + np.arange(3)
        r["endtime"] = r["time"] + 1
        return self.chunk(start=chunk_i * 10, end=(chunk_i + 1) * 10, data=r)


class TwoOutputs(strax.Plugin):
    provides = ("side", "main")  # the saved side output comes first
    depends_on = ("src",)
    data_kind = dict(side="side", main="main")
    dtype = dict(side=strax.time_fields, main=strax.time_fields)
    save_when = immutabledict(side=strax.SaveWhen.ALWAYS, main=strax.SaveWhen.NEVER)
    rechunk_on_save = False

    def compute(self, src):
        return dict(side=src.copy(), main=src.copy())


class FailingSaver(strax.FileSaver):
    """A saver whose write of the second-to-last chunk fails (disk full, ...)"""

    def _save_chunk(self, data, chunk_info, executor=None):
        if chunk_info["chunk_i"] == N_CHUNKS - 2:
            raise DiskFull(f"cannot write chunk {chunk_info['chunk_i']} of side")
        return super()._save_chunk(data, chunk_info, executor=executor)


class FailingBackend(strax.FileSytemBackend):
    def _saver(self, dirname, metadata, **kwargs):
        return FailingSaver(dirname, metadata=metadata, **kwargs)


class FailingDirectory(strax.DataDirectory):
    def __init__(self, *args, **kwargs):
        super().__init__(*args, **kwargs)
        self.backends = [FailingBackend()]


def main():
    with tempfile.TemporaryDirectory() as d:
        st = strax.Context(
            storage=FailingDirectory(d),
            register=[Source, TwoOutputs],
            timeout=TIMEOUT,
            max_messages=MAX_MESSAGES,
            allow_lazy=False,
        )
        n_seen = 0
        t0 = time.time()
        try:
            for chunk in st.get_iter(
                "0", "main", processor="threaded_mailbox", progress_bar=False
            ):
                n_seen += 1
                if n_seen == 1:
                    time.sleep(2)  # the consumer is slow on the first chunk
            outcome = None
        except BaseException as e:
            outcome = e
        elapsed = time.time() - t0

    print(f"chunks received: {n_seen}/{N_CHUNKS}, elapsed {elapsed:.1f} s (mailbox timeout {TIMEOUT} s)")
    print(f"caller received: {type(outcome).__name__}: {outcome}")
    ok = isinstance(outcome, DiskFull) and elapsed < TIMEOUT
    if ok:
        print("OK: original exception reached the caller promptly")
        return 0
    print("VIOLATION: the saver raised DiskFull, but the caller received something else")
    return 1


if __name__ == "__main__":
    sys.exit(main())
