"""C06 violation 3: with several targets (allow_multiple=True) a plugin failure in a target that is
not the one the processor subscribed to is (a) silently swallowed - make() returns normally - or
(b) turned into a MailboxFullTimeout after the full mailbox timeout.

Mechanism (strax/processors/threaded_mailbox.py, ThreadedMailboxProcessor.iter):
only ``self.components.targets[0]`` is subscribed / watched.  A failure in the branch of another end
target kills only that branch's mailboxes.  Its saver gets MailboxKilled, which Saver.save_from
treats as "exit gracefully" (got_exception stays None), and the final check in iter() only looks at
``saver.got_exception`` ("TODO: need to look at plugins too if we ever implement true multi-target
mode").  So
 (a) if the shared source can still finish (failure in the last few chunks) nothing is raised at all;
 (b) otherwise the dead plugin no longer reads the shared source mailbox, the source blocks on the
     full mailbox, and after `timeout` seconds the caller gets MailboxFullTimeout, not the error.
"""
import sys
import tempfile
import time

import numpy as np
import strax

N_CHUNKS = 10
TIMEOUT = 5  # strax default: 60 s


class PluginCrash(Exception):
    pass


class Source(strax.Plugin):
    provides = "src"
    depends_on = tuple()
    dtype = strax.time_fields
    save_when = strax.SaveWhen.NEVER

    def source_finished(self):
        return True

    def is_ready(self, chunk_i):
        return chunk_i < N_CHUNKS

    def compute(self, chunk_i):
        r = np.zeros(3, self.dtype)
        r["time"] = chunk_i * 10 + np.arange(3)
        r["endtime"] = r["time"] + 1
        return self.chunk(start=chunk_i * 10, end=(chunk_i + 1) * 10, data=r)


@strax.takes_config(
    strax.Option("crash_in", default="", track=False),
    strax.Option("crash_at", default=-1, track=False),
)
class Left(strax.Plugin):
    provides = "left"
    data_kind = "left"
    depends_on = ("src",)
    dtype = strax.time_fields
    rechunk_on_save = False

    def setup(self):
        self.i = 0

    def compute(self, src):
        self.i += 1
        if self.config["crash_in"] == self.provides[0] and self.i - 1 == self.config["crash_at"]:
            raise PluginCrash(f"{self.provides[0]} crashed at chunk {self.i - 1}")
        return src.copy()


class Right(Left):
    provides = "right"
    data_kind = "right"


def attempt(crash_at):
    targets = ("left", "right")
    with tempfile.TemporaryDirectory() as d:
        st = strax.Context(
            storage=strax.DataDirectory(d),
            register=[Source, Left, Right],
            allow_lazy=False,  # required by strax for allow_multiple
            timeout=TIMEOUT,
        )
        # Which of the two end targets the processor subscribes to is an arbitrary (set order)
        # choice made by strax; crash in the other one.
        watched = st.get_components("0", targets=targets).targets[0]
        victim = "left" if watched == "right" else "right"
        st.set_config(dict(crash_in=victim, crash_at=crash_at))
        t0 = time.time()
        try:
            st.make(
                "0", targets, allow_multiple=True, processor="threaded_mailbox", progress_bar=False
            )
            outcome = None
        except BaseException as e:
            outcome = e
        elapsed = time.time() - t0
        stored = {t: st.is_stored("0", t) for t in targets}
    print(f"--- plugin '{victim}' raises PluginCrash at chunk {crash_at}/{N_CHUNKS} (watched: {watched})")
    if outcome is None:
        print(f"    make() returned normally after {elapsed:.1f} s; stored: {stored}")
    else:
        print(f"    make() raised {type(outcome).__name__}: {outcome} after {elapsed:.1f} s")
    return isinstance(outcome, PluginCrash)


def main():
    ok_a = attempt(crash_at=N_CHUNKS - 1)
    ok_b = attempt(crash_at=0)
    if ok_a and ok_b:
        print("OK: original exception reached the caller in both cases")
        return 0
    if not ok_a:
        print("VIOLATION (a): a plugin raised, but make() returned as if all was well")
    if not ok_b:
        print("VIOLATION (b): a plugin raised, but the caller got a timeout instead")
    return 1


if __name__ == "__main__":
    sys.exit(main())
