"""C06 violation 4 (lower severity): closing the iterator of ThreadedMailboxProcessor directly does
not stop the pipeline threads; close() raises TypeError instead.

Mechanism (strax/processors/threaded_mailbox.py, ThreadedMailboxProcessor.iter):

    except (Exception, GeneratorExit) as e:
        ...
        reason = (e.__class__, e, sys.exc_info()[2])      # a tuple
    if exc is not None:
        if isinstance(exc, GeneratorExit):
            reason[2] = "Hm, interesting. ..."             # TypeError: tuple is immutable

The TypeError escapes before ``m.kill(upstream=True, ...)`` and ``m.cleanup()`` run, so every pipeline
thread keeps running until its own mailbox timeout expires.  Context.get_iter hides this because it
converts GeneratorExit into generator.throw(OutsideException); anybody who drives the processor
class itself (it is exported as strax.ThreadedMailboxProcessor) and abandons + closes the iterator
hits it.
"""
import sys
import tempfile
import threading
import time

import numpy as np
import strax

TIMEOUT = 5


class Source(strax.Plugin):
    provides = "src"
    depends_on = tuple()
    dtype = strax.time_fields
    save_when = strax.SaveWhen.NEVER

    def source_finished(self):
        return True

    def is_ready(self, chunk_i):
        return chunk_i < 1000

    def compute(self, chunk_i):
        r = np.zeros(3, self.dtype)
        r["time"] = chunk_i * 10 + np.arange(3)
        r["endtime"] = r["time"] + 1
        return self.chunk(start=chunk_i * 10, end=(chunk_i + 1) * 10, data=r)


class Copy(strax.Plugin):
    provides = "copy"
    depends_on = ("src",)
    dtype = strax.time_fields
    save_when = strax.SaveWhen.NEVER

    def compute(self, src):
        return src.copy()


def pipeline_threads():
    return sorted(
        t.name for t in threading.enumerate() if t.name.startswith(("build:", "save_", "load:"))
    )


def main():
    with tempfile.TemporaryDirectory() as d:
        st = strax.Context(storage=strax.DataDirectory(d), register=[Source, Copy])
        components = st.get_components("0", targets=("copy",))
        it = strax.ThreadedMailboxProcessor(components, timeout=TIMEOUT).iter()
        next(it)  # consume one chunk, then abandon and close
        close_error = None
        try:
            it.close()
        except BaseException as e:
            close_error = e
        time.sleep(1)
        alive = pipeline_threads()
        print(f"close() raised: {type(close_error).__name__}: {close_error}")
        print(f"pipeline threads alive 1 s after close(): {alive}")
        time.sleep(TIMEOUT + 1)
        print(f"pipeline threads alive after the mailbox timeout ({TIMEOUT} s): {pipeline_threads()}")
    if alive or isinstance(close_error, TypeError):
        print("VIOLATION: consumer closed the iterator but the pipeline threads did not stop")
        return 1
    print("OK")
    return 0


if __name__ == "__main__":
    sys.exit(main())
