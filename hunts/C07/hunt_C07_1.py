"""C07 violation 1: Chunk.concatenate cannot re-join the two halves of a split
when both halves still span more than one run (run_id None + multi-run superrun
annotation).  split() is therefore not inverted by concatenate(); a chunk that
concatenate() itself produced can be split but never put together again.
"""
import sys
import numpy as np
import strax


def chunk(run_id, start, end, times):
    data = np.zeros(len(times), dtype=strax.time_fields)
    data["time"] = times
    data["endtime"] = data["time"] + 1
    return strax.Chunk(
        data_type="x", data_kind="x", dtype=data.dtype,
        run_id=run_id, start=start, end=end, data=data,
    )


# Three adjacent runs, glued together the way Plugin._fetch_chunk does for superruns
pieces = [chunk("a", 0, 10, [1]), chunk("b", 10, 20, [11, 15]), chunk("c", 20, 30, [21])]
whole = strax.Chunk.concatenate(pieces, allow_superrun=True)
print("whole :", whole.run_id, whole.superrun)

# Split in the middle of run b (no row straddles t=13): both halves span two runs
left, right = whole.split(13)
print("left  :", left.run_id, left.superrun, len(left))
print("right :", right.run_id, right.superrun, len(right))

try:
    back = strax.Chunk.concatenate([left, right], allow_superrun=True)
except Exception as e:
    print(f"VIOLATION: concatenate(split(chunk)) raised {type(e).__name__}: {e}")
    sys.exit(1)

ok = (
    (back.start, back.end) == (whole.start, whole.end)
    and np.array_equal(back.data, whole.data)
    and back.superrun == whole.superrun
)
print("round trip ok:", ok)
sys.exit(0 if ok else 1)
