"""C07 violation 2: Chunk.merge does not reject (nor preserve) same-named
columns of different dtype.  The merged dtype of a shared field is taken from
the chunk whose data_type sorts first, the VALUES from the chunk passed last,
so the value is silently cast - here an int64 100000 becomes int16 -31072.
The merged column equals neither input column: merge is not the column-wise
counterpart of its inputs, and the mismatched input is not rejected.
"""
import sys
import numpy as np
import strax

dtype_a = strax.time_fields + [(("some counter", "n"), np.int16)]
dtype_b = strax.time_fields + [(("some counter", "n"), np.int64), (("some area", "area"), np.float64)]

a = np.zeros(2, dtype=dtype_a)
b = np.zeros(2, dtype=dtype_b)
for x in (a, b):
    x["time"] = [1, 10]
    x["endtime"] = [2, 11]
a["n"] = [1, 2]
b["n"] = [100_000, 7]
b["area"] = [0.5, 0.25]


def chunk(data_type, data):
    return strax.Chunk(
        data_type=data_type, data_kind="things", dtype=data.dtype,
        run_id="0", start=0, end=100, data=data,
    )


try:
    merged = strax.Chunk.merge([chunk("a_type", a), chunk("b_type", b)])
except ValueError as e:
    print("merge rejected the mismatched inputs (fine):", e)
    sys.exit(0)

print("merged dtype of n:", merged.data["n"].dtype)
print("a.n      =", a["n"])
print("b.n      =", b["n"])
print("merged.n =", merged.data["n"])
same_as_an_input = np.array_equal(merged.data["n"], a["n"]) or np.array_equal(
    merged.data["n"], b["n"]
)
if not same_as_an_input:
    print("VIOLATION: merged column 'n' equals neither input column (silent overflow cast)")
    sys.exit(1)
sys.exit(0)
