"""C07 violation 3: Chunk.split hands a half the WRONG run_id when the
super-run annotation contains a zero-duration run (an empty run: one chunk with
start == end).  _split_runs_in_chunk drops the empty run from the half, but
split() then recovers the run_id from the first/last key of the *unsplit*
annotation.  The half is labelled with run 'r0' although all of its rows and
its superrun annotation belong to 'r1'; concatenating the halves back then fails.
"""
import sys
import numpy as np
import strax


def chunk(run_id, start, end, times):
    data = np.zeros(len(times), dtype=strax.time_fields)
    data["time"] = times
    data["endtime"] = data["time"] + 1
    return strax.Chunk(
        data_type="x", data_kind="x", dtype=data.dtype,
        run_id=run_id, start=start, end=end, data=data,
    )


# r0 is an empty run (zero-duration chunk), r1 follows directly
whole = strax.Chunk.concatenate(
    [chunk("r0", 2, 2, []), chunk("r1", 2, 10, [3, 7])], allow_superrun=True
)
print("whole :", whole.run_id, whole.superrun)

left, right = whole.split(5)
print("left  : run_id =", left.run_id, " superrun =", left.superrun, " rows at", left.data["time"])
print("right : run_id =", right.run_id, " superrun =", right.superrun, " rows at", right.data["time"])

bad = False
if left.run_id not in left.superrun:
    print(f"VIOLATION: left half is labelled run_id={left.run_id!r} "
          f"but its annotation (and its data) belong to {list(left.superrun)}")
    bad = True
try:
    strax.Chunk.concatenate([left, right], allow_superrun=True)
except Exception as e:
    print(f"VIOLATION: concatenating the two halves back raised {type(e).__name__}: {e}")
    bad = True
sys.exit(1 if bad else 0)
