"""C07 violation 4 (minor, float rounding): the Rechunker refuses a valid
stream whose target size is exactly one row.  Rechunker.receive computes
target_size_mb * 1e6 in floating point; for a 249-byte row
0.000249 * 1e6 == 248.99999999999997, so int(target // itemsize) == 0 and
get_splits raises 'Target size is too small.' although the target is >= one row.
"""
import sys
import numpy as np
import strax

dtype = strax.time_fields + [(("raw payload bytes", "payload"), np.uint8, 233)]
itemsize = np.dtype(dtype).itemsize
data = np.zeros(4, dtype=dtype)
data["time"] = [0, 5000, 10000, 15000]
data["endtime"] = data["time"] + 10

target_size_mb = itemsize / 1e6  # exactly one row
print("itemsize", itemsize, "target bytes as computed by strax:", target_size_mb * 1e6)

c = strax.Chunk(
    data_type="x", data_kind="x", dtype=dtype, run_id="0",
    start=0, end=20000, data=data, target_size_mb=target_size_mb,
)
r = strax.Rechunker(rechunk=True, run_id="0")
try:
    out = r.receive(c) + r.flush()
except Exception as e:
    print(f"VIOLATION: rechunker failed on valid input: {type(e).__name__}: {e}")
    sys.exit(1)
print("ok:", [(o.start, o.end, len(o)) for o in out])
sys.exit(0)
