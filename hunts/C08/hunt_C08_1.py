"""C08 violation: Plugin.iter gives up after ten trimming passes.

Two dependencies of DIFFERENT data kinds whose rows interleave like a staircase
(a0=[0,3) b0=[2,5) a1=[4,7) b1=[6,9) ...; sorted, no overlap within a kind, no
zero-length rows).  Every chunking below is law abiding: no chunk boundary cuts a row
of its own kind, all dependencies start at 0 and end at the same time T.

If a chunk of one kind ends in the middle of the last step of a staircase of >= 10
rows, strax.Plugin.iter needs one "early split" pass per step to walk back to a time
at which all inputs can be cut.  It allows only ten passes
(strax/plugins/plugin.py, `max_passes_left = 10` ... `else: raise RuntimeError`)
and then aborts the whole run, although the inputs are perfectly deliverable
(the very same rows, chunked differently, are processed fine).

Exit code 1 = violation reproduced.
"""

import contextlib
import io
import sys
import tempfile
import warnings

import numpy as np
import strax


def rows_to_array(rows, name):
    a = np.zeros(len(rows), dtype=strax.time_fields + [(name, np.int64)])
    for i, (t, e) in enumerate(rows):
        a["time"][i], a["endtime"][i], a[name][i] = t, e, i
    return a


def make_source(name, kind, rows, bounds):
    arr = rows_to_array(rows, name)

    class Src(strax.Plugin):
        depends_on = ()
        provides = (name,)
        data_kind = kind
        dtype = arr.dtype
        rechunk_on_save = False
        save_when = strax.SaveWhen.NEVER

        def is_ready(self, chunk_i):
            return chunk_i < len(bounds) - 1

        def source_finished(self):
            return True

        def compute(self, chunk_i):
            s, e = bounds[chunk_i], bounds[chunk_i + 1]
            m = (arr["time"] >= s) & (arr["endtime"] <= e)
            return self.chunk(start=s, end=e, data=arr[m].copy())

    return Src


def run(spec):
    """spec: [(data_type, data_kind, rows, chunk_boundaries)]; returns the compute calls."""
    calls = []

    class Consumer(strax.Plugin):  # save_when = ALWAYS (the default)
        depends_on = tuple(s[0] for s in spec)
        provides = ("out",)
        data_kind = "out"
        dtype = strax.time_fields

        def compute(self, start, end, **kinds):
            calls.append((start, end, {k: v.copy() for k, v in kinds.items()}))
            return np.zeros(0, dtype=strax.time_fields)

    st = strax.Context(storage=[strax.DataDirectory(tempfile.mkdtemp())])
    for s in spec:
        st.register(make_source(*s))
    st.register(Consumer)
    with contextlib.redirect_stdout(io.StringIO()), warnings.catch_warnings():
        warnings.simplefilter("ignore")
        st.get_array("run0", "out", progress_bar=False)
    return calls


def delivered(calls, kind, name):
    return [int(x) for _, _, kw in calls for x in kw[kind][name]]


N = 10  # rows in the staircase: 5 of kind ka, 5 of kind kb
rows = [(2 * i, 2 * i + 3) for i in range(N)]
A, B = rows[0::2], rows[1::2]  # A: [0,3) [4,7) ...   B: [2,5) [6,9) ...
T = 2 * N + 10
cut = rows[-1][0] + 1  # inside the last row (a B row); no A row straddles it
assert not any(t < cut < e for t, e in A)

# Control: identical rows, one chunk per dependency
calls = run([("aa", "ka", A, [0, T]), ("bb", "kb", B, [0, T])])
ok_control = delivered(calls, "ka", "aa") == list(range(len(A))) and delivered(
    calls, "kb", "bb"
) == list(range(len(B)))
print(f"control (one chunk each): {len(calls)} compute call(s), all rows delivered: {ok_control}")

# Same rows; dependency 'aa' now arrives in two chunks [0,cut) [cut,T)
spec = [("aa", "ka", A, [0, cut, T]), ("bb", "kb", B, [0, T])]
print(f"rows ka: {A}\nrows kb: {B}\nchunks of aa: [0,{cut}) [{cut},{T});  chunks of bb: [0,{T})")
try:
    calls = run(spec)
except Exception as e:  # noqa
    print(f"VIOLATION: legal, deliverable inputs abort the run with {type(e).__name__}:")
    print("   ", str(e).splitlines()[0])
    sys.exit(1)

ok = delivered(calls, "ka", "aa") == list(range(len(A))) and delivered(calls, "kb", "bb") == list(
    range(len(B))
)
print("no error; all rows delivered exactly once:", ok)
sys.exit(0 if ok else 1)
