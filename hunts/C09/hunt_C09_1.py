"""C09 violation 1: a float window size (explicitly allowed by
OverlapWindowPlugin._get_window_size) makes `end - 2 * window - 1` a float64.
For realistic unix-ns timestamps (~1.7e18, float64 spacing 256 ns) the
"trust results up to here" boundary is rounded, here UP past the chunk end, so
results in the look-ahead window of a chunk boundary are sent out although
their right neighbours (in the next chunk) were not seen yet.
The same run processed as one chunk (or with the int window 10) is correct.
"""
import sys
import warnings
import numpy as np
import strax

warnings.filterwarnings("ignore")

T0 = 1_700_000_000_000_000_000  # a 2023 unix timestamp in ns
WINDOW = 10.0                   # float, same value as int 10

# 80 peaks of length 2 every 5 ns
peaks = np.zeros(80, dtype=strax.interval_dtype)
peaks["time"] = T0 + 5 * np.arange(80)
peaks["length"] = 2
peaks["dt"] = 1
RUN_START, RUN_END = T0, T0 + 400


def count_near(time, endtime, w):
    """window-local: neighbours (incl. self) fully inside [time-w, endtime+w]"""
    return np.array(
        [((time >= time[i] - w) & (endtime <= endtime[i] + w)).sum() for i in range(len(time))],
        dtype=np.int64,
    )


def run(chunk_edges, window):
    chunks = []
    for a, b in zip(chunk_edges[:-1], chunk_edges[1:]):
        chunks.append((a, b, peaks[(peaks["time"] >= a) & (peaks["time"] < b)]))

    class Peaks(strax.Plugin):
        depends_on = tuple()
        provides = ("peaks",)
        dtype = strax.interval_dtype
        rechunk_on_save = False

        def compute(self, chunk_i):
            a, b, d = chunks[chunk_i]
            return self.chunk(data=d, start=a, end=b)

        def is_ready(self, chunk_i):
            return chunk_i < len(chunks)

        def source_finished(self):
            return True

    class Near(strax.OverlapWindowPlugin):
        depends_on = ("peaks",)
        provides = ("near",)
        dtype = [("n", np.int64)] + strax.time_fields

        def get_window_size(self):
            return window

        def compute(self, peaks):
            r = np.zeros(len(peaks), dtype=self.dtype)
            r["time"] = peaks["time"]
            r["endtime"] = strax.endtime(peaks)
            r["n"] = count_near(peaks["time"], strax.endtime(peaks), int(window))
            return r

    st = strax.Context(storage=[])
    st.register(Peaks)
    st.register(Near)
    return st.get_array("run", "near")


expected = count_near(peaks["time"], strax.endtime(peaks), 10)

one_chunk = run([RUN_START, RUN_END], WINDOW)
two_chunks_int = run([RUN_START, T0 + 200, RUN_END], 10)
two_chunks_float = run([RUN_START, T0 + 200, RUN_END], WINDOW)

print("expected            :", expected)
print("one chunk, w=10.0   :", one_chunk["n"])
print("two chunks, w=10    :", two_chunks_int["n"])
print("two chunks, w=10.0  :", two_chunks_float["n"])

assert np.array_equal(one_chunk["n"], expected)
assert np.array_equal(two_chunks_int["n"], expected)
if not np.array_equal(two_chunks_float["n"], expected):
    bad = np.nonzero(two_chunks_float["n"] != expected)[0]
    print(
        f"VIOLATION: with float window {WINDOW} rows {bad.tolist()} next to the chunk boundary at "
        f"T0+200 were computed from incomplete neighbours "
        f"(got {two_chunks_float['n'][bad].tolist()}, expected {expected[bad].tolist()})"
    )
    end = T0 + 200
    print(f"  chunk end               = {end}")
    print(f"  int(end - 2*10.0 - 1)   = {int(end - 2 * WINDOW - 1)}  (float64 rounding)")
    print(f"  end - 2*10 - 1          = {end - 2 * 10 - 1}")
    sys.exit(1)
print("no violation")
