"""C09 violation 2: a multi-output OverlapWindowPlugin aligns the split point of
its outputs in OverlapWindowPlugin.cache_beyond with at most `max_trials = 10`
passes and raises ValueError afterwards.  With two window-local outputs whose
rows interleave (one row per input row + one row per pair of adjacent input
rows) every pass only moves the common split point back by one row, so
whether the run can be processed at all depends on WHERE the chunk boundary
falls: the same data gives the correct result for one chunking and crashes for
another.  (The same bounded loop is used for caching inputs of several data
kinds, and Plugin.iter has the same 'ten passes' limit.)
"""
import sys
import warnings
import numpy as np
import strax

warnings.filterwarnings("ignore")

WINDOW = 10
N_TRAINS, PER_TRAIN, PERIOD = 4, 16, 200

# trains of 16 back-to-back 10 ns peaks, 40 ns of nothing between trains
t = np.concatenate([PERIOD * k + 10 * np.arange(PER_TRAIN) for k in range(N_TRAINS)])
peaks = np.zeros(len(t), dtype=strax.interval_dtype)
peaks["time"], peaks["length"], peaks["dt"] = t, 10, 1
RUN_END = PERIOD * N_TRAINS


def links(time, endtime):
    """one row per pair of touching neighbours, from centre to centre (window-local: 10 ns)"""
    touching = time[1:] == endtime[:-1]
    r = np.zeros(touching.sum(), dtype=strax.time_fields)
    r["time"] = (time[:-1] + 5)[touching]
    r["endtime"] = (time[1:] + 5)[touching]
    return r


def run(edges):
    chunks = [(a, b, peaks[(peaks["time"] >= a) & (peaks["time"] < b)]) for a, b in zip(edges[:-1], edges[1:])]

    class Peaks(strax.Plugin):
        depends_on = tuple()
        provides = ("peaks",)
        dtype = strax.interval_dtype
        rechunk_on_save = False

        def compute(self, chunk_i):
            a, b, d = chunks[chunk_i]
            return self.chunk(data=d, start=a, end=b)

        def is_ready(self, chunk_i):
            return chunk_i < len(chunks)

        def source_finished(self):
            return True

    class CopyAndLinks(strax.OverlapWindowPlugin):
        depends_on = ("peaks",)
        provides = ("peak_copy", "peak_links")
        data_kind = dict(peak_copy="peak_copy", peak_links="peak_links")
        dtype = dict(peak_copy=strax.time_fields, peak_links=strax.time_fields)

        def get_window_size(self):
            return WINDOW

        def compute(self, peaks):
            c = np.zeros(len(peaks), dtype=strax.time_fields)
            c["time"], c["endtime"] = peaks["time"], strax.endtime(peaks)
            return dict(peak_copy=c, peak_links=links(peaks["time"], strax.endtime(peaks)))

    st = strax.Context(storage=[])
    st.register(Peaks)
    st.register(CopyAndLinks)
    return st.get_array("run", "peak_links")


expected = links(peaks["time"], strax.endtime(peaks))
bad = False
for name, edges in [
    ("one chunk", [0, RUN_END]),
    ("boundary at 270 (early in train 2)", [0, 270, RUN_END]),
    ("boundary at 380 (just after train 2)", [0, 380, RUN_END]),
]:
    try:
        got = run(edges)
        ok = np.array_equal(got, expected)
        print(f"{name:40s}: {len(got)} links, {'correct' if ok else 'WRONG'}")
        bad |= not ok
    except Exception as e:
        print(f"{name:40s}: CRASH {type(e).__name__}: {e}")
        bad = True
if bad:
    print("VIOLATION: result of a window-local multi-output plugin depends on the chunking (crash)")
    sys.exit(1)
print("no violation")
