"""C09 violation 3: an OverlapWindowPlugin (or any Plugin) that reads two data
kinds whose rows interleave cannot be fed when the two kinds arrive with
different chunk boundaries: Plugin.iter tries to find a common split time with
`max_passes_left = 10` passes, emits a series of zero-duration chunks without
making progress and finally raises RuntimeError.  The same 7 + 7 rows are
processed correctly when both kinds arrive in one chunk, so the outcome
depends on the chunking of the input.
"""
import sys
import warnings
import numpy as np
import strax

warnings.filterwarnings("ignore")


def iv(pairs):
    x = np.zeros(len(pairs), dtype=strax.interval_dtype)
    for i, (a, b) in enumerate(pairs):
        x[i]["time"], x[i]["length"], x[i]["dt"] = a, b - a, 1
    return x


# both kinds: sorted, disjoint, no zero-length rows
peaks = iv([(9, 17), (19, 31), (39, 59), (63, 83), (84, 88), (91, 105), (106, 119)])
events = iv([(1, 30), (30, 54), (55, 57), (58, 71), (71, 94), (95, 112), (112, 127)])
RUN_END = 139
W0, W1 = 0, 5


def expected():
    pt, pe, et, ee = peaks["time"], strax.endtime(peaks), events["time"], strax.endtime(events)
    return np.array([((et >= pt[i] - W0) & (ee <= pe[i] + W1)).sum() for i in range(len(pt))])


def source(name, data, edges):
    chunks = [
        (a, b, data[(data["time"] >= a) & (data["time"] < b)]) for a, b in zip(edges[:-1], edges[1:])
    ]
    for a, b, d in chunks:  # legal chunking: no row is cut
        assert not len(d) or strax.endtime(d).max() <= b

    class Src(strax.Plugin):
        depends_on = tuple()
        provides = (name,)
        data_kind = name
        dtype = strax.interval_dtype
        rechunk_on_save = False

        def compute(self, chunk_i):
            a, b, d = chunks[chunk_i]
            return self.chunk(data=d, start=a, end=b)

        def is_ready(self, chunk_i):
            return chunk_i < len(chunks)

        def source_finished(self):
            return True

    return Src


class EventsNearPeak(strax.OverlapWindowPlugin):
    depends_on = ("peaks", "events")
    provides = ("events_near_peak",)
    data_kind = "events_near_peak"
    dtype = [("n", np.int64)] + strax.time_fields

    def get_window_size(self):
        return (W0, W1)

    def compute(self, peaks, events):
        pt, pe, et, ee = peaks["time"], strax.endtime(peaks), events["time"], strax.endtime(events)
        r = np.zeros(len(peaks), dtype=self.dtype)
        r["time"], r["endtime"] = pt, pe
        r["n"] = [((et >= pt[i] - W0) & (ee <= pe[i] + W1)).sum() for i in range(len(pt))]
        return r


def run(peak_edges, event_edges):
    st = strax.Context(storage=[])
    st.register(source("peaks", peaks, peak_edges))
    st.register(source("events", events, event_edges))
    st.register(EventsNearPeak)
    chunks = list(st.get_iter("run", "events_near_peak"))
    return np.concatenate([c.data for c in chunks]), chunks


bad = False
for name, pe_, ee_ in [
    ("both kinds in one chunk", [0, RUN_END], [0, RUN_END]),
    ("peaks 4 chunks, events 2 chunks", [0, 34, 84, 123, RUN_END], [0, 95, RUN_END]),
]:
    try:
        got, chunks = run(pe_, ee_)
        ok = np.array_equal(got["n"], expected())
        print(f"{name:35s}: n = {got['n']}  {'correct' if ok else 'WRONG, expected ' + str(expected())}")
        bad |= not ok
    except Exception as e:
        print(f"{name:35s}: CRASH {type(e).__name__}: {str(e).splitlines()[0]}")
        bad = True
if bad:
    print("VIOLATION: the result depends on how the two inputs are chunked (crash in Plugin.iter)")
    sys.exit(1)
print("no violation")
