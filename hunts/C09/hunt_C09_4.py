"""C09 violation 4: numpy-integer window sizes.
OverlapWindowPlugin._get_window_size never converts the window to a Python int:
  * a scalar np.int64 window is rejected (isinstance(np.int64(10), (int, float)) is False),
  * a tuple of numpy integers is accepted unchecked, and `2 * window_size[i]` is then
    evaluated in that integer width.  For a 1.5 s window held as np.int32
    (1_500_000_000 fits in int32) 2*w wraps to -1_294_967_296, so
    invalid_beyond = end + 1.29e9 - 1: every result is sent out immediately and no input
    is cached -> every chunk is computed in isolation, silently.
"""
import sys
import warnings
import numpy as np
import strax

warnings.filterwarnings("ignore")

# 10 peaks, 5 ns apart; chunk boundary in the middle
peaks = np.zeros(10, dtype=strax.interval_dtype)
peaks["time"], peaks["length"], peaks["dt"] = 5 * np.arange(10), 2, 1
CHUNKS = [(0, 25, peaks[:5]), (25, 50, peaks[5:])]


def count_near(time, endtime, w):
    w = int(w)
    return np.array(
        [((time >= time[i] - w) & (endtime <= endtime[i] + w)).sum() for i in range(len(time))]
    )


def run(window, chunks):
    class Peaks(strax.Plugin):
        depends_on = tuple()
        provides = ("peaks",)
        dtype = strax.interval_dtype
        rechunk_on_save = False

        def compute(self, chunk_i):
            a, b, d = chunks[chunk_i]
            return self.chunk(data=d, start=a, end=b)

        def is_ready(self, chunk_i):
            return chunk_i < len(chunks)

        def source_finished(self):
            return True

    class Near(strax.OverlapWindowPlugin):
        depends_on = ("peaks",)
        provides = ("near",)
        dtype = [("n", np.int64)] + strax.time_fields

        def get_window_size(self):
            return window

        def compute(self, peaks):
            w = window[0] if isinstance(window, tuple) else window
            r = np.zeros(len(peaks), dtype=self.dtype)
            r["time"], r["endtime"] = peaks["time"], strax.endtime(peaks)
            r["n"] = count_near(peaks["time"], strax.endtime(peaks), w)
            return r

    st = strax.Context(storage=[])
    st.register(Peaks)
    st.register(Near)
    return st.get_array("run", "near")["n"]


bad = False
W = 1_500_000_000  # 1.5 s: all 10 peaks are neighbours of each other
expected = count_near(peaks["time"], strax.endtime(peaks), W)
for name, window, chunks in [
    ("python ints (1.5e9, 1.5e9), two chunks", (W, W), CHUNKS),
    ("np.int32 (1.5e9, 1.5e9), one chunk", (np.int32(W), np.int32(W)), [(0, 50, peaks)]),
    ("np.int32 (1.5e9, 1.5e9), two chunks", (np.int32(W), np.int32(W)), CHUNKS),
    ("np.int64(1.5e9) scalar, two chunks", np.int64(W), CHUNKS),
]:
    try:
        got = run(window, chunks)
        ok = np.array_equal(got, expected)
        print(f"{name:42s}: {got} {'correct' if ok else 'WRONG, expected ' + str(expected)}")
        bad |= not ok
    except Exception as e:
        print(f"{name:42s}: CRASH {type(e).__name__}: {e}")
        bad = True
if bad:
    print("VIOLATION: numpy-integer windows are rejected or silently disable the overlap handling")
    sys.exit(1)
print("no violation")
