"""C10 violation 1: seconds_range endpoints that lie exactly on a row boundary select the wrong rows.

Context.to_absolute_time_range converts seconds to ns with int(1e9 * seconds), i.e. it TRUNCATES
the float product. For many ordinary decimals (1.001, 1.003, 1.005, 2.3 ...) 1e9*s is
x.9999999 in floating point, so the boundary lands 1 ns too early:
  - fully_contained: the row that ends exactly at the requested end is dropped
  - touching: the row that ends exactly at the requested start is wrongly included
The same request expressed with time_range=(t0 + 1_001_000_000 ns) returns the right rows.
"""
import sys
import tempfile
import shutil

import numpy as np
import strax

MS = 1_000_000
N = 3000  # 3 s of back-to-back 1 ms rows


class Src(strax.Plugin):
    provides = "src"
    data_kind = "things"
    depends_on = ()
    dtype = strax.time_fields
    rechunk_on_save = False

    def source_finished(self):
        return True

    def is_ready(self, chunk_i):
        return chunk_i < 3

    def compute(self, chunk_i):
        d = np.zeros(1000, self.dtype)
        d["time"] = (chunk_i * 1000 + np.arange(1000)) * MS
        d["endtime"] = d["time"] + MS
        return self.chunk(start=chunk_i * 1000 * MS, end=(chunk_i + 1) * 1000 * MS, data=d)


folder = tempfile.mkdtemp()
failures = []
try:
    st = strax.Context(storage=[strax.DataDirectory(folder)], register=[Src])
    st.make("0", "src")
    full = st.get_array("0", "src", progress_bar=False)
    assert len(full) == N
    t0, _ = st.estimate_run_start_and_end("0", "src")
    assert t0 == 0

    for k in range(1, N):
        sec = k / 1000  # what a user types: 1.001, 1.005, ...
        ns = k * MS  # the same instant in ns

        # fully contained in [0, sec]: rows 0..k-1
        got = st.get_array("0", "src", seconds_range=(0, sec), progress_bar=False)
        ref = st.get_array("0", "src", time_range=(0, ns), progress_bar=False)
        exp = full[(full["time"] >= 0) & (full["endtime"] <= ns)]
        assert np.array_equal(ref, exp)
        if not np.array_equal(got, exp):
            failures.append(("fully_contained", (0, sec), len(got), len(exp)))

        # touching [sec, 3]: rows k..N-1
        got = st.get_array(
            "0", "src", seconds_range=(sec, 3), time_selection="touching", progress_bar=False
        )
        exp = full[(full["endtime"] > ns) & (full["time"] < 3000 * MS)]
        if not np.array_equal(got, exp):
            failures.append(("touching", (sec, 3), len(got), len(exp)))
finally:
    shutil.rmtree(folder)

if failures:
    print(f"{len(failures)} of {2 * (N - 1)} seconds_range requests returned the wrong rows, e.g.:")
    for mode, rng, n_got, n_exp in failures[:6]:
        print(
            f"  {mode:15s} seconds_range={rng}: got {n_got} rows, expected {n_exp} "
            f"(int(1e9*{rng[0] or rng[1]}) = {int(1e9 * (rng[0] or rng[1]))})"
        )
    sys.exit(1)
print("no violation")
