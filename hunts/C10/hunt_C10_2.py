"""C10 violation 2: two conflicting time-range arguments are accepted and one is silently ignored.

Context.to_absolute_time_range wants to raise "Pass no more than one of time_range,
seconds_range, time_within, or full_range". It counts how many of the FOUR arguments are None
and raises if that count is < 2, i.e. only when three or more are given. get_iter never passes
full_range, so giving any TWO of time_range / seconds_range / time_within passes the check;
seconds_range then overwrites time_range, and time_within overwrites both. The caller gets rows
that lie completely outside the time_range he asked for, without any error or warning.
"""
import sys
import tempfile
import shutil

import numpy as np
import strax


class Src(strax.Plugin):
    provides = "src"
    data_kind = "things"
    depends_on = ()
    dtype = strax.time_fields
    rechunk_on_save = False

    def source_finished(self):
        return True

    def is_ready(self, chunk_i):
        return chunk_i < 1

    def compute(self, chunk_i):
        d = np.zeros(3, self.dtype)
        d["time"] = [1, 10, 22]
        d["endtime"] = [9, 19, 30]
        return self.chunk(start=0, end=35, data=d)


folder = tempfile.mkdtemp()
bad = []
try:
    st = strax.Context(storage=[strax.DataDirectory(folder)], register=[Src])
    st.make("0", "src")
    full = st.get_array("0", "src", progress_bar=False)
    want = st.get_array("0", "src", time_range=(0, 10), progress_bar=False)
    assert want["time"].tolist() == [1]

    for kw in (
        dict(time_range=(0, 10), seconds_range=(0, 1)),
        dict(time_range=(0, 10), time_within=full[2]),
        dict(seconds_range=(0, 1e-8), time_within=full[2]),
    ):
        try:
            got = st.get_array("0", "src", progress_bar=False, **kw)
        except RuntimeError as e:
            print("OK, refused:", sorted(kw), "->", e)
            continue
        outside = got[(got["time"] < 0) | (got["endtime"] > 10)]
        print(
            f"{ {k: str(v) for k, v in kw.items()} } -> no error, rows with time {got['time'].tolist()}"
            f" ({len(outside)} of them outside [0, 10])"
        )
        bad.append(kw)
finally:
    shutil.rmtree(folder)

if bad:
    print(f"{len(bad)} conflicting requests were accepted; one argument was silently ignored")
    sys.exit(1)
print("no violation")
