"""C11 hunt 1: st.make(run, (a, b), allow_multiple=True) with allow_multiprocess=True and the
default max_workers silently skips one of the two requested, always-saved targets.

get_iter only refuses allow_multiple when `allow_lazy and not allow_multiprocess`, assuming that
multiprocessing disables lazy mode.  ThreadedMailboxProcessor however only disables lazy mode for
max_workers > 1.  With max_workers None/1 the processor is lazy, the saver of the target that is not
the 'final' one cannot drive its mailbox, that mailbox times out in a background thread, and make()
returns normally: the plugin never ran and nothing was saved, no exception reaches the caller.
"""
import os, sys, tempfile, shutil, time, warnings, faulthandler
import numpy as np
import strax

faulthandler.dump_traceback_later(120, exit=True)
warnings.simplefilter("ignore")
DT = strax.time_fields + [(("x", "x_value"), np.int64)]
CALLS = {}


class Raw(strax.Plugin):
    provides = "raw"
    depends_on = ()
    dtype = DT
    rechunk_on_save = False

    def is_ready(self, chunk_i):
        return chunk_i < 3

    def source_finished(self):
        return True

    def compute(self, chunk_i):
        r = np.zeros(4, dtype=self.dtype)
        r["time"] = chunk_i * 100 + np.arange(4) * 10
        r["endtime"] = r["time"] + 5
        return self.chunk(start=chunk_i * 100, end=(chunk_i + 1) * 100, data=r)


class Aa(strax.Plugin):
    provides = "aa"
    depends_on = "raw"
    dtype = DT
    data_kind = "aa"
    save_when = strax.SaveWhen.ALWAYS

    def compute(self, raw):
        CALLS["aa"] = CALLS.get("aa", 0) + 1
        return raw.copy()


class Bb(Aa):
    provides = "bb"
    data_kind = "bb"

    def compute(self, raw):
        CALLS["bb"] = CALLS.get("bb", 0) + 1
        return raw.copy()


tmp = tempfile.mkdtemp()
try:
    st = strax.Context(
        storage=[strax.DataDirectory(tmp)],
        register=[Raw, Aa, Bb],
        allow_multiprocess=True,  # the default allow_lazy=True stays on
        timeout=5,  # only to keep the demonstration short (default: 60 s)
    )
    t0 = time.time()
    error = None
    try:
        st.make("0", ("aa", "bb"), allow_multiple=True, processor="threaded_mailbox")
    except Exception as e:
        error = e
    print(f"make() took {time.time() - t0:.1f} s; exception seen by the caller: {error!r}")
    stored = {d: st.is_stored("0", d) for d in ("raw", "aa", "bb")}
    print("compute calls:", CALLS, "(expected 3 for both aa and bb)")
    print("stored afterwards:", stored)
    print("storage folder:", sorted(os.listdir(tmp)))
    if error is None and not all(stored.values()):
        missing = [d for d, s in stored.items() if not s]
        print(f"VIOLATION: make() returned normally, but requested SaveWhen.ALWAYS target(s) "
              f"{missing} were neither computed nor saved")
        sys.exit(1)
    print("ok")
finally:
    shutil.rmtree(tmp, ignore_errors=True)
