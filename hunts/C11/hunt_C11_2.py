"""C11 hunt 2: forbid_creation_of is bypassed through a sibling output of a multi-output plugin.

Context.get_components.check_cache only tests the data type it is visiting against
context_config['forbid_creation_of'].  If a forbidden, not stored data type is produced by a
multi-output plugin and the request goes through another output of the same plugin, the plugin
runs, and the forbidden data type is created AND saved (the saver loop over target_plugin.provides
does not look at forbid_creation_of either).
"""
import sys, os, tempfile, shutil, warnings, faulthandler
from hunt_common_c11 import *

faulthandler.dump_traceback_later(120, exit=True)
warnings.simplefilter("ignore")


class Pair(strax.Plugin):
    provides = ("aa", "bb")
    depends_on = "raw"
    dtype = {"aa": DT, "bb": DT}
    data_kind = immutabledict(aa="aa", bb="bb")
    save_when = immutabledict(aa=strax.SaveWhen.ALWAYS, bb=strax.SaveWhen.ALWAYS)

    def compute(self, raw):
        count("pair")
        return dict(aa=raw.copy(), bb=raw.copy())


tmp = tempfile.mkdtemp()
try:
    st = strax.Context(storage=[strax.DataDirectory(tmp)], register=[Raw, Pair],
                       forbid_creation_of=("aa",))
    # Control: asking for aa itself is refused, as it should
    try:
        st.make("0", "aa")
        print("control: no error?!")
    except strax.DataNotAvailable as e:
        print("control, make aa ->", type(e).__name__, ":", e)
    print("stored after control:", [d for d in ("raw", "aa", "bb") if st.is_stored("0", d)])

    st.make("0", "bb")
    stored = [d for d in ("raw", "aa", "bb") if st.is_stored("0", d)]
    print("make bb -> no error; compute calls", CALLS)
    print("stored:", stored, "| folder:", sorted(os.listdir(tmp)))
    if "aa" in stored:
        print("VIOLATION: 'aa' is in forbid_creation_of, yet it was created and saved")
        sys.exit(1)
    print("ok")
finally:
    shutil.rmtree(tmp, ignore_errors=True)
