"""C11 hunt 3: several targets that are all stored already -> IndexError instead of loading.

get_components picks, for len(targets) > 1,
    final_plugin = tuple(pendants - set(loaders))[:1]
with pendants taken from the plugins that have to be *computed*.  If every requested target can
be loaded, this is the empty tuple, ProcessorComponents.targets == () and the processor dies on
`self.components.targets[0]`.  Similarly, if only one target is missing, stored targets are
loaded completely just to be thrown away.  (Context.make hides this behind is_stored(), get_iter does not.)
"""
import sys, tempfile, shutil, warnings, faulthandler, traceback
from hunt_common_c11 import *

faulthandler.dump_traceback_later(120, exit=True)
warnings.simplefilter("ignore")


class Aa(strax.Plugin):
    provides = "aa"
    depends_on = "raw"
    dtype = DT
    data_kind = "aa"

    def compute(self, raw):
        count("aa")
        return raw.copy()


class Bb(Aa):
    provides = "bb"
    data_kind = "bb"

    def compute(self, raw):
        count("bb")
        return raw.copy()


tmp = tempfile.mkdtemp()
try:
    st = strax.Context(storage=[strax.DataDirectory(tmp)], register=[Raw, Aa, Bb], allow_lazy=False,
                       timeout=60)  # allow_multiple demands eager mode and timeout <= 7200
    st.make("0", "aa")
    st.make("0", "bb")
    print("stored:", [d for d in ("raw", "aa", "bb") if st.is_stored("0", d)])
    CALLS.clear()
    try:
        n = sum(1 for _ in st.get_iter("0", ("aa", "bb"), allow_multiple=True,
                                       processor="threaded_mailbox", progress_bar=False))
        print("got", n, "chunks; compute calls", CALLS)
        print("ok")
    except Exception as e:
        traceback.print_exc()
        print(f"VIOLATION: everything needed is stored, but the request failed with "
              f"{type(e).__name__}: {e}")
        sys.exit(1)
finally:
    shutil.rmtree(tmp, ignore_errors=True)
