"""C11 hunt 4: time-range request that mixes a loaded and a computed dependency.

With time_range, loaders only deliver the chunks/rows in the range, but a data type that is not
stored and may be created under a time range (save_when NEVER/EXPLICIT) is computed from its
source for the *whole* run.  A plugin that depends on one of each gets inputs that cannot be
aligned: the request dies inside the processor with a RuntimeError ("... ended prematurely"),
instead of being computed, and instead of the explicit DataNotAvailable that get_components gives
for the other non-creatable cases.
"""
import sys, tempfile, shutil, warnings, faulthandler, traceback
from hunt_common_c11 import *

faulthandler.dump_traceback_later(120, exit=True)
warnings.simplefilter("ignore")


class Live(Raw):
    """A second source that is never stored (e.g. simulated / generated on the fly)"""
    provides = "live"
    save_when = strax.SaveWhen.NEVER


class Aa(strax.Plugin):
    provides = "aa"
    depends_on = "raw"
    dtype = DT
    data_kind = "aa"

    def compute(self, raw):
        return raw.copy()


class Cc(strax.Plugin):
    provides = "cc"
    depends_on = ("aa", "live")
    dtype = DT
    data_kind = "cc"
    save_when = strax.SaveWhen.EXPLICIT

    def compute(self, aa, live):
        return aa.copy()


tmp = tempfile.mkdtemp()
rc = 0
try:
    st = strax.Context(storage=[strax.DataDirectory(tmp)], register=[Raw, Live, Aa, Cc])
    st.make("0", "aa")
    print("stored:", [d for d in ("raw", "live", "aa", "cc") if st.is_stored("0", d)])
    print("full run        ->", len(st.get_array("0", "cc", progress_bar=False)), "rows")
    for proc in ("single_thread", "threaded_mailbox"):
        try:
            arr = st.get_array("0", "cc", time_range=(0, 150), processor=proc, progress_bar=False)
            print(proc, "time_range=(0, 150) ->", len(arr), "rows (expected 8)")
        except strax.DataNotAvailable as e:
            print(proc, "explicit DataNotAvailable:", e)
        except Exception as e:
            print(f"VIOLATION ({proc}): time_range=(0, 150) -> {type(e).__name__}: {e}")
            rc = 1
finally:
    shutil.rmtree(tmp, ignore_errors=True)
sys.exit(rc)
