"""Small plugin set shared by the C11 hunt scripts (public strax API only)."""
import numpy as np
from immutabledict import immutabledict
import strax

DT = strax.time_fields + [(("x", "x_value"), np.int64)]
CALLS = {}


def count(name):
    CALLS[name] = CALLS.get(name, 0) + 1


class Raw(strax.Plugin):
    """Source: 3 chunks of 100 ns with 4 rows each"""
    provides = "raw"
    depends_on = ()
    dtype = DT
    rechunk_on_save = False

    def is_ready(self, chunk_i):
        return chunk_i < 3

    def source_finished(self):
        return True

    def compute(self, chunk_i):
        count("raw")
        r = np.zeros(4, dtype=self.dtype)
        r["time"] = chunk_i * 100 + np.arange(4) * 10
        r["endtime"] = r["time"] + 5
        return self.chunk(start=chunk_i * 100, end=(chunk_i + 1) * 100, data=r)
