"""C12 hunt 1: output with a different dtype (same field names/types, different memory layout)
is accepted, handed to the user and stored as valid data.

Plugin._check_dtype and Chunk.__init__ compare dtypes only after passing both through
strax.remove_titles_from_dtype, which rebuilds the dtype from (name, type) pairs and thereby
throws away offsets / padding / itemsize. Any array whose dtype differs from the declared one
only in layout therefore passes, although numpy says declared != delivered.

Case A: delivered dtype has the two payload fields at swapped offsets (same itemsize).
        -> accepted, stored; reloading silently returns the two columns swapped.
Case B: delivered dtype is the aligned (padded) version of the declared one.
        -> accepted, stored as valid; the stored data cannot be read back (DataCorrupted).
Both for a bare array and for a result wrapped in a strax.Chunk.
"""

import shutil
import sys
import tempfile
import warnings
import logging

import numpy as np
import strax

warnings.filterwarnings("ignore")
logging.disable(logging.CRITICAL)

DECLARED = strax.time_fields + [(("first payload", "aa"), np.int32), (("second payload", "bb"), np.int32)]
declared = strax.to_numpy_dtype(DECLARED)  # packed: time@0 endtime@8 aa@16 bb@20, itemsize 24

swapped = np.dtype(
    dict(
        names=["time", "endtime", "aa", "bb"],
        formats=[np.int64, np.int64, np.int32, np.int32],
        offsets=[0, 8, 20, 16],  # aa and bb trade places in memory
        itemsize=24,
    )
)
DECLARED_B = strax.time_fields + [(("a flag", "flag"), np.int8), (("payload", "xx"), np.int64)]
declared_b = strax.to_numpy_dtype(DECLARED_B)  # packed, itemsize 25
aligned = np.dtype(
    [("time", np.int64), ("endtime", np.int64), ("flag", np.int8), ("xx", np.int64)], align=True
)  # itemsize 32

assert strax.remove_titles_from_dtype(declared) != swapped  # numpy: these are different dtypes
assert strax.remove_titles_from_dtype(declared_b) != aligned


class Src(strax.Plugin):
    depends_on = ()
    provides = "src"
    dtype = strax.time_fields
    data_kind = "src"

    def is_ready(self, chunk_i):
        return chunk_i < 3

    def source_finished(self):
        return True

    def compute(self, chunk_i):
        r = np.zeros(5, self.dtype)
        r["time"] = chunk_i * 100 + np.arange(5) * 10
        r["endtime"] = r["time"] + 5
        return self.chunk(start=chunk_i * 100, end=(chunk_i + 1) * 100, data=r)


def make_plugin(name, declared_fields, delivered_dtype, fill, wrap):
    class P(strax.Plugin):
        depends_on = "src"
        provides = name
        dtype = declared_fields
        data_kind = "src"
        # (with rechunking the saver's np.concatenate happens to re-pack the swapped layout;
        # the padded layout survives it)
        rechunk_on_save = name != "swapped"

        def compute(self, src, start, end):
            r = np.zeros(len(src), dtype=delivered_dtype)
            r["time"] = src["time"]
            r["endtime"] = src["endtime"]
            fill(r)
            if wrap:
                return strax.Chunk(
                    start=start,
                    end=end,
                    data=r,
                    dtype=delivered_dtype,
                    data_type=name,
                    data_kind="src",
                    run_id=self.run_id,
                )
            return r

    P.__name__ = name
    return P


def fill_a(r):
    r["aa"] = 1
    r["bb"] = 2


def fill_b(r):
    r["flag"] = 1
    r["xx"] = 7


problems = []
for wrap in (False, True):
    for processor in ("single_thread", "threaded_mailbox"):
        how = f"[{'wrapped in Chunk' if wrap else 'bare array'}, {processor}]"
        for name, fields, decl, deliv, fill in (
            ("swapped", DECLARED, declared, swapped, fill_a),
            ("padded", DECLARED_B, declared_b, aligned, fill_b),
        ):
            tmp = tempfile.mkdtemp()
            try:
                st = strax.Context(
                    storage=[strax.DataDirectory(tmp)],
                    register=[Src, make_plugin(name, fields, deliv, fill, wrap)],
                )
                try:
                    got = st.get_array("0", name, processor=processor, progress_bar=False)
                except Exception as e:
                    print(f"OK {how} {name}: rejected with {type(e).__name__}")
                    continue
                msg = (
                    f"{how} {name}: declared fields {list(decl.names)} at offsets "
                    f"{[decl.fields[n][1] for n in decl.names]} (itemsize {decl.itemsize}) "
                    f"but delivered a dtype with offsets "
                    f"{[deliv.fields[n][1] for n in deliv.names]} (itemsize {deliv.itemsize}); "
                    f"no exception, user got dtype with itemsize {got.dtype.itemsize}, "
                    f"is_stored={st.is_stored('0', name)}"
                )
                try:
                    again = st.get_array("0", name, processor=processor, progress_bar=False)
                    if name == "swapped":
                        msg += (
                            f"; first run returned aa={got['aa'][0]}, bb={got['bb'][0]}, "
                            f"reload from storage returns aa={again['aa'][0]}, bb={again['bb'][0]}"
                        )
                except Exception as e:
                    msg += f"; reloading the 'valid' stored data fails: {type(e).__name__}"
                problems.append(msg)
                print("VIOLATION", msg)
            finally:
                shutil.rmtree(tmp, ignore_errors=True)

if problems:
    print(f"\n{len(problems)} outputs of a dtype other than the declared one were accepted and stored")
    sys.exit(1)
print("no violation")
