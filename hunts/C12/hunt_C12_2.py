"""C12 hunt 2: a requested target whose chunks leave a gap is stored as valid data, without any
exception, when it is requested together with another target (allow_multiple=True).

Context.get_components keeps only ONE of the requested targets as the processor's target
(context.py: `final_plugin = tuple(pendants - set(loaders))[:1]`, an arbitrary element of a set)
and strax.continuity_check in Context.get_iter only sees that one. Every other requested target
is only fed to its saver, which never checks continuity (with the default rechunk_on_save=True
the saver's Rechunker even glues the pieces into one chunk, so the hole becomes invisible).

Which target is picked depends on string hashing (set order). To be reproducible the script
re-executes itself with PYTHONHASHSEED=2, and in addition tries the companion target under a few
names until the gappy target is not the one that is picked. (When the gappy target happens to be
the one picked, it is rejected correctly.)
"""

import os
import sys

if os.environ.get("PYTHONHASHSEED") != "2":
    os.environ["PYTHONHASHSEED"] = "2"
    os.execv(sys.executable, [sys.executable] + sys.argv)

import json
import glob
import os
import shutil
import sys
import tempfile
import warnings
import logging

import numpy as np
import strax

warnings.filterwarnings("ignore")
logging.disable(logging.CRITICAL)

DT = strax.time_fields + [(("payload", "xx"), np.int64)]


def rows(n, t0):
    r = np.zeros(n, dtype=strax.to_numpy_dtype(DT))
    r["time"] = t0 + np.arange(n) * 10
    r["endtime"] = r["time"] + 5
    return r


class Src(strax.Plugin):
    depends_on = ()
    provides = "src"
    dtype = DT
    data_kind = "src"
    save_when = strax.SaveWhen.NEVER  # always recompute: 4 chunks of 5 rows

    def is_ready(self, chunk_i):
        return chunk_i < 4

    def source_finished(self):
        return True

    def compute(self, chunk_i):
        return self.chunk(start=chunk_i * 100, end=(chunk_i + 1) * 100, data=rows(5, chunk_i * 100))


class Gappy(strax.Plugin):
    """Second chunk starts 50 ns late: [0,100) [150,200) [200,300) [300,400)"""

    depends_on = "src"
    provides = "gappy"
    dtype = DT
    data_kind = "gappy_kind"

    def compute(self, src, start, end, chunk_i):
        if chunk_i == 1:
            return self.chunk(start=start + 50, end=end, data=src[src["time"] >= start + 50])
        return src


def fine_plugin(name):
    class Fine(strax.Plugin):
        depends_on = "src"
        provides = name
        dtype = DT
        data_kind = name + "_kind"

        def compute(self, src):
            return src

    Fine.__name__ = name
    return Fine


def chunks_in_storage(tmp, data_type):
    (d,) = glob.glob(os.path.join(tmp, f"0-{data_type}-*"))
    (mdf,) = glob.glob(os.path.join(d, "*metadata.json"))
    md = json.load(open(mdf))
    return [(c["start"], c["end"], c["n"]) for c in md["chunks"]], md.get("exception")


def attempt(other, rechunk):
    Gappy.rechunk_on_save = rechunk
    tmp = tempfile.mkdtemp()
    tmp2 = tempfile.mkdtemp()
    try:
        kw = dict(register=[Src, Gappy, fine_plugin(other)], allow_lazy=False, timeout=60)
        # sanity: on its own the gappy target is rejected
        st = strax.Context(storage=[strax.DataDirectory(tmp2)], **kw)
        try:
            st.make("0", "gappy", processor="threaded_mailbox")
            print("?? gappy alone was accepted")
        except Exception as e:
            assert "not continuous" in str(e), e
        assert not st.is_stored("0", "gappy")

        st = strax.Context(storage=[strax.DataDirectory(tmp)], **kw)
        try:
            st.make("0", ("gappy", other), allow_multiple=True, processor="threaded_mailbox")
        except Exception as e:
            return f"rejected ({type(e).__name__}: {str(e)[:60]})"
        if not st.is_stored("0", "gappy"):
            return "not stored"
        chunks, exc = chunks_in_storage(tmp, "gappy")
        assert sum(c[2] for c in chunks) == 15, chunks  # the 5 rows in [100, 150) are missing
        msg = (
            f"st.make('0', ('gappy', '{other}'), allow_multiple=True) raised nothing; "
            f"is_stored('0','gappy')=True, exception in metadata={exc}, "
            f"stored chunks (start, end, n) with rechunk_on_save={rechunk}: {chunks}"
        )
        try:
            back = st.get_array("0", "gappy")
            msg += f"; get_array('0','gappy') then returns {len(back)} rows normally"
        except Exception as e:
            msg += f"; loading it back as a target raises {type(e).__name__}"
        return "VIOLATION " + msg
    finally:
        shutil.rmtree(tmp, ignore_errors=True)
        shutil.rmtree(tmp2, ignore_errors=True)


found = []
for rechunk in (True, False):
    for other in ("fine", "okay", "good", "nice", "well", "solid", "sound", "clean"):
        res = attempt(other, rechunk)
        if res.startswith("VIOLATION"):
            print(res)
            found.append(res)
            break
        print(f"(with companion target {other!r}: {res})")

if found:
    print("\nA requested target with a 50 ns hole (rows 100..150 missing) was stored as valid data")
    sys.exit(1)
print("no violation")
