"""C12 hunt 3: a multi-output DownChunkingPlugin that yields a dict lacking one of its declared
outputs is not rejected; the omitted output is stored as valid data with a hole.

Plugin._fix_output (ordinary plugins) builds `{d: ... for d in self.provides}` and therefore
fails on a missing output. DownChunkingPlugin._fix_output (down_chunking_plugin.py) only looks at
the keys that happen to be present in the yielded dict (`_result.values()` / `_result.items()`):
it never checks that every data type in `provides` was delivered. Both processors then forward
only what is there (PostOffice._fetch_new loops over `msg.items()`, divide_outputs likewise), so
the saver of the omitted output just sees fewer chunks and closes normally.
"""

import glob
import json
import logging
import os
import shutil
import sys
import tempfile
import warnings

import numpy as np
import strax

warnings.filterwarnings("ignore")
logging.disable(logging.CRITICAL)

DT = strax.time_fields + [(("payload", "xx"), np.int64)]


def rows(n, t0):
    r = np.zeros(n, dtype=strax.to_numpy_dtype(DT))
    r["time"] = t0 + np.arange(n) * 10
    r["endtime"] = r["time"] + 5
    return r


class Src(strax.Plugin):
    depends_on = ()
    provides = "src"
    dtype = DT
    data_kind = "src"
    save_when = strax.SaveWhen.NEVER

    def is_ready(self, chunk_i):
        return chunk_i < 4

    def source_finished(self):
        return True

    def compute(self, chunk_i):
        return self.chunk(start=chunk_i * 100, end=(chunk_i + 1) * 100, data=rows(5, chunk_i * 100))


class TwoOut(strax.DownChunkingPlugin):
    depends_on = "src"
    provides = ("first_out", "second_out")
    dtype = dict(first_out=DT, second_out=DT)
    data_kind = dict(first_out="kind_one", second_out="kind_two")

    def compute(self, src, start, end, chunk_i):
        for lo, hi in ((start, start + 50), (start + 50, end)):
            part = src[(src["time"] >= lo) & (src["time"] < hi)]
            out = dict(
                first_out=self.chunk(start=lo, end=hi, data=part, data_type="first_out"),
                second_out=self.chunk(start=lo, end=hi, data=part, data_type="second_out"),
            )
            if chunk_i == 1 and lo == start:
                # contract violation: declared output second_out is not delivered
                del out["second_out"]
            yield out


def stored(tmp, data_type):
    (d,) = glob.glob(os.path.join(tmp, f"0-{data_type}-*"))
    (mdf,) = glob.glob(os.path.join(d, "*metadata.json"))
    md = json.load(open(mdf))
    return [(c["start"], c["end"], c["n"]) for c in md["chunks"]], md.get("exception")


problems = []
for rechunk in (True, False):
    TwoOut.rechunk_on_save = rechunk
    for processor in ("single_thread", "threaded_mailbox"):
        tmp = tempfile.mkdtemp()
        try:
            st = strax.Context(storage=[strax.DataDirectory(tmp)], register=[Src, TwoOut])
            try:
                got = st.get_array("0", "first_out", processor=processor, progress_bar=False)
            except Exception as e:
                print(f"OK [{processor}, rechunk_on_save={rechunk}] rejected: {type(e).__name__}: {e}")
                continue
            if not st.is_stored("0", "second_out"):
                print(f"OK [{processor}] second_out not stored")
                continue
            chunks, exc = stored(tmp, "second_out")
            n = sum(c[2] for c in chunks)
            msg = (
                f"[{processor}, rechunk_on_save={rechunk}] get_array('0','first_out') returned "
                f"{len(got)} rows without exception although chunk [100,150) of the declared output "
                f"second_out was never delivered; is_stored('0','second_out')=True, "
                f"exception in metadata={exc}, stored {n} of 20 rows in chunks {chunks}"
            )
            try:
                back = st.get_array("0", "second_out", processor=processor, progress_bar=False)
                msg += f"; get_array('0','second_out') then returns {len(back)} rows normally"
            except Exception as e:
                msg += f"; loading it as a target raises {type(e).__name__}"
            print("VIOLATION", msg)
            problems.append(msg)
        finally:
            shutil.rmtree(tmp, ignore_errors=True)

if problems:
    print("\nIncomplete multi-output result of a DownChunkingPlugin was accepted and stored")
    sys.exit(1)
print("no violation")
