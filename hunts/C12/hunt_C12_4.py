"""C12 hunt 4: with the ThreadedMailboxProcessor in non-lazy mode (allow_lazy=False, or any
max_workers > 1) a single requested target whose chunks leave a gap IS reported to the caller
(ValueError: Data is not continuous) but is nevertheless left in storage as valid, complete data
when the offending chunk is among the last `max_messages` (default 4) chunks of the run and the
consumer of get_iter is not faster than the saver.

Reason: the only gap/overlap check is strax.continuity_check in Context.get_iter, i.e. in the
consumer's thread, after the fact. The saver is an independent reader of the same mailbox
(threaded_mailbox.py, `self.mailboxes[d].add_reader(saver.save_from ...)`, can_drive=True when not
lazy). It receives the offending chunk, the rest of the run and StopIteration, and finalises the
data (Saver.close -> FileSaver._close renames the _temp folder) before the consumer has looked at
the offending chunk. When the consumer finally raises, killing the mailboxes no longer reaches the
saver. The per-chunk work of the consumer below is a 0.3 s sleep (any real per-chunk analysis in a
`for chunk in st.get_iter(...)` loop does the same).
"""

import glob
import json
import logging
import os
import shutil
import sys
import tempfile
import time
import warnings

import numpy as np
import strax

warnings.filterwarnings("ignore")
logging.disable(logging.CRITICAL)

DT = strax.time_fields + [(("payload", "xx"), np.int64)]


def rows(n, t0):
    r = np.zeros(n, dtype=strax.to_numpy_dtype(DT))
    r["time"] = t0 + np.arange(n) * 10
    r["endtime"] = r["time"] + 5
    return r


class Src(strax.Plugin):
    depends_on = ()
    provides = "src"
    dtype = DT
    data_kind = "src"
    save_when = strax.SaveWhen.NEVER

    def is_ready(self, chunk_i):
        return chunk_i < 4

    def source_finished(self):
        return True

    def compute(self, chunk_i):
        return self.chunk(start=chunk_i * 100, end=(chunk_i + 1) * 100, data=rows(5, chunk_i * 100))


class Gappy(strax.Plugin):
    """Third chunk starts 50 ns late: [0,100) [100,200) [250,300) [300,400)"""

    depends_on = "src"
    provides = "gappy"
    dtype = DT
    data_kind = "src"

    def compute(self, src, start, end, chunk_i):
        if chunk_i == 2:
            return self.chunk(start=start + 50, end=end, data=src[src["time"] >= start + 50])
        return src


class Downstream(strax.Plugin):
    depends_on = "gappy"
    provides = "downstream"
    dtype = DT
    data_kind = "src"

    def compute(self, src):
        return src


def stored(tmp, data_type):
    (d,) = glob.glob(os.path.join(tmp, f"0-{data_type}-*"))
    (mdf,) = glob.glob(os.path.join(d, "*metadata.json"))
    md = json.load(open(mdf))
    return [(c["start"], c["end"], c["n"]) for c in md["chunks"]], md.get("exception")


problems = []
for label, ctx_kwargs, iter_kwargs in (
    ("allow_lazy=False", dict(allow_lazy=False), {}),
    ("max_workers=2", {}, dict(max_workers=2)),
):
    for rechunk in (True, False):
        Gappy.rechunk_on_save = rechunk
        tmp = tempfile.mkdtemp()
        try:
            st = strax.Context(
                storage=[strax.DataDirectory(tmp)], register=[Src, Gappy, Downstream], **ctx_kwargs
            )
            seen = []
            raised = None
            try:
                for chunk in st.get_iter(
                    "0", "gappy", processor="threaded_mailbox", progress_bar=False, **iter_kwargs
                ):
                    seen.append((chunk.start, chunk.end))
                    time.sleep(0.3)  # the user's per-chunk work
            except Exception as e:
                raised = e
            print(f"[{label}, rechunk_on_save={rechunk}] consumer saw {seen}, then got: {raised!r}"[:230])
            if raised is None:
                problems.append("no exception at all")
                continue
            if not st.is_stored("0", "gappy"):
                print("    OK: not stored as valid data")
                continue
            chunks, exc = stored(tmp, "gappy")
            msg = (
                f"[{label}, rechunk_on_save={rechunk}] processing failed, yet "
                f"is_stored('0','gappy')=True, exception in metadata={exc}, "
                f"stored {sum(c[2] for c in chunks)} of 20 rows in chunks {chunks}"
            )
            try:
                d = st.get_array("0", "downstream", processor="threaded_mailbox", progress_bar=False)
                msg += f"; a dependent plugin is then computed from it without complaint ({len(d)} rows)"
            except Exception as e:
                msg += f"; dependent plugin: {type(e).__name__}"
            try:
                back = st.get_array("0", "gappy", progress_bar=False)
                msg += f"; get_array('0','gappy') returns {len(back)} rows normally"
            except Exception as e:
                msg += f"; get_array('0','gappy') raises {type(e).__name__}"
            print("    VIOLATION", msg)
            problems.append(msg)
        finally:
            shutil.rmtree(tmp, ignore_errors=True)

if problems:
    print("\nRejected output (gap in the requested target) was left in storage as valid data")
    sys.exit(1)
print("no violation")
