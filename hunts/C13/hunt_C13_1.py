"""C13 hunt 1: the savers are a hole in the backpressure (eager mode, max_workers > 1).

With max_workers > 1 ThreadedMailboxProcessor hands its thread pool to every saver.
Saver.save_from() then only *submits* each chunk write to the pool and immediately
pulls the next chunk from its mailbox; it never waits for (or bounds) the list of
pending writes.  The saver therefore always looks like an infinitely fast reader to its
mailbox, the mailbox never fills, and production runs at full speed no matter how slow
the storage is.  The chunks that are waiting to be written pile up in the executor
queue (plus Saver.save_from's `pending` list): a buffer outside any mailbox whose size
grows with the length of the run instead of being bounded by max_messages.

Control: the same pipeline with max_workers=1 (writes happen inside the saver thread)
keeps the backlog at 0 and production is throttled to the speed of the storage.

Only public extension points are used: a StorageBackend / Saver subclass whose chunk
write takes 30 ms.
"""
import faulthandler
import os
import shutil
import sys
import tempfile
import threading
import time

faulthandler.dump_traceback_later(300, exit=True)

import numpy as np
import strax

CAP = 2  # mailbox capacity (context option max_messages)
WRITE_SECONDS = 0.03

lock = threading.Lock()
stat = dict(produced=0, submitted=0, written=0, max_backlog=0, produced_when_half_written=None)


def slow_write(fn, data, compressor, n_total):
    time.sleep(WRITE_SECONDS)
    size = strax.save_file(fn, data=data, compressor=compressor)
    with lock:
        stat["written"] += 1
        if stat["written"] == n_total // 2:
            stat["produced_when_half_written"] = stat["produced"]
    return size


class SlowSaver(strax.FileSaver):
    n_total = 0

    def _save_chunk(self, data, chunk_info, executor=None):
        filename = self._chunk_filename(chunk_info)
        fn = os.path.join(self.tempdirname, filename)
        with lock:
            stat["submitted"] += 1
            stat["max_backlog"] = max(stat["max_backlog"], stat["submitted"] - stat["written"] - 1)
        if executor is None:
            size = slow_write(fn, data, self.md["compressor"], self.n_total)
            return dict(filename=filename, filesize=size), None
        return dict(filename=filename), executor.submit(
            slow_write, fn, data, self.md["compressor"], self.n_total
        )


class SlowBackend(strax.FileSytemBackend):
    def _saver(self, dirname, metadata, **kwargs):
        os.makedirs(os.path.dirname(os.path.abspath(dirname)), exist_ok=True)
        return SlowSaver(dirname, metadata=metadata, **kwargs)


class SlowDirectory(strax.DataDirectory):
    def __init__(self, *args, **kwargs):
        super().__init__(*args, **kwargs)
        self.backends = [SlowBackend()]


@strax.takes_config(strax.Option("n_chunks", type=int, default=10, track=False))
class Src(strax.Plugin):
    provides = "src"
    depends_on = tuple()
    dtype = strax.time_fields
    parallel = False
    rechunk_on_save = False
    save_when = strax.SaveWhen.ALWAYS

    def source_finished(self):
        return True

    def is_ready(self, chunk_i):
        return chunk_i < self.config["n_chunks"]

    def compute(self, chunk_i):
        with lock:
            stat["produced"] += 1
        r = np.zeros(3, self.dtype)
        r["time"] = chunk_i * 10 + np.arange(3)
        r["endtime"] = r["time"] + 1
        return self.chunk(start=chunk_i * 10, end=chunk_i * 10 + 10, data=r)


def run(n, max_workers):
    for k in stat:
        stat[k] = 0
    stat["produced_when_half_written"] = None
    SlowSaver.n_total = n
    tmp = tempfile.mkdtemp(prefix="hunt_C13_1_")
    try:
        st = strax.Context(
            storage=[SlowDirectory(tmp)],
            register=[Src],
            config=dict(n_chunks=n),
            allow_lazy=False,
            max_messages=CAP,
            timeout=60,
        )
        # the consumer pulls as fast as it can (this is what st.make does)
        for _ in st.get_iter(
            "0", "src", processor="threaded_mailbox", max_workers=max_workers, progress_bar=False
        ):
            pass
        return stat["max_backlog"], stat["produced_when_half_written"]
    finally:
        shutil.rmtree(tmp, ignore_errors=True)


if __name__ == "__main__":
    # everything that sits in mailboxes / reader batches is at most a few times CAP
    bound = 4 * CAP + 4
    bad = []
    for mw in (1, 2):
        for n in (40, 80, 160):
            backlog, ahead = run(n, mw)
            print(
                f"max_workers={mw} N={n:3d} capacity={CAP}: max. number of chunks waiting to be "
                f"written = {backlog:3d}; chunks produced when N/2 were written = {ahead}"
            )
            if backlog > bound:
                bad.append((mw, n, backlog))
    if bad:
        print(
            f"\nVIOLATION: with max_workers=2 the number of produced-but-unwritten chunks is not "
            f"bounded by the mailbox capacity ({CAP}); it grows with the run length: {bad}"
        )
        sys.stdout.flush()
        os._exit(1)
    print("no violation")
    os._exit(0)
