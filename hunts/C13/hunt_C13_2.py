"""C13 hunt 2 (Mailbox level, low severity): after Mailbox.kill(upstream=False) the sender
thread is neither stopped nor throttled any more - it pulls its source all the way to the
end and throws every message away.

Mailbox.send() returns at once on a killed-but-not-force-killed mailbox ("message lost")
without telling _send_from, and in lazy mode _can_fetch() answers True as soon as the
mailbox is killed.  So once the only reader is gone, the number of further source items
is the rest of the run (N - 1 here), not a constant bounded by the capacity - in eager
and in lazy mode.  (Not reachable through ThreadedMailboxProcessor, which always kills
with upstream=True.)
"""
import faulthandler, os, sys, threading, time
faulthandler.dump_traceback_later(120, exit=True)
import strax

def run(n, lazy, cap):
    produced = [0]
    got_first = threading.Event()
    mb = strax.Mailbox(name=f"mb_lazy{lazy}_n{n}", lazy=lazy, max_messages=cap, timeout=10)

    def source():
        for i in range(n):
            produced[0] += 1
            yield i

    def reader(msgs):
        try:
            next(msgs)           # pull exactly one message, then stop pulling
            got_first.set()
            time.sleep(1)        # the consumer pauses ...
        except strax.MailboxKilled:
            pass

    mb.add_sender(source())
    mb.add_reader(reader)
    mb.start()
    got_first.wait(10)
    time.sleep(0.2)
    at_rest = produced[0]
    mb.kill(upstream=False, reason=(RuntimeError, RuntimeError("reader went away"), None))
    time.sleep(0.5)
    after_kill = produced[0]
    mb.cleanup()
    return at_rest, after_kill

bad = False
for lazy in (False, True):
    for n in (1000, 2000):
        at_rest, after = run(n, lazy, cap=2)
        print(f"lazy={lazy!s:5} capacity=2 N={n}: source items produced while the reader pauses: "
              f"{at_rest}; after kill(upstream=False): {after}")
        if after > 10:
            bad = True
if bad:
    print("VIOLATION: after kill(upstream=False) the sender drains the whole source "
          "(messages lost); production grows with N instead of stopping")
    sys.stdout.flush(); os._exit(1)
print("no violation"); os._exit(0)
