"""C14 hunt 1: a DownChunkingPlugin that runs in a superrun stamps every chunk it yields with the
subrun spans of its whole INPUT chunk, not of the piece it yields.

Consequences shown here (single thread processor, default options):
 (a) the chunks of the superrun (yielded and stored) record subrun spans that lie outside the chunk,
     even a chunk that only covers the gap BEFORE a subrun names that subrun;
 (b) any plugin that depends on the down-chunked data type cannot be computed for the superrun at
     all: Chunk.concatenate refuses the inconsistent spans
     ("... run 1 was split into chunks [[0, 10], [5, 10]]").
"""
import atexit, datetime, json, logging, os, shutil, sys, tempfile, warnings

_nb = tempfile.mkdtemp()
os.environ.setdefault("NUMBA_CACHE_DIR", _nb)
atexit.register(shutil.rmtree, _nb, True)

import numpy as np
import pytz
from bson import json_util
import strax

logging.disable(logging.CRITICAL)
warnings.simplefilter("ignore")

# run_id -> chunks (start, end, times of the rows)
LAYOUT = {
    "1": [(0, 10, [1, 6]), (10, 20, [12])],
    "2": [(100, 110, [101]), (110, 130, [115, 129])],
}
DTYPE = strax.time_fields + [(("Value", "val"), np.int64), (("Run", "rid"), np.int64)]


class Src(strax.Plugin):
    provides = "src"
    depends_on = tuple()
    data_kind = "src"
    rechunk_on_save = False
    dtype = DTYPE

    def source_finished(self):
        return True

    def is_ready(self, chunk_i):
        return chunk_i < len(LAYOUT[self.run_id])

    def compute(self, chunk_i):
        start, end, times = LAYOUT[self.run_id][chunk_i]
        r = np.zeros(len(times), self.dtype)
        r["time"] = times
        r["endtime"] = r["time"] + 1
        r["val"] = r["time"]
        r["rid"] = int(self.run_id)
        return self.chunk(start=start, end=end, data=r)


class Down(strax.DownChunkingPlugin):
    """Yields its input in two halves (the documented use of a DownChunkingPlugin)"""

    provides = "down"
    depends_on = "src"
    data_kind = "src"
    dtype = DTYPE
    allow_superrun = True
    rechunk_on_save = False

    def compute(self, src, start, end):
        mid = (start + end) // 2
        yield self.chunk(start=start, end=mid, data=src[src["endtime"] <= mid].copy())
        yield self.chunk(start=mid, end=end, data=src[src["time"] >= mid].copy())


class After(strax.Plugin):
    provides = "after"
    depends_on = "down"
    dtype = DTYPE
    allow_superrun = True

    def compute(self, src):
        return src.copy()


tempdir = tempfile.mkdtemp()
atexit.register(shutil.rmtree, tempdir, True)
st = strax.Context(
    storage=[strax.DataDirectory(tempdir, provide_run_metadata=True)],
    register=[Src, Down, After],
)
st.set_context_config({"write_superruns": True, "use_per_run_defaults": False})
t0 = datetime.datetime(2020, 1, 1, tzinfo=pytz.utc)
for r, chunks in LAYOUT.items():
    doc = dict(
        name=r,
        start=t0 + datetime.timedelta(seconds=chunks[0][0]),
        end=t0 + datetime.timedelta(seconds=chunks[-1][1]),
    )
    with open(st.storage[0]._run_meta_path(r), "w") as f:
        json.dump(doc, f, default=json_util.default)
st.define_run("_s", ["1", "2"])

problems = []

# (a) spans recorded in the chunks of the superrun
expected = np.concatenate([st.get_array(r, "down", progress_bar=False) for r in ("1", "2")])
chunks = list(st.get_iter("_s", "down", progress_bar=False))
got = np.concatenate([c.data for c in chunks])
print("rows equal to the concatenation of the subruns:", np.array_equal(got, expected))
for c in chunks:
    bad = [
        (r, se)
        for r, se in (c.subruns or {}).items()
        if not (c.start <= se["start"] and se["end"] <= c.end)
    ]
    print(f"  chunk [{c.start:3d},{c.end:3d}) n={len(c)} subruns={c.subruns}" + ("   <-- WRONG" if bad else ""))
    if bad:
        problems.append(f"chunk [{c.start},{c.end}) of _s.down records spans outside itself: {bad}")
print("stored chunk metadata of _s.down:")
for ci in st.get_metadata("_s", "down")["chunks"]:
    print(f"  [{ci['start']:3d},{ci['end']:3d}) subruns={ci['subruns']}")

# (b) a plugin behind the down-chunking plugin
try:
    after = st.get_array("_s", "after", progress_bar=False)
    exp_after = np.concatenate([st.get_array(r, "after", progress_bar=False) for r in ("1", "2")])
    if not np.array_equal(after, exp_after):
        problems.append("_s.after differs from the concatenation of the subruns")
except Exception as e:
    print(f"get_array('_s', 'after') raised {type(e).__name__}: {e}")
    problems.append(f"get_array('_s', 'after') raised {type(e).__name__}: {str(e)[:200]}")
    for r in ("1", "2"):
        print(f"  (the same target for subrun {r} alone works:", st.get_array(r, "after", progress_bar=False)["val"], ")")

if problems:
    print("\nVIOLATIONS of C14:")
    for p in problems:
        print(" -", p)
    sys.exit(1)
print("no violation")
