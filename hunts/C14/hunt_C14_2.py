"""C14 hunt 2: when an OverlapWindowPlugin is the level at which superrun processing starts (it
allows superruns, its dependency does not), the rows of a subrun are recorded under the PREVIOUS
subrun, with a span that reaches over the gap between the runs and beyond the end of that run.

Root cause: strax.Chunk.split. The input buffer of the plugin holds the zero-duration rest of run 1
concatenated with the first chunk of run 2 (superrun = {'1': [20,20], '2': [100,110]}). After the
split the empty span of run 1 is dropped, one run is left, and the run_id of the piece is then taken
as `list(self.superrun.keys())[0]`, the first key of the UNSPLIT chunk, i.e. '1', although the
piece consists of run '2' only. OverlapWindowPlugin.do_compute concatenates this chunk with its
cached input of run '1': equal run_ids, so Chunk.concatenate throws the superrun dict away and the
result is taken to be run '1' as a whole.
"""
import atexit, datetime, json, logging, os, shutil, sys, tempfile, warnings

_nb = tempfile.mkdtemp()
os.environ.setdefault("NUMBA_CACHE_DIR", _nb)
atexit.register(shutil.rmtree, _nb, True)

import numpy as np
import pytz
from bson import json_util
import strax

logging.disable(logging.CRITICAL)
warnings.simplefilter("ignore")

# run_id -> chunks (start, end, times of the rows)
LAYOUT = {
    "1": [(0, 10, [1, 6]), (10, 20, [12])],
    "2": [(100, 110, [101]), (110, 130, [115, 129])],
}
DTYPE = strax.time_fields + [(("Value", "val"), np.int64), (("Run", "rid"), np.int64)]


class Src(strax.Plugin):
    provides = "src"
    depends_on = tuple()
    data_kind = "src"
    rechunk_on_save = False
    dtype = DTYPE

    def source_finished(self):
        return True

    def is_ready(self, chunk_i):
        return chunk_i < len(LAYOUT[self.run_id])

    def compute(self, chunk_i):
        start, end, times = LAYOUT[self.run_id][chunk_i]
        r = np.zeros(len(times), self.dtype)
        r["time"] = times
        r["endtime"] = r["time"] + 1
        r["val"] = r["time"]
        r["rid"] = int(self.run_id)
        return self.chunk(start=start, end=end, data=r)




class Window(strax.OverlapWindowPlugin):
    provides = "win"
    depends_on = "src"
    dtype = DTYPE
    allow_superrun = True

    def get_window_size(self):
        return 3

    def compute(self, src):
        return src.copy()


class Plain(strax.Plugin):
    """The same, as an ordinary plugin: for comparison"""

    provides = "plain"
    depends_on = "src"
    dtype = DTYPE
    allow_superrun = True

    def compute(self, src):
        return src.copy()


def setup(write_superruns):
    tempdir = tempfile.mkdtemp()
    atexit.register(shutil.rmtree, tempdir, True)
    st = strax.Context(
        storage=[strax.DataDirectory(tempdir, provide_run_metadata=True)],
        register=[Src, Window, Plain],
    )
    st.set_context_config({"write_superruns": write_superruns, "use_per_run_defaults": False})
    t0 = datetime.datetime(2020, 1, 1, tzinfo=pytz.utc)
    for r, chunks in LAYOUT.items():
        doc = dict(
            name=r,
            start=t0 + datetime.timedelta(seconds=chunks[0][0]),
            end=t0 + datetime.timedelta(seconds=chunks[-1][1]),
        )
        with open(st.storage[0]._run_meta_path(r), "w") as f:
            json.dump(doc, f, default=json_util.default)
    st.define_run("_s", ["1", "2"])
    return st


problems = []
extent = {r: (c[0][0], c[-1][1]) for r, c in LAYOUT.items()}


def check(label, chunks):
    for c in chunks:
        notes = []
        for r, se in (c.subruns or {}).items():
            if se["start"] < extent[r][0] or se["end"] > extent[r][1]:
                notes.append(f"span of run {r} {se} exceeds the run {extent[r]}")
        for row in c.data:
            r = str(row["rid"])
            if r not in (c.subruns or {}):
                notes.append(f"row t={row['time']} of run {r} is in a chunk that records only {list(c.subruns)}")
        print(f"  {label} chunk [{c.start:3d},{c.end:3d}) rows of runs {c.data['rid'].tolist()} subruns={c.subruns}")
        for n in notes:
            print("        <-- " + n)
            problems.append(f"{label} chunk [{c.start},{c.end}): {n}")


# 0. the root cause in isolation (strax.Chunk only)
kw = dict(data_type="src", data_kind="src", dtype=DTYPE)
rest_of_1 = strax.Chunk(start=20, end=20, run_id="1", data=np.zeros(0, DTYPE), **kw)
d = np.zeros(1, DTYPE)
d["time"], d["endtime"] = 101, 102
first_of_2 = strax.Chunk(start=100, end=110, run_id="2", data=d, **kw)
both = strax.Chunk.concatenate([rest_of_1, first_of_2], allow_superrun=True)
piece, _ = both.split(t=110, allow_early_split=True)
print(f"Chunk.split: piece.run_id={piece.run_id!r} but piece.superrun={piece.superrun}")
if list(piece.superrun) != [piece.run_id]:
    problems.append(
        f"Chunk.split returns a chunk with run_id {piece.run_id!r} whose superrun is {piece.superrun}"
    )

# 1. on the fly, 2. written and read back
st = setup(write_superruns=False)
print("ordinary plugin, combined on the fly:")
check("plain", list(st.get_iter("_s", "plain", progress_bar=False)))
print("OverlapWindowPlugin, combined on the fly:")
check("win  ", list(st.get_iter("_s", "win", progress_bar=False)))
st = setup(write_superruns=True)
st.make("_s", "win", progress_bar=False)
assert st.is_stored("_s", "win")
print("OverlapWindowPlugin, stored superrun:")
for ci in st.get_metadata("_s", "win")["chunks"]:
    print(f"  stored [{ci['start']:3d},{ci['end']:3d}) n={ci['n']} subruns={ci['subruns']}")
check("win stored", list(st.get_iter("_s", "win", progress_bar=False)))

if problems:
    print("\nVIOLATIONS of C14:")
    for p in problems:
        print(" -", p)
    sys.exit(1)
print("no violation")
