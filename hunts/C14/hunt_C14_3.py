"""C14 hunt 3: a superrun-capable plugin with two dependencies of different kinds (and different
chunk layouts) cannot process a superrun when, in one dependency, a row that starts exactly at the
start of a subrun (other than the first) reaches beyond the end of the other dependency's first chunk
of that subrun. Each subrun alone is processed fine; get_array for the superrun raises

    ValueError: Computing inputs' superruns or subrunses of {...} are different:
                {'da': {'2': {'start': 20, 'end': 100}}, 'db': {'1': {'start': 20, 'end': 100}}}

What happens: Plugin.iter splits the buffer of 'db' early, at the start of that row = the start of
the subrun, then trims 'da' to the same time. Both pieces are row-less and span (end of run 1, start
of run 2), but strax.Chunk.split attributes them differently: for the 'db' buffer (superrun
{'1': [20,20], '2': [100,130]}) the left piece has no run left and gets the FIRST key '1'; the 'da'
input had gone through a split before (run_id '1', superrun {'2': [100,110]}: see hunt 2) and its
left piece gets '2'. do_compute then refuses the inconsistent inputs. It happens with and without a
gap between the subruns, with write_superruns on and off, and with both processors.
"""
import atexit, datetime, json, logging, os, shutil, sys, tempfile, warnings

_nb = tempfile.mkdtemp()
os.environ.setdefault("NUMBA_CACHE_DIR", _nb)
atexit.register(shutil.rmtree, _nb, True)

import numpy as np
import pytz
from bson import json_util
import strax

logging.disable(logging.CRITICAL)
warnings.simplefilter("ignore")


DTYPE = strax.time_fields + [(("Value", "val"), np.int64), (("Run", "rid"), np.int64)]
# run_id -> chunks (start, end, [(time, endtime) of the rows]); set by the loop at the bottom
LAYOUT = {"da": {}, "db": {}}


class SrcA(strax.Plugin):
    provides = "da"
    depends_on = tuple()
    data_kind = "da"
    rechunk_on_save = False
    dtype = DTYPE

    def source_finished(self):
        return True

    def is_ready(self, chunk_i):
        return chunk_i < len(LAYOUT[self.provides[0]][self.run_id])

    def compute(self, chunk_i):
        start, end, rows = LAYOUT[self.provides[0]][self.run_id][chunk_i]
        r = np.zeros(len(rows), self.dtype)
        r["time"] = [x[0] for x in rows]
        r["endtime"] = [x[1] for x in rows]
        r["val"] = r["time"]
        r["rid"] = int(self.run_id)
        return self.chunk(start=start, end=end, data=r)


class SrcB(SrcA):
    provides = "db"
    data_kind = "db"


class Both(strax.Plugin):
    provides = "both"
    depends_on = ("da", "db")
    data_kind = "da"
    dtype = DTYPE
    allow_superrun = True

    def compute(self, da, db):
        return da.copy()


def run(gap, write_superruns):
    o = 20 + gap  # start of run 2
    LAYOUT["da"] = {"1": [(0, 20, [(5, 6)])], "2": [(o, o + 10, [(o + 3, o + 4)]), (o + 10, o + 30, [(o + 12, o + 13)])]}
    # the first row of run 2 starts at the start of the run and is 15 ns long
    LAYOUT["db"] = {"1": [(0, 20, [(7, 8)])], "2": [(o, o + 30, [(o, o + 15)])]}
    tempdir = tempfile.mkdtemp()
    atexit.register(shutil.rmtree, tempdir, True)
    st = strax.Context(
        storage=[strax.DataDirectory(tempdir, provide_run_metadata=True)],
        register=[SrcA, SrcB, Both],
    )
    st.set_context_config({"write_superruns": write_superruns, "use_per_run_defaults": False})
    t0 = datetime.datetime(2020, 1, 1, tzinfo=pytz.utc)
    for r, chunks in LAYOUT["da"].items():
        doc = dict(
            name=r,
            start=t0 + datetime.timedelta(seconds=chunks[0][0]),
            end=t0 + datetime.timedelta(seconds=chunks[-1][1]),
        )
        with open(st.storage[0]._run_meta_path(r), "w") as f:
            json.dump(doc, f, default=json_util.default)
    st.define_run("_s", ["1", "2"])
    expected = np.concatenate([st.get_array(r, "both", progress_bar=False) for r in ("1", "2")])
    print(f"gap={gap} write_superruns={write_superruns}: subruns alone give rows at {expected['time'].tolist()}")
    out = []
    for processor in ("single_thread", "threaded_mailbox"):
        try:
            got = st.get_array("_s", "both", progress_bar=False, processor=processor)
            ok = np.array_equal(got, expected)
            print(f"   {processor}: superrun gives rows at {got['time'].tolist()}")
            if not ok:
                out.append(f"gap={gap} {processor}: rows differ")
        except Exception as e:
            print(f"   {processor}: get_array('_s', 'both') raised {type(e).__name__}: {str(e)[:420]}")
            out.append(f"gap={gap} ws={write_superruns} {processor}: {type(e).__name__}: {str(e)[:90]}...")
    return out


problems = []
for gap in (80, 0):
    for ws in (False, True):
        problems += run(gap, ws)

if problems:
    print("\nVIOLATIONS of C14 (get_array of the superrun fails where every subrun works):")
    for p in problems:
        print(" -", p)
    sys.exit(1)
print("no violation")
