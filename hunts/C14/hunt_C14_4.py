"""C14 hunt 4: superrun processing that starts at two different levels of the plugin graph.

  src (no superruns) -> low (no superruns) -> mid (allow_superrun) -> top (allow_superrun)
                              `--------------------------------------^
  'top' depends on 'low' AND on 'mid'. Context.check_superrun() accepts this graph (everything that
  depends on a superrun-capable plugin is superrun-capable). For the superrun, get_components hands
  'top' the concatenated per-subrun chunks of 'low' (run_id '1', '2', no subruns) next to the
  superrun chunks of 'mid' (run_id '_s', subruns {...}), and the plugin cannot combine them:
     same data kind     -> ValueError: Cannot merge chunks of different run_ids
     different kinds    -> ValueError: Computing inputs' superruns or subrunses ... are different
  Each subrun alone works. Also when 'mid' was stored as superrun data before.
"""
import atexit, datetime, json, logging, os, shutil, sys, tempfile, warnings

_nb = tempfile.mkdtemp()
os.environ.setdefault("NUMBA_CACHE_DIR", _nb)
atexit.register(shutil.rmtree, _nb, True)

import numpy as np
import pytz
from bson import json_util
import strax

logging.disable(logging.CRITICAL)
warnings.simplefilter("ignore")

# run_id -> chunks (start, end, times of the rows)
LAYOUT = {
    "1": [(0, 10, [1, 6]), (10, 20, [12])],
    "2": [(100, 110, [101]), (110, 130, [115, 129])],
}
DTYPE = strax.time_fields + [(("Value", "val"), np.int64), (("Run", "rid"), np.int64)]


class Src(strax.Plugin):
    provides = "src"
    depends_on = tuple()
    data_kind = "src"
    rechunk_on_save = False
    dtype = DTYPE

    def source_finished(self):
        return True

    def is_ready(self, chunk_i):
        return chunk_i < len(LAYOUT[self.run_id])

    def compute(self, chunk_i):
        start, end, times = LAYOUT[self.run_id][chunk_i]
        r = np.zeros(len(times), self.dtype)
        r["time"] = times
        r["endtime"] = r["time"] + 1
        r["val"] = r["time"]
        r["rid"] = int(self.run_id)
        return self.chunk(start=start, end=end, data=r)




class Low(strax.Plugin):
    provides = "low"
    depends_on = "src"
    dtype = DTYPE
    allow_superrun = False

    def compute(self, src):
        return src.copy()


class Mid(strax.Plugin):
    provides = "mid"
    depends_on = "low"
    dtype = strax.time_fields + [(("Twice the value", "twice"), np.int64)]
    allow_superrun = True

    def compute(self, src):
        return dict(time=src["time"], endtime=src["endtime"], twice=2 * src["val"])


class MidOtherKind(Mid):
    provides = "mid_k"
    data_kind = "other"

    def compute(self, src):
        return super().compute(src)


class Top(strax.Plugin):
    provides = "top"
    depends_on = ("low", "mid")
    data_kind = "src"
    dtype = strax.time_fields + [(("Three times the value", "thrice"), np.int64)]
    allow_superrun = True

    def compute(self, src):
        return dict(time=src["time"], endtime=src["endtime"], thrice=src["val"] + src["twice"])


class TopK(strax.Plugin):
    provides = "top_k"
    depends_on = ("low", "mid_k")
    data_kind = "src"
    dtype = Top.dtype
    allow_superrun = True

    def compute(self, src, other):
        return dict(time=src["time"], endtime=src["endtime"], thrice=3 * src["val"])


tempdir = tempfile.mkdtemp()
atexit.register(shutil.rmtree, tempdir, True)
st = strax.Context(
    storage=[strax.DataDirectory(tempdir, provide_run_metadata=True)],
    register=[Src, Low, Mid, MidOtherKind, Top, TopK],
)
st.set_context_config({"write_superruns": True, "use_per_run_defaults": False})
t0 = datetime.datetime(2020, 1, 1, tzinfo=pytz.utc)
for r, chunks in LAYOUT.items():
    doc = dict(
        name=r,
        start=t0 + datetime.timedelta(seconds=chunks[0][0]),
        end=t0 + datetime.timedelta(seconds=chunks[-1][1]),
    )
    with open(st.storage[0]._run_meta_path(r), "w") as f:
        json.dump(doc, f, default=json_util.default)
st.define_run("_s", ["1", "2"])
st.check_superrun()
print("check_superrun() accepts the plugin graph")

problems = []
for target in ("top", "top_k"):
    expected = np.concatenate([st.get_array(r, target, progress_bar=False) for r in ("1", "2")])
    print(f"{target}: subruns alone give {expected['thrice'].tolist()}")
    for stored_first in (False, True):
        if stored_first:
            mid = st._plugin_class_registry[target].depends_on[1]
            st.make("_s", mid, progress_bar=False)
            assert st.is_stored("_s", mid)
        for processor in ("single_thread", "threaded_mailbox"):
            label = f"{target}, {'mid stored as superrun' if stored_first else 'all on the fly'}, {processor}"
            try:
                got = st.get_array("_s", target, progress_bar=False, processor=processor)
                print(f"   {label}: {got['thrice'].tolist()}")
                if not np.array_equal(got, expected):
                    problems.append(f"{label}: rows differ")
            except Exception as e:
                print(f"   {label}: raised {type(e).__name__}: {str(e)[:330]}")
                problems.append(f"{label}: {type(e).__name__}: {str(e)[:60]}...")

if problems:
    print("\nVIOLATIONS of C14 (get_array of the superrun fails where every subrun works):")
    for p in problems:
        print(" -", p)
    sys.exit(1)
print("no violation")
