"""C15 violation 1: get_array([...], max_workers=2) on a cold plugin cache crashes with
"RuntimeError: dictionary changed size during iteration".

Context.__get_requested_plugins_from_cache iterates the shared dict
self._fixed_plugin_cache[hash] (running Python code - plugin.__copy__() - in the loop body) while
another multi_run worker inserts a new data type into the very same dict in
Context._plugins_to_cache. There is no lock around the plugin cache.

Part A forces the interleaving deterministically with a line tracer (no strax code is changed):
  worker(run 0): resolves 'src', caches it                      -> pause
  worker(run 1): finds 'src' in the cache, starts iterating it  -> pause inside the loop
  worker(run 0): resolves 'lvl', inserts it into the cache      -> done
  worker(run 1): continues the loop                             -> RuntimeError
With ignore_errors=True the (perfectly healthy) run is silently missing from the result instead.
Part B shows the same crash with nothing but the OS scheduler (switch interval 1 us).
"""

import logging
import sys
import threading

import numpy as np
import strax

logging.getLogger("strax").setLevel(logging.CRITICAL)
CONTEXT_FILE = strax.context.__file__
WAIT = 30
TARGETS_B = tuple(f"lvl{i}" for i in range(6))


def plugins(n_more=0):
    class Src(strax.Plugin):
        provides = "src"
        depends_on = tuple()
        dtype = strax.time_fields + [(("value", "v"), np.int64)]

        def source_finished(self):
            return True

        def is_ready(self, chunk_i):
            return chunk_i < 2

        def compute(self, chunk_i):
            r = np.zeros(4, self.dtype)
            r["time"] = chunk_i * 100 + np.arange(4) * 10
            r["endtime"] = r["time"] + 5
            r["v"] = int(self.run_id) * 1000 + chunk_i * 100 + np.arange(4)
            return self.chunk(start=chunk_i * 100, end=(chunk_i + 1) * 100, data=r)

    class Lvl(strax.Plugin):
        provides = "lvl"
        depends_on = ("src",)
        data_kind = "src"
        dtype = strax.time_fields + [(("value + 1", "w"), np.int64)]

        def compute(self, src):
            r = np.zeros(len(src), self.dtype)
            r["time"], r["endtime"], r["w"] = src["time"], src["endtime"], src["v"] + 1
            return r

    more = [
        type(
            f"Lvl{i}",
            (Lvl,),
            dict(provides=f"lvl{i}", dtype=strax.time_fields + [((f"value {i}", f"w{i}"), np.int64)]),
        )
        for i in range(n_more)
    ]
    for i, p in enumerate(more):
        p.compute = lambda self, src, _i=i: _lvl_compute(self, src, f"w{_i}")
    return [Src, Lvl] + more


def _lvl_compute(self, src, field):
    r = np.zeros(len(src), self.dtype)
    r["time"], r["endtime"], r[field] = src["time"], src["endtime"], src["v"] + 1
    return r


def sequential(runs, target):
    st = strax.Context(storage=[], register=plugins())
    return {r: st.get_array(r, target) for r in runs}


# ----------------------------------------------------------------------------------------------
# Part A: controlled interleaving
# ----------------------------------------------------------------------------------------------
def part_a(**kwargs):
    e_src_cached = threading.Event()  # run 0 has put 'src' into the cache
    e_in_loop = threading.Event()  # run 1 is inside the loop over the cache
    e_lvl_cached = threading.Event()  # run 0 has put 'lvl' into the cache
    run_of_thread = {}
    n_cached = {"0": 0}
    log = []

    def local(frame, event, arg):
        run = run_of_thread.get(threading.get_ident())
        name = frame.f_code.co_name
        if name == "_plugins_to_cache" and event == "return" and run == "0":
            n_cached["0"] += 1
            if n_cached["0"] == 1:
                log.append("run 0: cached 'src'; waiting for run 1 to iterate the cache")
                e_src_cached.set()
                e_in_loop.wait(WAIT)
            elif n_cached["0"] == 2:
                log.append("run 0: inserted 'lvl' into the cache")
                e_lvl_cached.set()
        if (
            name == "__get_requested_plugins_from_cache"
            and event == "line"
            and run == "1"
            and not e_in_loop.is_set()
            and "cached_plugins" in frame.f_locals
            and "plugin" in frame.f_locals  # we are in the body of the for loop
        ):
            log.append(
                "run 1: iterating the cache %s; waiting for run 0 to insert"
                % sorted(frame.f_locals["cached_plugins"])
            )
            e_in_loop.set()
            e_lvl_cached.wait(WAIT)
        return local

    def tracer(frame, event, arg):
        if frame.f_code.co_filename != CONTEXT_FILE:
            return None
        name = frame.f_code.co_name
        if name == "__get_plugin":
            ident = threading.get_ident()
            if ident not in run_of_thread:
                run = str(frame.f_locals["run_id"])
                run_of_thread[ident] = run
                if run == "1":
                    # let run 0 go first
                    e_src_cached.wait(WAIT)
        if name in ("_plugins_to_cache", "__get_requested_plugins_from_cache"):
            return local
        return None

    st = strax.Context(storage=[], register=plugins())
    threading.settrace(tracer)
    try:
        res = st.get_array(
            ["0", "1"], "lvl", max_workers=2, multi_run_progress_bar=False, **kwargs
        )
        err = None
    except Exception as e:  # noqa
        res, err = None, e
    finally:
        threading.settrace(None)
    for line in log:
        print("   ", line)
    return res, err


# ----------------------------------------------------------------------------------------------
# Part B: plain OS scheduling
# ----------------------------------------------------------------------------------------------
def part_b(n_iter=60):
    old = sys.getswitchinterval()
    sys.setswitchinterval(1e-6)
    runs = [str(i) for i in range(8)]
    errors = []
    try:
        for i in range(n_iter):
            st = strax.Context(storage=[], register=plugins(6))
            try:
                st.get_array(runs, TARGETS_B, max_workers=8, multi_run_progress_bar=False)
            except Exception as e:  # noqa
                errors.append((i, e))
    finally:
        sys.setswitchinterval(old)
    return n_iter, errors


if __name__ == "__main__":
    bad = False
    expected = sequential(["0", "1"], "lvl")
    print("sequential single-run loads: ", {r: len(x) for r, x in expected.items()}, "rows, fine")

    print("Part A: get_array(['0', '1'], 'lvl', max_workers=2), controlled interleaving")
    res, err = part_a()
    if err is not None:
        bad = True
        print(f"    VIOLATION: multi-run load raised {type(err).__name__}: {err}")
    else:
        ok = all(np.array_equal(res[res["run_id"] == r]["w"], expected[r]["w"]) for r in expected)
        print("    no exception; result equal to sequential:", ok)
        bad |= not ok

    print("Part A': the same with ignore_errors=True")
    res, err = part_a(ignore_errors=True)
    if err is None and sorted(str(r) for r in set(res["run_id"])) != ["0", "1"]:
        bad = True
        print(
            f"    VIOLATION: runs in the result: {sorted(str(r) for r in set(res['run_id']))} - the healthy run 1 "
            "was silently dropped"
        )

    print(f"Part B: get_array(8 runs, {TARGETS_B}, max_workers=8), OS scheduling, cold cache")
    n, errors = part_b()
    kinds = sorted({f"{type(e).__name__}: {e}" for _, e in errors})
    print(f"    {len(errors)} of {n} multi-run loads failed: {kinds}")
    bad |= bool(errors)

    sys.exit(1 if bad else 0)
