"""C15 violation 2: a multi_run worker throws away the plugin cache that the other workers are using
-> KeyError: '<data type>' out of get_array([...], max_workers=2).

Context._plugins_to_cache is an unsynchronised check-then-act:

    if self._fixed_plugin_cache is None:                      # (1) check
        self._fixed_plugin_cache = {context_hash: dict()}     # (2) act: REPLACE the cache
    elif context_hash not in self._fixed_plugin_cache:
        self._fixed_plugin_cache = {context_hash: dict()}     # same for a changed config

A worker that passed (1) on the cold cache and is descheduled before (2) later replaces the cache
that another worker filled in the meantime by an empty one. The readers are check-then-act as well:
Context.key_for (and Context.__get_plugin) first ask _plugins_are_cached(target) and then index
self._fixed_plugin_cache[hash][target] - which is gone.

The interleaving is forced with a line tracer, strax itself is unchanged:
  worker(run 1): in _plugins_to_cache, saw "cache is None"                    -> pause before (2)
  worker(run 0): resolves and caches 'src' and 'lvl'; key_for('lvl'):
                 _plugins_are_cached(('lvl',)) is True                        -> pause
  worker(run 1): executes (2): cache := {hash: {}}
                 (and holds until run 0 has left key_for)
  worker(run 0): plugins = cache[hash]; plugins['lvl']                        -> KeyError
"""

import linecache
import logging
import sys
import threading

import numpy as np
import strax

logging.getLogger("strax").setLevel(logging.CRITICAL)
CONTEXT_FILE = strax.context.__file__
WAIT = 30


def plugins():
    class Src(strax.Plugin):
        provides = "src"
        depends_on = tuple()
        dtype = strax.time_fields + [(("value", "v"), np.int64)]

        def source_finished(self):
            return True

        def is_ready(self, chunk_i):
            return chunk_i < 2

        def compute(self, chunk_i):
            r = np.zeros(4, self.dtype)
            r["time"] = chunk_i * 100 + np.arange(4) * 10
            r["endtime"] = r["time"] + 5
            r["v"] = int(self.run_id) * 1000 + chunk_i * 100 + np.arange(4)
            return self.chunk(start=chunk_i * 100, end=(chunk_i + 1) * 100, data=r)

    class Lvl(strax.Plugin):
        provides = "lvl"
        depends_on = ("src",)
        data_kind = "src"
        dtype = strax.time_fields + [(("value + 1", "w"), np.int64)]

        def compute(self, src):
            r = np.zeros(len(src), self.dtype)
            r["time"], r["endtime"], r["w"] = src["time"], src["endtime"], src["v"] + 1
            return r

    return [Src, Lvl]


def run(**kwargs):
    e_r1_checked = threading.Event()  # run 1 saw "cache is None", is about to replace it
    e_r0_checked = threading.Event()  # run 0 saw "lvl is cached", is about to read it
    e_r1_replaced = threading.Event()  # run 1 replaced the cache
    e_r0_left = threading.Event()  # run 0 is done with key_for
    run_of_thread = {}
    state = {"r1_paused": False, "r0_paused": False}
    log = []

    def local(frame, event, arg):
        run = run_of_thread.get(threading.get_ident())
        name = frame.f_code.co_name
        if event != "line":
            if name == "key_for" and run == "0" and state["r0_paused"]:
                # run 0 leaves key_for (return or exception): let run 1 go on
                e_r0_left.set()
            return local
        text = linecache.getline(CONTEXT_FILE, frame.f_lineno).strip()
        if name == "_plugins_to_cache" and run == "1":
            if not state["r1_paused"] and text == "self._fixed_plugin_cache = {context_hash: dict()}":
                state["r1_paused"] = True
                log.append(
                    "run 1: _plugins_to_cache: cache is None -> about to create it; paused. "
                    f"cache = {frame.f_locals['self']._fixed_plugin_cache}"
                )
                e_r1_checked.set()
                e_r0_checked.wait(WAIT)
            elif state["r1_paused"] and not e_r1_replaced.is_set():
                c = frame.f_locals["self"]._fixed_plugin_cache
                log.append(
                    "run 1: replaced the cache; it now holds "
                    f"{[sorted(v) for v in c.values()]}"
                )
                e_r1_replaced.set()
                e_r0_left.wait(WAIT)
        if (
            name == "key_for"
            and run == "0"
            and not state["r0_paused"]
            and text == "context_hash = self._context_hash()"
            and frame.f_locals.get("target") == "lvl"
        ):
            state["r0_paused"] = True
            c = frame.f_locals["self"]._fixed_plugin_cache
            log.append(
                "run 0: key_for('lvl'): _plugins_are_cached(('lvl',)) was True, cache holds "
                f"{[sorted(v) for v in c.values()]}; paused"
            )
            e_r0_checked.set()
            e_r1_replaced.wait(WAIT)
        return local

    def tracer(frame, event, arg):
        if frame.f_code.co_filename != CONTEXT_FILE:
            return None
        name = frame.f_code.co_name
        if name == "__get_plugin":
            ident = threading.get_ident()
            if ident not in run_of_thread:
                r = str(frame.f_locals["run_id"])
                run_of_thread[ident] = r
                if r == "0":
                    # let run 1 go first, up to its check of the cold cache
                    e_r1_checked.wait(WAIT)
        if name in ("_plugins_to_cache", "key_for"):
            return local
        return None

    st = strax.Context(storage=[], register=plugins())
    threading.settrace(tracer)
    try:
        res = st.get_array(["0", "1"], "lvl", max_workers=2, multi_run_progress_bar=False, **kwargs)
        err = None
    except Exception as e:  # noqa
        res, err = None, e
    finally:
        threading.settrace(None)
    for line in log:
        print("   ", line)
    return res, err


if __name__ == "__main__":
    bad = False
    st = strax.Context(storage=[], register=plugins())
    expected = {r: st.get_array(r, "lvl") for r in ("0", "1")}
    print("sequential single-run loads: ", {r: len(x) for r, x in expected.items()}, "rows, fine")

    print("get_array(['0', '1'], 'lvl', max_workers=2), cold cache, controlled interleaving")
    res, err = run()
    if err is not None:
        bad = True
        print(f"    VIOLATION: multi-run load raised {type(err).__name__}: {err}")
    else:
        ok = all(np.array_equal(res[res["run_id"] == r]["w"], expected[r]["w"]) for r in expected)
        print("    no exception; result equal to sequential:", ok)
        bad |= not ok

    print("the same with ignore_errors=True")
    res, err = run(ignore_errors=True)
    if err is not None:
        bad = True
        print(f"    VIOLATION: multi-run load raised {type(err).__name__}: {err}")
    else:
        got = sorted(str(r) for r in set(res["run_id"]))
        if got != ["0", "1"]:
            bad = True
            print(f"    VIOLATION: runs in the result: {got} - a healthy run was silently dropped")

    sys.exit(1 if bad else 0)
