"""C15 violation 3 (borderline input: the same run id twice in the list): with a writable storage,
get_array / make of a run list that names a run twice works with 1 worker (and sequentially: the
second call simply loads what the first one saved) but crashes with >= 2 workers, because two
workers create savers for the same data key at the same time.

multi_run (strax/utils.py) submits every element of run_ids as its own task without deduplicating;
Context.get_components -> _add_saver then builds two FileSavers on the same temp directory.
"""

import logging
import sys
import tempfile

import numpy as np
import strax

logging.getLogger("strax").setLevel(logging.CRITICAL)


class Src(strax.Plugin):
    provides = "src"
    depends_on = tuple()
    dtype = strax.time_fields + [(("value", "v"), np.int64)]

    def source_finished(self):
        return True

    def is_ready(self, chunk_i):
        return chunk_i < 3

    def compute(self, chunk_i):
        r = np.zeros(4, self.dtype)
        r["time"] = chunk_i * 100 + np.arange(4) * 10
        r["endtime"] = r["time"] + 5
        r["v"] = int(self.run_id) * 1000 + chunk_i * 100 + np.arange(4)
        return self.chunk(start=chunk_i * 100, end=(chunk_i + 1) * 100, data=r)


class Lvl(strax.Plugin):
    provides = "lvl"
    depends_on = ("src",)
    data_kind = "src"
    dtype = strax.time_fields + [(("value + 1", "w"), np.int64)]

    def compute(self, src):
        r = np.zeros(len(src), self.dtype)
        r["time"], r["endtime"], r["w"] = src["time"], src["endtime"], src["v"] + 1
        return r


def attempt(workers, runs=("3", "7", "3")):
    with tempfile.TemporaryDirectory() as d:
        st = strax.Context(storage=[strax.DataDirectory(d)], register=[Src, Lvl])
        try:
            a = st.get_array(list(runs), "lvl", max_workers=workers, multi_run_progress_bar=False)
            return [str(r) for r in a["run_id"][::12]], a["w"].sum(), None
        except Exception as e:  # noqa
            return None, None, e


if __name__ == "__main__":
    with tempfile.TemporaryDirectory() as d:
        st = strax.Context(storage=[strax.DataDirectory(d)], register=[Src, Lvl])
        seq = [st.get_array(r, "lvl", progress_bar=False) for r in ("3", "3", "7")]
        print("sequential single-run calls 3, 3, 7: rows", [len(x) for x in seq])
    expected_sum = sum(x["w"].sum() for x in seq)

    bad = False
    for workers in (1, 2, 3):
        n_fail, last = 0, None
        for _ in range(5):
            runs, s, err = attempt(workers)
            if err is not None or s != expected_sum or runs != ["3", "3", "7"]:
                n_fail += 1
                last = err if err is not None else f"wrong result {runs} {s}"
        print(f"get_array(['3', '7', '3'], 'lvl', max_workers={workers}): {n_fail} of 5 failed", end="")
        if n_fail:
            bad = True
            print(f"; e.g. {type(last).__name__}: {str(last)[:160]}")
        else:
            print()
    sys.exit(1 if bad else 0)
