"""Small helper shared by the hunt_C16_* scripts: two toy plugins."""
import numpy as np
import strax


class Recs(strax.Plugin):
    provides = "recs"
    depends_on = ()
    data_kind = "recs"
    dtype = strax.time_fields + [(("a counter", "x"), np.int64)]
    rechunk_on_save = False
    n_chunks, per_chunk, step = 5, 20, 2000

    def source_finished(self):
        return True

    def is_ready(self, chunk_i):
        return chunk_i < self.n_chunks

    def compute(self, chunk_i):
        r = np.zeros(self.per_chunk, self.dtype)
        t0 = chunk_i * self.per_chunk * self.step
        r["time"] = t0 + np.arange(self.per_chunk) * self.step
        r["endtime"] = r["time"] + 10
        r["x"] = np.arange(self.per_chunk) + chunk_i * self.per_chunk
        return self.chunk(start=t0, end=t0 + self.per_chunk * self.step, data=r)


class Der(strax.Plugin):
    provides = "der"
    depends_on = ("recs",)
    data_kind = "recs"
    dtype = strax.time_fields + [(("twice the counter", "y"), np.int64)]

    def compute(self, recs):
        r = np.zeros(len(recs), self.dtype)
        r["time"], r["endtime"], r["y"] = recs["time"], recs["endtime"], recs["x"] * 2
        return r
