"""C16 violation: the threaded / process stand-alone rechunker does not notice a failed chunk
write; with replace=True it then deletes the intact source and puts broken data in its place.

Real-life trigger: a data type of more than 2 GB, (default) compressor blosc and
target_size_mb > 2000: blosc cannot compress a buffer >= 2 GB, so strax.save_file raises
ValueError("Blosc's input buffer cannot exceed ~2 GB") for the merged chunk.
Run with HUNT_REAL_2GB=1 to reproduce exactly that (2.2 GB of data, ~8 GB RAM, many minutes;
this was run once and gave the same outcome).  By default the script lowers the limit
constant blosc.MAX_BUFFERSIZE (a constant of the blosc package, not of strax) so that a tiny
data set hits the same `raise` in strax.io._blosc_compress.

* parallel=False  : the ValueError propagates, the source stays intact          (correct)
* parallel="thread": rechunker returns normally, the source is deleted and replaced by a
  folder whose metadata carries the exception and whose chunk file does not exist (data loss)
"""
import contextlib
import io
import os
import shutil
import sys
import tempfile

import blosc
import numpy as np
import strax

REAL = os.environ.get("HUNT_REAL_2GB") == "1"
if REAL:
    N_CHUNKS, PER_CHUNK, WIDTH, TARGET_MB = 11, 25_000, 1000, 3000  # 11 x 200 MB
else:
    N_CHUNKS, PER_CHUNK, WIDTH, TARGET_MB = 5, 100, 10, 3000
    blosc.MAX_BUFFERSIZE = 20_000  # stand-in for the 2 GB limit; the data is 48 kB


class BigRecs(strax.Plugin):
    provides = "big_recs"
    depends_on = ()
    data_kind = "big_recs"
    dtype = strax.time_fields + [(("some payload", "payload"), np.float64, WIDTH)]
    rechunk_on_save = False

    def source_finished(self):
        return True

    def is_ready(self, chunk_i):
        return chunk_i < N_CHUNKS

    def compute(self, chunk_i):
        r = np.zeros(PER_CHUNK, self.dtype)
        t0 = chunk_i * PER_CHUNK * 10
        r["time"] = t0 + np.arange(PER_CHUNK) * 10
        r["endtime"] = r["time"] + 5
        r["payload"][:, 0] = np.arange(PER_CHUNK) + chunk_i * PER_CHUNK
        return self.chunk(start=t0, end=t0 + PER_CHUNK * 10, data=r)


def quiet(f, *a, **k):
    with contextlib.redirect_stdout(io.StringIO()), contextlib.redirect_stderr(io.StringIO()):
        return f(*a, **k)


def loadable_rows(folder):
    """Number of rows that load from the data directory `folder`, or the error."""
    st = strax.Context(storage=strax.DataDirectory(folder), register=[BigRecs])
    st.set_context_config({"forbid_creation_of": ("big_recs",)})
    try:
        return sum(len(c) for c in st.get_iter("0", "big_recs", progress_bar=False))
    except Exception as e:
        return f"{type(e).__name__}: {str(e)[:120]}"


base = tempfile.mkdtemp(prefix="hunt_C16_1_")
failed = False
try:
    # The original is written with zstd so that making it is not affected by the limit
    BigRecs.compressor = "zstd"
    st = strax.Context(storage=strax.DataDirectory(os.path.join(base, "orig")), register=[BigRecs])
    quiet(st.make, "0", "big_recs", progress_bar=False)
    key = str(st.key_for("0", "big_recs"))
    n_expected = N_CHUNKS * PER_CHUNK
    print("made", key, "rows:", loadable_rows(os.path.join(base, "orig")))

    for parallel in (False, "thread"):
        work = os.path.join(base, f"work_{parallel}")
        shutil.copytree(os.path.join(base, "orig"), work)
        src = os.path.join(work, key)
        try:
            quiet(
                strax.rechunker,
                src,
                replace=True,
                compressor="blosc",
                target_size_mb=TARGET_MB,
                parallel=parallel,
                max_workers=2,
            )
            outcome = "returned normally"
        except BaseException as e:
            outcome = f"raised {type(e).__name__}: {str(e)[:80]}"
        rows = loadable_rows(work)
        print(f"parallel={parallel!r}: rechunker {outcome}")
        print(f"    source folder now holds: {sorted(os.listdir(src))}")
        print(f"    rows that load from it : {rows}  (expected {n_expected})")
        if rows != n_expected:
            failed = True
            print("    VIOLATION: the data that was to be rechunked in place is gone")
        shutil.rmtree(work)
finally:
    shutil.rmtree(base, ignore_errors=True)

sys.exit(1 if failed else 0)
