"""C16 violation: strax.rechunker with replace=False destroys the source when the destination
resolves to the source folder.

dest_directory is documented as the "head of a folder whereto write new data"; the rechunker
appends the source folder name to it.  Passing the data directory the source already lives in
(or the source folder itself) therefore makes dest == source.  Nothing checks this:
FileSaver.__init__ (strax/storage/files.py:323) removes the "existing data to overwrite" - the
source - before a single chunk has been read.  The call then fails, and the source folder is
left as an empty, broken data type although replace=False.
Same thing from the command line: rechunker --source <dir>/<key> --dest <dir>
"""
import contextlib
import io
import os
import shutil
import sys
import tempfile

import numpy as np
import strax
from _hunt_common import Recs, Der

base = tempfile.mkdtemp(prefix="hunt_C16_2_")
failed = False
try:
    st = strax.Context(storage=strax.DataDirectory(base), register=[Recs, Der])
    with contextlib.redirect_stdout(io.StringIO()):
        st.make("0", "recs", progress_bar=False)
    orig = st.get_array("0", "recs", progress_bar=False)
    src = os.path.join(base, str(st.key_for("0", "recs")))
    before = sorted(os.listdir(src))
    print("source before:", len(orig), "rows in", len(before), "files")

    try:
        with contextlib.redirect_stdout(io.StringIO()), contextlib.redirect_stderr(io.StringIO()):
            strax.rechunker(src, dest_directory=base, replace=False, compressor="zstd")
        print("rechunker(replace=False, dest_directory=<parent of source>) returned normally")
    except Exception as e:
        print(f"rechunker(replace=False, dest_directory=<parent of source>) raised "
              f"{type(e).__name__}: {e}")

    after = sorted(os.listdir(src)) if os.path.exists(src) else None
    print("source after :", after)
    st.set_context_config({"forbid_creation_of": ("recs",)})
    try:
        now = st.get_array("0", "recs", progress_bar=False)
        intact = np.array_equal(now, orig)
    except Exception as e:
        print(f"loading the source now fails: {type(e).__name__}: {str(e)[:150]}")
        intact = False
    if not intact:
        failed = True
        print("VIOLATION: replace was not requested, but the source data is destroyed")
finally:
    shutil.rmtree(base, ignore_errors=True)
sys.exit(1 if failed else 0)
