"""C16 violation: merge_per_chunk_storage stores the groups in the order of the list it is
given, not in time order.

The per-chunk jobs [[0, 1], [2, 3], [4]] cover all chunks of the dependency.  The function
itself treats chunk_number_group as unordered (it checks `sorted(all numbers) == range(n)` to
decide that the result is the complete data type), but wrapped_loader() (strax/context.py
~l.2571) walks the groups in list order.  With the groups listed in another order
(e.g. as the jobs finished) and rechunk=False, the merge succeeds, the result is registered
as THE complete `der` data (is_stored -> True), yet its chunks are out of time order: it can
not be loaded, and can not be remade either since it "exists".
(With rechunk=True the same call raises from Chunk.concatenate instead.)
"""
import contextlib
import io
import shutil
import sys
import tempfile

import numpy as np
import strax
from _hunt_common import Recs, Der

base = tempfile.mkdtemp(prefix="hunt_C16_3_")
failed = False
try:
    # Reference: der made directly
    ref_st = strax.Context(storage=strax.DataDirectory(base + "/ref"), register=[Recs, Der])
    with contextlib.redirect_stdout(io.StringIO()):
        ref = ref_st.get_array("0", "der", progress_bar=False)

    st = strax.Context(storage=strax.DataDirectory(base + "/pc"), register=[Recs, Der])
    groups = [[0, 1], [2, 3], [4]]
    with contextlib.redirect_stdout(io.StringIO()):
        st.make("0", "recs", progress_bar=False)
        for g in groups:
            st.make("0", "der", chunk_number={"recs": g}, progress_bar=False)

    listed = [[4], [0, 1], [2, 3]]  # same jobs, listed in another order
    st.merge_per_chunk_storage("0", "der", "recs", chunk_number_group=listed, rechunk=False)
    print("merge_per_chunk_storage(chunk_number_group=%s, rechunk=False) returned normally" % listed)
    print("is_stored('0', 'der') ->", st.is_stored("0", "der"))
    md = st.get_metadata("0", "der")
    print("stored chunks (start, end):", [(c["start"], c["end"]) for c in md["chunks"]])
    print("metadata start/end:", md["start"], md["end"], " exception:", md.get("exception"))
    try:
        with contextlib.redirect_stdout(io.StringIO()):
            got = st.get_array("0", "der", progress_bar=False)
        same = np.array_equal(got, ref)
        print("loads; equal to directly made der:", same)
        failed = not same
    except Exception as e:
        failed = True
        print(f"loading the merged data fails: {type(e).__name__}: {str(e)[:200]}")
    if failed:
        print("VIOLATION: merged per-chunk data does not load to the rows of the direct data")
finally:
    shutil.rmtree(base, ignore_errors=True)
sys.exit(1 if failed else 0)
