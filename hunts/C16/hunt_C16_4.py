"""C16 violation: strax.rechunker(progress_bar=False) never works.

load_wrapper() in strax/storage/file_rechunker.py (l.90) reads `pbar.start_t`, but a tqdm bar
made with disable=True returns from __init__ before that attribute exists.  Every call with
the documented option progress_bar=False therefore dies with AttributeError on the first
chunk - serial, threaded or process mode - and leaves a broken (exception-marked, 0-chunk)
data folder at the destination.
"""
import contextlib
import io
import os
import shutil
import sys
import tempfile

import numpy as np
import strax
from _hunt_common import Recs, Der

base = tempfile.mkdtemp(prefix="hunt_C16_4_")
failed = False
try:
    st = strax.Context(storage=strax.DataDirectory(base + "/a"), register=[Recs, Der])
    with contextlib.redirect_stdout(io.StringIO()):
        st.make("0", "recs", progress_bar=False)
    orig = st.get_array("0", "recs", progress_bar=False)
    key = str(st.key_for("0", "recs"))
    for parallel in (False,):  # "thread" and "process" fail the same way (plus mailbox timeouts)
        dest = f"{base}/out_{parallel}"
        try:
            with contextlib.redirect_stdout(io.StringIO()), contextlib.redirect_stderr(io.StringIO()):
                strax.rechunker(f"{base}/a/{key}", dest_directory=dest, progress_bar=False,
                                parallel=parallel, _timeout=10)
            print(f"parallel={parallel!r}: returned normally")
        except BaseException as e:
            print(f"parallel={parallel!r}: raised {type(e).__name__}: {str(e)[:120]}")
        st2 = strax.Context(storage=strax.DataDirectory(dest), register=[Recs, Der])
        st2.set_context_config({"forbid_creation_of": ("recs",)})
        try:
            ok = np.array_equal(st2.get_array("0", "recs", progress_bar=False), orig)
        except Exception as e:
            ok = False
            print(f"    rechunked copy does not load: {type(e).__name__}: {str(e)[:100]}")
        print("    destination holds:", os.listdir(f"{dest}/{key}") if os.path.exists(f"{dest}/{key}") else None)
        failed |= not ok
    if failed:
        print("VIOLATION: rechunking with progress_bar=False produces no loadable data")
finally:
    shutil.rmtree(base, ignore_errors=True)
sys.exit(1 if failed else 0)
