"""C17: "inputs violating sortedness are rejected rather than answered wrongly" does not hold
under `python -O` / PYTHONOPTIMIZE=1.

strax/processing/general.py implements every input check as a bare `assert` inside a numba function:
    _check_time_is_sorted, _check_objects_non_negative_length, _check_objects_are_not_overlapping
        mask = np.all(...);  assert mask
and the callers turn the AssertionError into ValueError / a warning.  With -O CPython removes
assert statements from the bytecode numba compiles, so all three checks become no-ops and
fully_contained_in / split_by_containment / touching_windows / abs_time_to_prev_next_interval
silently return wrong answers for unsorted (or negative-length) input.
"""
import os
import subprocess
import sys
import tempfile
import shutil

CHILD = r"""
import warnings, numpy as np, strax
warnings.simplefilter("ignore")
dt = np.dtype([("time", np.int64), ("endtime", np.int64)])
def mk(p):
    y = np.zeros(len(p), dt)
    for i, r in enumerate(p):
        y[i] = r
    return y
things = mk([(10, 11), (0, 1)])          # NOT sorted by time
containers = mk([(0, 2), (9, 12)])       # sorted, non-overlapping; both things are contained
neg = mk([(5, 3)])                       # negative length
calls = [
    ("fully_contained_in(unsorted things)", lambda: strax.fully_contained_in(things, containers).tolist()),
    ("split_by_containment(unsorted things)", lambda: [len(s) for s in strax.split_by_containment(things, containers)]),
    ("touching_windows(unsorted things)", lambda: strax.touching_windows(things, containers).tolist()),
    ("touching_windows(unsorted containers)", lambda: strax.touching_windows(containers, things).tolist()),
    ("abs_time_to_prev_next_interval(unsorted things)", lambda: [a.tolist() for a in strax.abs_time_to_prev_next_interval(things, containers)]),
    ("fully_contained_in(negative-length thing)", lambda: strax.fully_contained_in(neg, containers).tolist()),
]
n_answered = 0
for name, f in calls:
    try:
        print("   ", name, "-> ANSWERED", f())
        n_answered += 1
    except ValueError as e:
        print("   ", name, "-> rejected:", e)
print("N_ANSWERED", n_answered)
"""

cache = tempfile.mkdtemp()
env = dict(os.environ, NUMBA_CACHE_DIR=cache)
env.pop("PYTHONOPTIMIZE", None)
try:
    res = {}
    for flags in ([], ["-O"]):
        out = subprocess.run(
            [sys.executable, *flags, "-c", CHILD], env=env, capture_output=True, text=True
        )
        print("python", " ".join(flags) or "(default)")
        print(out.stdout.rstrip())
        if out.returncode:
            print(out.stderr[-2000:])
        res[bool(flags)] = int(out.stdout.strip().splitlines()[-1].split()[-1])
finally:
    shutil.rmtree(cache, ignore_errors=True)

if res[True] > 0:
    print(
        f"FAIL: with python -O, {res[True]} calls with illegal (unsorted / negative-length) input were "
        f"answered instead of rejected (default mode answered {res[False]}).\n"
        "e.g. fully_contained_in says -1 for the thing [0,1) that lies inside container [0,2)."
    )
    sys.exit(1)
print("ok")
