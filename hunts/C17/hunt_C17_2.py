"""C17 / sort_by_time: at the edge of the "fast path" the single int64 sort key overflows and
the result is NOT sorted by time.

strax/processing/general.py, sort_by_time():
    max_time_difference = (np.iinfo(np.int64).max - 10) / (channel.max() + 1)   # float division
    _time_range_too_large = (x["time"].max() - x["time"].min()) > max_time_difference
The "-10 margin" is lost in float rounding (2**63 - 11 rounds to 2.0**63, the int64 range on the
left side is rounded to float as well), so a time range r with r * (cmax + 1) + channel >= 2**63
still takes the fast path, where _sort_by_time_and_channel builds
    sort_key = (time - time.min()) * max_channel_plus_one + channel
in int64: it wraps to a negative number and the LAST row is sorted to the FRONT.
"""
import sys
import warnings
import numpy as np
import strax

warnings.simplefilter("ignore")
IMAX = np.iinfo(np.int64).max
failures = []


def is_sorted(t):
    return bool(np.all(np.diff(t) >= 0))


def largest_fast_path_range(cmax):
    thr = (IMAX - 10) / (cmax + 1)  # exactly what strax computes
    r = int(thr) + 4096
    while np.int64(r) > thr:  # the same int64-vs-float comparison strax does
        r -= 1
    return r


# (a) arrays WITH a channel field (standard int16 channel)
dt = np.dtype([("time", np.int64), ("length", np.int32), ("dt", np.int16), ("channel", np.int16)])
for n_channels in (3, 494, 1024, 2120, 10000):
    cmax = n_channels - 1
    r = largest_fast_path_range(cmax)
    x = np.zeros(3, dt)
    x["length"] = 1
    x["dt"] = 1
    x["time"] = [0, 5, r]  # already sorted by time: sorting must be the identity
    x["channel"] = [0, cmax, cmax]
    out = strax.sort_by_time(x)
    ok = is_sorted(out["time"])
    print(
        f"n_channels={n_channels:6d} time range={r} ns (~{r / 86400e9:.1f} days) "
        f"-> times out = {out['time'].tolist()}  sorted={ok}"
    )
    if not ok:
        failures.append(n_channels)

# (b) arrays WITHOUT a channel field (key = 2 * dtime + 1)
dt2 = np.dtype([("time", np.int64), ("endtime", np.int64)])
y = np.zeros(3, dt2)
y["time"] = [0, 5, 2**62]
y["endtime"] = y["time"] + 1
out = strax.sort_by_time(y)
ok = is_sorted(out["time"])
print(f"no channel field, time range=2**62 -> times out = {out['time'].tolist()}  sorted={ok}")
if not ok:
    failures.append("nochannel")

if failures:
    print("FAIL: strax.sort_by_time returned data that is not sorted by time for", failures)
    sys.exit(1)
print("ok")
