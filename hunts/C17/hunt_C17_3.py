"""C17 / sort_by_time is not stable once the time range is "too large".

strax/processing/general.py, sort_by_time():
    elif "channel" in x.dtype.names:
        x = stable_sort(x, order=("time", "channel"))
    else:
        x = stable_sort(x, order=("time",))
strax.sort_enforcement.stable_sort is np.sort(arr, kind="mergesort", order=...).  numpy documents
that with `order=` the fields that are NOT named are still used, in dtype order, to break ties.
So rows with equal (time, channel) are NOT kept in input order (which is what "stable" means and
what the fast path _sort_by_time_and_channel does); they are re-ordered by their payload fields.
The same rows therefore come out in a different order depending only on how far away an
unrelated row is (10k channels: > 10.7 days; int16 channel 32767 present: always).
"""
import sys
import warnings
import numpy as np
import strax

warnings.simplefilter("ignore")
dt = np.dtype(
    [("time", np.int64), ("length", np.int32), ("dt", np.int16), ("channel", np.int16), ("area", np.float32)]
)
DAY = 86400 * 10**9


def build(span, cmax):
    x = np.zeros(4, dt)
    x["length"] = 1
    x["dt"] = 1
    x["time"] = [0, 0, 0, span]
    x["channel"] = [5, 5, 5, cmax]
    x["area"] = [9, 3, 7, 0]  # payload, input order 9, 3, 7
    return x


fail = []
for label, span, cmax in [
    ("10k channels, 1 day", 1 * DAY, 9999),
    ("10k channels, 12 days", 12 * DAY, 9999),
    ("494 channels, 1 day", 1 * DAY, 493),
    ("494 channels, 220 days", 220 * DAY, 493),
    ("channel 32767 present, 1 us", 1000, 32767),
]:
    x = build(span, cmax)
    assert np.all(np.diff(x["time"]) >= 0)  # input already sorted by (time, channel)
    out = strax.sort_by_time(x)
    # A stable sort of an already sorted array is the identity
    stable = np.array_equal(out, x)
    print(f"{label:32s} area order of the three tied rows: {out['area'][:3].tolist()}  stable={stable}")
    if not stable:
        fail.append(label)

# no channel field: same effect, ties on time are re-ordered by the other fields
dt2 = np.dtype([("time", np.int64), ("endtime", np.int64), ("tag", np.int32)])
y = np.zeros(3, dt2)
y["time"] = [0, 0, 2**62 + 1000]
y["endtime"] = [20, 10, 2**62 + 1001]
y["tag"] = [1, 2, 3]
out = strax.sort_by_time(y)
stable = np.array_equal(out, y)
print(f"{'no channel, range > 2**62':32s} tag order: {out['tag'].tolist()}  stable={stable}")
if not stable:
    fail.append("nochannel")

if fail:
    print("FAIL: sort_by_time re-ordered rows with equal sort keys (not stable) for:", fail)
    sys.exit(1)
print("ok")
