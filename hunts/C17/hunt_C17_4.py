"""C17 / sort_by_time: the key arithmetic is done in the dtype of the `channel` field.

strax/processing/general.py, sort_by_time():
    channel = x["channel"].copy()
    if min_channel < 0: channel -= min_channel                                  # (1) in-place, channel dtype
    max_time_difference = (np.iinfo(np.int64).max - 10) / (channel.max() + 1)   # (2) numpy scalar + 1
    x = _sort_by_time_and_channel(x, channel, channel.max() + 1)
(2) with an unsigned channel field holding its maximum (uint8 255, uint16 65535) `channel.max() + 1`
    wraps to 0 (numpy >= 2 scalar semantics): max_time_difference = inf, the fast path is taken with
    max_channel_plus_one = 0, the sort key becomes `0 * dtime + channel`: the data is sorted by
    CHANNEL ONLY and the time order is destroyed.
(1) with the standard int16 channel, -1 (strax convention for "no channel", e.g. peaks) together with
    32767 makes `channel -= -1` wrap to -32768, so rows of equal time come out in the wrong channel order.
"""
import sys
import warnings
import numpy as np
import strax

warnings.simplefilter("ignore")
fail = []

for ch_dtype in (np.uint8, np.uint16):
    top = np.iinfo(ch_dtype).max
    dt = np.dtype([("time", np.int64), ("length", np.int32), ("dt", np.int16), ("channel", ch_dtype)])
    x = np.zeros(3, dt)
    x["length"] = 1
    x["dt"] = 1
    x["time"] = [30, 20, 10]
    x["channel"] = [0, 7, top]
    out = strax.sort_by_time(x)
    ok = bool(np.all(np.diff(out["time"]) >= 0))
    print(f"channel dtype {np.dtype(ch_dtype).name:6s} in times [30, 20, 10] -> out times {out['time'].tolist()} "
          f"channels {out['channel'].tolist()}  sorted_by_time={ok}")
    if not ok:
        fail.append(np.dtype(ch_dtype).name)
    # control: without the top value it works
    x["channel"] = [0, 7, top - 1]
    assert np.all(np.diff(strax.sort_by_time(x)["time"]) >= 0)

dt = np.dtype([("time", np.int64), ("length", np.int32), ("dt", np.int16), ("channel", np.int16)])
x = np.zeros(3, dt)
x["length"] = 1
x["dt"] = 1
x["time"] = 10
x["channel"] = [32767, 5, -1]
out = strax.sort_by_time(x)
ok = bool(np.all(np.diff(out["channel"].astype(int)) >= 0))
print(f"channel dtype int16  equal times, channels [32767, 5, -1] -> out channels {out['channel'].tolist()}  "
      f"sorted_by_channel={ok}")
if not ok:
    fail.append("int16 -1 & 32767")

if fail:
    print("FAIL: sort_by_time output is not sorted by (time, channel) for:", fail)
    sys.exit(1)
print("ok")
