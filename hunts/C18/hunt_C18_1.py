"""C18 / 1: strax.baseline averages the zero PADDING of a short pulse into the baseline.

A pulse that is shorter than both `baseline_samples` and the record buffer
(length < samples_per_record, legal: "a record with zero-padding at the end")
gets its baseline from d['data'][:baseline_samples], i.e. including the padded
zeros beyond d['length'].  The stored baseline / baseline_rms and the
baseline-subtracted waveform are then garbage.
"""
import sys
import numpy as np
import strax

n = 10  # samples per record
raw = [100, 100, 100, 100, 90]  # flat baseline of 100 ADC, 10 ADC dip in the last sample

r = np.zeros(1, dtype=strax.record_dtype(n))
r["time"], r["dt"], r["channel"], r["record_i"] = 0, 1, 0, 0
r["length"] = r["pulse_length"] = len(raw)
r["data"][0, : len(raw)] = raw

strax.baseline(r, baseline_samples=40)  # the default; any value > 5 shows it

expected_bl = np.mean(raw[:40])  # 98.0: mean of the samples the pulse really has
print("stored baseline     :", r["baseline"][0], " (mean of the real samples: %s)" % expected_bl)
print("stored baseline_rms :", r["baseline_rms"][0], " (std of the real samples: %s)" % np.std(raw))
print("data after baseline :", r["data"][0])
print("expected data       :", np.r_[int(expected_bl) - np.array(raw), np.zeros(n - len(raw), int)])
hits = strax.find_hits(r, min_amplitude=5)
print("hits found at threshold 5:", len(hits), "(the 8..10 ADC pulse in sample 4 is lost)")

if not np.isclose(r["baseline"][0], expected_bl):
    print("FAIL: baseline includes zero padding beyond record length")
    sys.exit(1)
print("ok")
