"""C18 / 2: baseline() and integrate()/find_hits() disagree on the fractional baseline.

baseline() stores data = +-(raw - int(bl)) (int() truncates toward zero),
integrate() and _find_hits() always ADD (baseline % 1) per sample (% is floor-based).
That is only consistent for flip=True and bl >= 0.  For flip=False, or for a
negative baseline, record area, hit area and hit height are off by
2*frac(bl) resp. 1 per sample from the true baseline-subtracted values.
"""
import sys
import numpy as np
import strax

n = 10
fail = False


def run(raw, flip):
    r = np.zeros(1, dtype=strax.record_dtype(n))
    r["dt"], r["length"], r["pulse_length"] = 1, n, n
    r["data"][0] = raw
    strax.baseline(r, baseline_samples=8, flip=flip)
    strax.integrate(r)
    h = strax.find_hits(r, min_amplitude=5)
    return r, h


# (a) flip=False, positive pulse on a baseline of 100.5
raw = np.array([100, 101, 100, 101, 100, 101, 100, 101, 110, 120])
r, h = run(raw, flip=False)
true_wf = raw - 100.5
print("(a) flip=False  baseline", r["baseline"][0], "data", r["data"][0])
print("    record area", r["area"][0], " true", true_wf.sum())
print("    hit area", h["area"], "height", h["height"], " true", true_wf[8:].sum(), true_wf.max())
fail |= r["area"][0] != round(true_wf.sum())
fail |= not np.allclose(h["area"], true_wf[8:].sum())

# (b) flip=True (default), negative baseline of -100.5, negative-going pulse
raw = -np.array([100, 101, 100, 101, 100, 101, 100, 101, 110, 120])
r, h = run(raw, flip=True)
true_wf = -100.5 - raw
print("(b) flip=True   baseline", r["baseline"][0], "data", r["data"][0])
print("    record area", r["area"][0], " true", true_wf.sum())
print("    hit area", h["area"], "height", h["height"], " true", true_wf[8:].sum(), true_wf.max())
fail |= r["area"][0] != round(true_wf.sum())
fail |= not np.allclose(h["height"], true_wf.max())

if fail:
    print("FAIL: area/height inconsistent with stored baseline (int() truncation vs '% 1', sign of flip)")
    sys.exit(1)
print("ok")
