"""C18 / 3: strax.cut_baseline cannot be called at all (numba TypingError).

data_reduction.py:43 does `d.record_i.astype(np.int32)`; d.record_i is a numba
int16 *scalar*, which has no .astype -> compilation fails on the first call,
for every input (even an empty array).  numba 0.67 / numpy 2.x in this env.
"""
import sys
import numpy as np
import strax

n = 10
r = np.zeros(2, dtype=strax.record_dtype(n))
r["length"] = [n, 5]
r["dt"] = 1
r["time"] = [0, n]
r["record_i"] = [0, 1]
r["pulse_length"] = 15
r["data"] = 7
r["data"][1, 5:] = 0

rc = 0
for name, arr in [("two-fragment pulse", r), ("empty input", r[:0])]:
    try:
        strax.cut_baseline(arr.copy(), n_before=3, n_after=2)
        print(name, ": ok")
    except Exception as e:
        print(name, ": FAIL", type(e).__name__, "-", str(e).splitlines()[1])
        rc = 1
sys.exit(rc)
