"""C18 / 4: find_hits reports a stale / uninitialised max_time (peak time outside the hit).

In _find_hits, `max_time` is only written when `x > height`, with height reset
to 0 after every hit, and max_time itself is never reset.  A hit none of whose
samples is > 0 (possible as soon as the effective threshold is 0:
min_amplitude=0, e.g. a purely noise-scaled threshold on a record with
baseline_rms == 0) therefore keeps the max_time of the PREVIOUS hit (possibly
of another record/channel), or 0 for the very first hit.
"""
import sys
import numpy as np
import strax

n = 10
r = np.zeros(2, dtype=strax.record_dtype(n))
r["dt"], r["length"], r["pulse_length"] = 1, n, n
r["time"] = [1000, 2000]
r["channel"] = [0, 1]
r["data"][0] = [0, 0, -1, 0, 5, 0, 0, 0, 0, 0]
r["data"][1] = [0, 0, 0, -1, 0, 0, 0, 0, 0, 0]

# noise-scaled threshold only: threshold = max(0, 3 * baseline_rms) = 0 for these rms=0 records
hits = strax.find_hits(r, min_amplitude=0, min_height_over_noise=3)
bad = 0
for h in hits:
    inside = h["time"] <= h["max_time"] < h["time"] + h["length"] * h["dt"]
    print(
        "hit ch%d [%d, %d) height %g threshold %g max_time %d %s"
        % (h["channel"], h["time"], h["time"] + h["length"] * h["dt"], h["height"],
           h["threshold"], h["max_time"], "" if inside else "<-- outside the hit")
    )
    bad += not inside
if bad:
    print("FAIL: %d of %d hits have a peak time that is not inside the hit" % (bad, len(hits)))
    sys.exit(1)
print("ok")
