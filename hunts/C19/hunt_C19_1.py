"""C19 violation 1: merge_peaks + replace_merged double-count a peak (area, n_hits).

merge_peaks stores the merged waveform with store_downsampled_waveform, which
floors the number of samples.  The merged peak therefore ends BEFORE the end of
the last constituent (time + dt*length < endtime(last)), although its 'area',
'n_hits' and 'area_per_channel' contain all constituents.  replace_merged decides what
to drop with touching_windows(orig, merge), i.e. with time + dt*length of the
merged peak, so a short last constituent that lies in the cut-off tail is NOT
removed: it stays in the result next to the merged peak that already contains it.

Default strax.peak_dtype (200 samples, no 'endtime' field), legal input:
two disjoint, time-sorted peaks, [0, 200) and [200, 201), dt = 1.

Secondary check: merge_peaks on a one-peak array raises (np.min of empty).
"""

import sys
import numpy as np
import strax

fail = []

peaks = np.zeros(2, dtype=strax.peak_dtype(n_channels=2))
peaks["dt"] = 1
peaks["time"] = [0, 200]
peaks["length"] = [200, 1]
peaks["data"][0, :200] = 1.0
peaks["data"][1, :1] = 7.0
peaks["area"] = [200.0, 7.0]
peaks["area_per_channel"][:, 0] = [200.0, 7.0]
peaks["n_hits"] = [200, 1]
assert np.all(peaks["time"][1:] >= strax.endtime(peaks)[:-1])  # disjoint, sorted

merged = strax.merge_peaks(peaks, np.array([0]), np.array([2]), max_buffer=1000)
m = merged[0]
print(
    f"merged peak: time={m['time']} dt={m['dt']} length={m['length']} "
    f"endtime={strax.endtime(merged)[0]} (last constituent ends at {strax.endtime(peaks)[-1]})"
)
print(f"merged area={m['area']}  integral of merged data={m['data'][:m['length']].sum()}")

if strax.endtime(merged)[0] != strax.endtime(peaks)[-1]:
    fail.append("merged peak does not span first start .. last end")
if not np.isclose(m["data"][: m["length"]].sum(), m["area"]):
    fail.append("merged waveform does not integrate to merged area")

result = strax.replace_merged(peaks, merged)
print(f"replace_merged -> {len(result)} peaks")
for p in result:
    print(
        f"   time={p['time']} end={p['time'] + p['dt'] * p['length']} "
        f"area={p['area']} n_hits={p['n_hits']}"
    )
print(f"total area before: {peaks['area'].sum()}  after: {result['area'].sum()}")
print(f"total n_hits before: {peaks['n_hits'].sum()}  after: {result['n_hits'].sum()}")
if len(result) != 1:
    fail.append("a merged constituent survived replace_merged")
if not np.isclose(result["area"].sum(), peaks["area"].sum()):
    fail.append("area not conserved by merge + replace (double counting)")
if result["n_hits"].sum() != peaks["n_hits"].sum():
    fail.append("n_hits not conserved by merge + replace (double counting)")

# Secondary: a peak list of length one cannot be passed at all
one = peaks[:1].copy()
for starts, ends in (([], []), ([0], [1])):
    try:
        strax.merge_peaks(
            one, np.array(starts, dtype=np.int64), np.array(ends, dtype=np.int64), max_buffer=1000
        )
    except Exception as e:
        print(f"merge_peaks(one peak, {starts}, {ends}) raised {type(e).__name__}: {e}")
        fail.append(f"merge_peaks crashes on a one-peak array (merge set {starts},{ends})")

if fail:
    print("\nVIOLATIONS:")
    for f in fail:
        print(" -", f)
    sys.exit(1)
print("ok")
