"""C19 violation 2: waveform helpers deviate from their defining formulas.

(a) strax.highest_density_region: off-by-one in _process_intervals_numba
    (strax/processing/statistics.py).  The guard is `len(gaps) > _buffer_size`,
    but len(gaps) gaps mean len(gaps)+1 intervals.  With exactly
    _buffer_size+1 disjoint intervals the last interval is written to index
    [_buffer_size] of an axis of length _buffer_size: an out-of-bounds write in
    nopython code.  It lands on res[fi, 1, 0] (right edge of the FIRST interval)
    and on res[fi+1, 0, 0] / past the end of the array.  The returned region is
    silently wrong instead of being flagged with -1.

(b) symmetric_moving_average keeps a float32 running sum; after a large sample
    leaves the window the average of strictly positive samples becomes 0 or
    negative.
"""

import sys
import numpy as np
import strax
from strax.processing.peak_splitting import symmetric_moving_average

fail = []


def reference_hdr_intervals(data, fraction):
    """Smallest set of highest samples (no ties in the test data) holding >= fraction of the
    area, returned as sorted list of [left, right) index intervals."""
    order = np.argsort(data, kind="stable")[::-1]
    tot = data.sum()
    for j in range(1, len(data) + 1):
        if data[order[:j]].sum() / tot >= fraction:
            break
    idx = np.sort(order[:j])
    out = []
    start = prev = idx[0]
    for i in idx[1:]:
        if i != prev + 1:
            out.append((int(start), int(prev) + 1))
            start = i
        prev = i
    out.append((int(start), int(prev) + 1))
    return out


# --- (a) small: three islands, buffer for two
data = np.array([5, 0, 4, 0, 3, 0, 0], dtype=np.float32)
fr = np.array([0.95])
for bs in (3, 2):
    res, amp = strax.highest_density_region(data, fr, _buffer_size=bs)
    got = [(int(l), int(r)) for l, r in zip(res[0, 0], res[0, 1])]
    ref = reference_hdr_intervals(data, fr[0])
    print(f"data={data.tolist()} fraction=0.95 _buffer_size={bs}: got {got}, expected {ref}")
    if bs == 2:
        flagged = np.all(res[0] == -1)
        if not flagged and got != ref[:bs]:
            fail.append(
                f"HDR with {len(ref)} intervals and _buffer_size={bs}: returned {got}, "
                "neither the true intervals nor the -1 overflow flag"
            )

# --- (a) default _buffer_size=10: eleven islands
d = np.zeros(23, dtype=np.float32)
d[0:22:2] = np.arange(30, 19, -1)
res, amp = strax.highest_density_region(d, np.array([0.999, 0.9999]))
got = [(int(l), int(r)) for l, r in zip(res[0, 0], res[0, 1])]
ref = reference_hdr_intervals(d, 0.999)
print(f"11 islands, default buffer: got      {got}")
print(f"                            expected {ref} (or all -1)")
if not np.all(res[0] == -1) and got != ref[:10]:
    fail.append(
        f"HDR default buffer, 11 intervals: first interval reported as {got[0]}, true {ref[0]}"
    )

# --- (b) moving average
a = np.array([1e5, 1e-3, 1e-3, 1e-3, 1e-3], dtype=np.float32)
for w in (1, 2):
    got = symmetric_moving_average(a, w)
    ref = np.array(
        [a[max(0, i - w) : i + w + 1].astype(np.float64).mean() for i in range(len(a))]
    )
    print(f"moving average wing={w} of {a.tolist()}:\n   got      {got.tolist()}\n   expected {ref.tolist()}")
    if not np.allclose(got, ref, rtol=1e-3):
        fail.append(
            f"symmetric_moving_average(wing={w}) of strictly positive samples gives "
            f"min={got.min()} (true min {ref.min():.3g})"
        )

if fail:
    print("\nVIOLATIONS:")
    for f in fail:
        print(" -", f)
    sys.exit(1)
print("ok")
