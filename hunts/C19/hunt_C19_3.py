"""C19 violation 3: find_peaks peaks are not "gap clusters + extensions subject to max_duration".

(a) peak length is computed as  (peak_endtime - p.time + right_extension) / dt  and
    truncated into the int32 'length' field.  If left/right_extension are not
    multiples of dt the peak ends before its last hit ends (the peak does not span
    its hits, let alone hits + right extension).  sum_waveform then works on
    time // dt sample indices, finds no overlap at all and the peak's area drops to 0:
    the hit's area is lost.

(b) the max_duration test adds left_extension twice
    (p["time"] is already t0 - left_extension, and "+ left_extension" is added
    again), so a gap cluster whose peak would last D ns with
    max_duration - left_extension < D <= max_duration is cut although it satisfies
    the duration cut.
"""

import sys
import numpy as np
import strax

fail = []
to_pe = np.ones(2)

# ---------- (a) extension not a multiple of dt
r = np.zeros(1, dtype=strax.record_dtype(20))
r["time"] = 0
r["length"] = 20
r["pulse_length"] = 20
r["dt"] = 10
r["channel"] = 0
r["baseline"] = 1000
r["data"][0][10] = 50
hits = strax.find_hits(r, min_amplitude=1)
assert len(hits) == 1
h = hits[0]
print(f"hit: [{h['time']}, {h['time'] + h['dt'] * h['length']}) dt={h['dt']} area={h['area']}")
for le, re in [(5, 0), (3, 3)]:
    peaks = strax.find_peaks(
        hits, to_pe, gap_threshold=30, left_extension=le, right_extension=re, min_channels=1
    )
    p_end = strax.endtime(peaks)[0]
    area_fp = float(peaks["area"][0])
    strax.sum_waveform(peaks, hits, r, strax.record_links(r), to_pe)
    area_sw = float(peaks["area"][0])
    print(
        f"left_extension={le} right_extension={re}: peak [{peaks['time'][0]}, {p_end}), "
        f"expected end >= {h['time'] + h['dt'] * h['length'] + re}; "
        f"area find_peaks={area_fp}, after sum_waveform={area_sw}, "
        f"data sum={peaks['data'][0].sum()}"
    )
    if p_end < h["time"] + h["dt"] * h["length"]:
        fail.append(f"(a) ext=({le},{re}): peak ends at {p_end}, before its hit ends")
    if not np.isclose(area_sw, area_fp):
        fail.append(f"(a) ext=({le},{re}): hit area {area_fp} lost, sum_waveform area={area_sw}")

# ---------- (b) left_extension counted twice in the max_duration cut
hh = np.zeros(2, dtype=strax.hit_dtype)
hh["time"] = [0, 30]
hh["length"] = 1
hh["dt"] = 1
hh["area"] = 1
kw = dict(gap_threshold=100, left_extension=10, right_extension=10, min_channels=1)
full = strax.find_peaks(hh, to_pe, max_duration=10_000, **kw)
D = int(strax.endtime(full)[0] - full["time"][0])
print(f"gap cluster of both hits gives one peak of duration D={D} ns")
for md in (D - 1, D, D + 5, D + 9, D + 10):
    p = strax.find_peaks(hh, to_pe, max_duration=md, **kw)
    print(f"   max_duration={md}: {len(p)} peak(s), durations {(strax.endtime(p) - p['time']).tolist()}")
    if md >= D and len(p) != 1:
        fail.append(f"(b) max_duration={md} >= D={D}, but the cluster was cut into {len(p)} peaks")

if fail:
    print("\nVIOLATIONS:")
    for f in fail:
        print(" -", f)
    sys.exit(1)
print("ok")
