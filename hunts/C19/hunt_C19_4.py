"""C19 violation 4: split fragments do not tile the parent and their waveform does not
integrate to their area (after down-sampling).

split_peaks creates fragments that exactly tile the parent, but then calls
sum_waveform -> store_downsampled_waveform on them.  That function floors the
number of samples (length = floor(length / factor)) and drops the tail of the
waveform while 'area' / 'area_per_channel' were accumulated from the full,
un-truncated hit data.  For a fragment the dropped tail is the middle of the parent
waveform, not zero padding.  Result: gaps between fragments, sum(data) != area, and
compute_properties (index_of_fraction uses p['area'] as the total) never reaches the
upper area fractions -> negative widths.

Uses a 4-sample peak dtype to keep the example tiny; the same happens with the
default 200 samples (e.g. a fragment of 404 samples -> factor 3 -> 134*3 = 402).
The same truncation already hits the parent from find_peaks + sum_waveform when
right_extension is smaller than the truncated tail.
"""

import sys
import numpy as np
import strax

fail = []
to_pe = np.ones(2)
pd = strax.peak_dtype(n_channels=2, n_sum_wv_samples=4)

r = np.zeros(1, dtype=strax.record_dtype(40))
r["time"] = 0
r["length"] = 40
r["pulse_length"] = 40
r["dt"] = 1
r["channel"] = 0
r["baseline"] = 1000
wf = np.zeros(40, dtype=np.int16)
wf[5:10] = 20
wf[10:15] = 2
wf[15:25] = 20
r["data"][0] = wf
hits = strax.find_hits(r, min_amplitude=1)
rl = strax.record_links(r)
print("hits:", [(int(h["time"]), int(h["time"] + h["length"] * h["dt"]), float(h["area"])) for h in hits])

peaks = strax.find_peaks(
    hits, to_pe, gap_threshold=10, left_extension=0, right_extension=0, min_channels=1,
    result_dtype=pd,
)
strax.sum_waveform(peaks, hits, r, rl, to_pe)
strax.compute_properties(peaks)
P = peaks[0]
P_end = P["time"] + P["dt"] * P["length"]
print(
    f"parent: [{P['time']}, {P_end}) dt={P['dt']} area={P['area']} "
    f"data={P['data'][:P['length']].tolist()} (sum {P['data'][:P['length']].sum()})"
)

frags = strax.split_peaks(
    peaks.copy(), hits, r, rl, to_pe, algorithm="local_minimum", min_height=0, min_ratio=0
)
cursor = P["time"]
for f in frags:
    f_end = f["time"] + f["dt"] * f["length"]
    dsum = float(f["data"][: f["length"]].sum())
    print(
        f"fragment: [{f['time']}, {f_end}) dt={f['dt']} length={f['length']} area={f['area']} "
        f"sum(data)={dsum} width(50%,90%)=({f['width'][5]}, {f['width'][9]})"
    )
    if f["time"] != cursor:
        fail.append(f"gap/overlap: fragment starts at {f['time']}, previous ended at {cursor}")
    cursor = f_end
    if not np.isclose(dsum, f["area"]):
        fail.append(f"fragment at {f['time']}: area={f['area']} but waveform integrates to {dsum}")
    if np.any(f["width"] < 0):
        fail.append(f"fragment at {f['time']}: negative widths {f['width'].tolist()}")
if cursor != P_end:
    fail.append(f"fragments end at {cursor}, parent ends at {P_end}")
tot = sum(float(f["data"][: f["length"]].sum()) for f in frags)
print(f"sum of fragment areas={frags['area'].sum()}, sum of fragment waveforms={tot}, parent area={P['area']}")

if fail:
    print("\nVIOLATIONS:")
    for f in fail:
        print(" -", f)
    sys.exit(1)
print("ok")
