#!/bin/sh
# setup_cmd: build the overlay venv used by every check (offline).
set -e
cd "$(dirname "$0")"
V=/verif/.venv
if [ ! -x "$V/bin/python" ] || ! "$V/bin/python" -c "import z3, crosshair, jsonschema, strax" >/dev/null 2>&1; then
  rm -rf "$V"
  /venv/bin/python -m venv "$V"
  SP="$V/lib/python3.12/site-packages"
  echo "import site; site.addsitedir('/venv/lib/python3.12/site-packages')" > "$SP/_overlay.pth"
  echo "/repo" > "$SP/_repo.pth"
  PIP_NO_INDEX=1 "$V/bin/pip" install -q --no-index --find-links /opt/veriftools/wheels z3-solver crosshair-tool jsonschema >/dev/null
fi
"$V/bin/python" -c "import z3, crosshair, jsonschema, strax; print('setup ok', z3.get_version_string(), strax.__file__)"
