"""Array layer: object-dtype structured arrays that carry symx proxies through numpy,
and the `np` / builtin shims injected into strax module globals (no repo edits).
"""
import builtins
import types

import numpy as np

from . import core
from .core import SymInt, SymBool, SymReal, is_sym


# --------------------------------------------------------------------------------------
def obj_dtype(dt):
    """The all-object counterpart of a numpy dtype (names, titles and subarray shapes kept)."""
    dt = np.dtype(dt)
    if dt.names is None:
        if dt.subdtype is not None:
            return np.dtype((object, dt.subdtype[1]))
        return np.dtype(object)
    fields = []
    for name in dt.names:
        f = dt.fields[name]
        sub = f[0]
        title = f[2] if len(f) > 2 else None
        key = (title, name) if title is not None else name
        if sub.subdtype is not None:
            fields.append((key, object, sub.subdtype[1]))
        elif sub.names is not None:
            fields.append((key, obj_dtype(sub)))
        else:
            fields.append((key, object))
    return np.dtype(fields)


def is_obj_dtype(dt):
    dt = np.dtype(dt)
    if dt.names is None:
        return dt.kind == "O" or (dt.subdtype is not None and dt.subdtype[0].kind == "O")
    return all(is_obj_dtype(dt.fields[n][0]) for n in dt.names)


def _conv_index(key):
    """Object arrays of (concrete or symbolic) bools / ints used as an index."""
    if isinstance(key, np.ndarray) and key.dtype == object:
        flat = list(key.ravel())
        if len(flat) == 0:
            return np.zeros(key.shape, dtype=np.intp)
        if all(isinstance(v, (bool, np.bool_, SymBool)) for v in flat):
            return np.array([bool(v) for v in flat], dtype=bool).reshape(key.shape)
        return np.array([core.concretize(v) for v in flat], dtype=np.intp).reshape(key.shape)
    if isinstance(key, SymInt):
        return core.concretize(key)
    if isinstance(key, SymBool):
        return bool(key)
    if isinstance(key, slice):
        if any(is_sym(v) for v in (key.start, key.stop, key.step)):
            return slice(
                *[core.concretize(v) if is_sym(v) else v for v in (key.start, key.stop, key.step)]
            )
        return key
    if isinstance(key, tuple):
        return tuple(_conv_index(k) for k in key)
    if isinstance(key, list) and any(is_sym(v) for v in key):
        return _conv_index(np.array(key, dtype=object))
    return key


class SArr(np.ndarray):
    """ndarray subclass (object dtype) whose index / reduction operations understand proxies."""

    def __getitem__(self, key):
        return super().__getitem__(_conv_index(key))

    def __setitem__(self, key, value):
        return super().__setitem__(_conv_index(key), value)

    # merged reductions (ite chains instead of forks)
    def max(self, axis=None, out=None, **kw):
        if axis is None and self.dtype == object and out is None and not kw:
            flat = list(np.asarray(self).ravel())
            if not flat:
                raise ValueError("zero-size array to reduction operation maximum which has no identity")
            return core.smax(flat) if len(flat) > 1 else flat[0]
        return np.asarray(self).max(axis=axis, out=out, **kw)

    def min(self, axis=None, out=None, **kw):
        if axis is None and self.dtype == object and out is None and not kw:
            flat = list(np.asarray(self).ravel())
            if not flat:
                raise ValueError("zero-size array to reduction operation minimum which has no identity")
            return core.smin(flat) if len(flat) > 1 else flat[0]
        return np.asarray(self).min(axis=axis, out=out, **kw)

    def sum(self, axis=None, dtype=None, out=None, **kw):
        if self.dtype == object and out is None:
            a = np.asarray(self)
            if axis is None:
                return core.ssum(a.ravel(), 0)
            return wrap(np.add.reduce(a, axis=axis))
        return np.asarray(self).sum(axis=axis, dtype=dtype, out=out, **kw)

    def mean(self, axis=None, dtype=None, out=None, **kw):
        if axis is None and self.dtype == object and out is None and self.size:
            return core.ssum(np.asarray(self).ravel(), 0) / self.size  # exact rational
        return np.asarray(self).mean(axis=axis, dtype=dtype, out=out, **kw)

    def std(self, axis=None, dtype=None, out=None, **kw):
        if axis is None and self.dtype == object and out is None and any(is_sym(v) for v in np.asarray(self).ravel()):
            r = core.fresh_real()  # a square root: left uninterpreted (non-negative), nothing may depend on its value
            core.assume(r >= 0)
            return r
        return np.asarray(self).std(axis=axis, dtype=dtype, out=out, **kw)

    def all(self, axis=None, out=None, **kw):
        if axis is None and self.dtype == object:
            return core.sand(*list(np.asarray(self).ravel()))
        return np.asarray(self).all(axis=axis, out=out, **kw)

    def any(self, axis=None, out=None, **kw):
        if axis is None and self.dtype == object:
            return core.sor(*list(np.asarray(self).ravel()))
        return np.asarray(self).any(axis=axis, out=out, **kw)

    def astype(self, dtype, *a, **k):
        # casts are value-preserving on the (assumed in-range) symbolic domain
        if self.dtype.names is None and self.dtype == object:
            d = np.dtype(dtype)
            if d.kind in "iu":
                out = np.empty(self.shape, dtype=object)
                of, sf = out.ravel(), np.asarray(self).ravel()
                for i in range(len(sf)):
                    v = sf[i]
                    of[i] = core.trunc(v) if isinstance(v, (SymReal, float, np.floating)) else v
                return out.view(SArr)
            if d.kind in "fO":
                return self.copy()
            if d.kind == "b":
                out = np.empty(self.shape, dtype=object)
                of, sf = out.ravel(), np.asarray(self).ravel()
                for i in range(len(sf)):
                    v = sf[i]
                    of[i] = (v != 0) if not isinstance(v, (bool, np.bool_, SymBool)) else v
                return out.view(SArr)
        if is_obj_dtype(self.dtype):
            return self.copy()
        return np.asarray(self).astype(dtype, *a, **k)

    def argmax(self, *a, **k):
        return np.asarray(self).argmax(*a, **k)

    def argmin(self, *a, **k):
        return np.asarray(self).argmin(*a, **k)

    @property
    def nbytes(self):
        return int(np.asarray(self).nbytes)

    def __reduce__(self):
        raise core.Unsupported("pickling a symbolic array")

    def __deepcopy__(self, memo):
        return self.copy()


def wrap(a):
    if isinstance(a, np.ndarray) and not isinstance(a, SArr) and is_obj_dtype(a.dtype):
        return a.view(SArr)
    return a


def make(dtype, n):
    """A fresh SArr of n rows with the object counterpart of dtype (fields filled with 0)."""
    a = np.zeros(n, dtype=obj_dtype(dtype)).view(SArr)
    return a


def struct(dtype, rows):
    """Build an SArr from a list of dicts {field: value}."""
    a = make(dtype, len(rows))
    for i, r in enumerate(rows):
        for k, v in r.items():
            a[k][i] = v
    return a


# --------------------------------------------------------------------------------------
class NpShim(types.ModuleType):
    """Stands in for `np` inside strax modules under analysis: array constructors give object
    arrays (so that symbolic values can be stored), everything else is numpy's own."""

    def __init__(self):
        super().__init__("numpy")
        self.__dict__["_np"] = np

    def __getattr__(self, name):
        return getattr(np, name)

    # scalar constructors: np.int64(x) must hand a proxy through (numpy's own would call int() on it); as a dtype
    # argument the subclass is indistinguishable from the real type (np.dtype(I64) == int64)
    class int64(np.int64):
        def __new__(cls, v=0):
            return v if core.is_sym(v) else np.int64(v)

    class int32(np.int32):
        def __new__(cls, v=0):
            return v if core.is_sym(v) else np.int32(v)

    class int16(np.int16):
        def __new__(cls, v=0):
            return v if core.is_sym(v) else np.int16(v)

    # constructors --------------------------------------------------------------
    @staticmethod
    def _dt(dtype):
        if not core.active():
            return dtype
        if dtype is None:
            return object
        try:
            d = np.dtype(dtype)
        except TypeError:
            return dtype
        if d.kind == "U" or d.kind == "S":
            return dtype
        return obj_dtype(d)

    def zeros(self, shape, dtype=float, *a, **k):
        shape = _conc_shape(shape)
        r = np.zeros(shape, self._dt(dtype), *a, **k)
        return wrap(r)

    def ones(self, shape, dtype=float, *a, **k):
        shape = _conc_shape(shape)
        if core.active():
            r = np.empty(shape, self._dt(dtype))
            _fill(r, 1)
            return wrap(r)
        return np.ones(shape, dtype, *a, **k)

    def empty(self, shape, dtype=float, *a, **k):
        shape = _conc_shape(shape)
        if core.active():
            return wrap(np.zeros(shape, self._dt(dtype)))
        return np.empty(shape, dtype, *a, **k)

    def full(self, shape, fill_value, dtype=None, *a, **k):
        shape = _conc_shape(shape)
        if core.active():
            r = np.empty(shape, self._dt(dtype if dtype is not None else object))
            _fill(r, fill_value)
            return wrap(r)
        return np.full(shape, fill_value, dtype, *a, **k)

    def zeros_like(self, a, dtype=None, *args, **k):
        if core.active() and (dtype is not None or not isinstance(a, np.ndarray)):
            return self.zeros(np.shape(a), dtype if dtype is not None else np.asarray(a).dtype)
        r = np.zeros_like(a, dtype, *args, **k)
        if isinstance(r, np.ndarray) and r.dtype == object and r.dtype.names is None:
            _fill(r, 0)
        return wrap(r)

    def ones_like(self, a, dtype=None, *args, **k):
        r = self.zeros_like(a, dtype, *args, **k)
        if core.active():
            _fill(r, 1)
            return r
        return np.ones_like(a, dtype, *args, **k)

    def array(self, obj, dtype=None, *a, **k):
        if core.active() and _has_sym(obj):
            return wrap(np.array(obj, dtype=object))
        if core.active() and isinstance(obj, np.ndarray) and is_obj_dtype(obj.dtype):
            return wrap(np.array(obj, *a, **k))
        return np.array(obj, dtype, *a, **k)

    def asarray(self, obj, dtype=None, *a, **k):
        if isinstance(obj, np.ndarray) and is_obj_dtype(obj.dtype):
            return obj
        return self.array(obj, dtype, *a, **k)

    def arange(self, *args, **kw):
        if any(is_sym(a) for a in args):
            args = [core.concretize(a) if is_sym(a) else a for a in args]
        return np.arange(*args, **kw)

    def concatenate(self, arrs, *a, **k):
        arrs = list(arrs)
        if core.active() and any(isinstance(x, np.ndarray) and is_obj_dtype(x.dtype) for x in arrs):
            # mixed concrete / object pieces: lift everything to the object dtype
            tgt = next(x.dtype for x in arrs if isinstance(x, np.ndarray) and is_obj_dtype(x.dtype))
            arrs = [x if x.dtype == tgt else to_obj(x, tgt) for x in arrs]
        return wrap(np.concatenate(arrs, *a, **k))

    def hstack(self, arrs, *a, **k):
        return wrap(np.hstack(list(arrs), *a, **k))

    def diff(self, a, *args, **k):
        return wrap(np.diff(a, *args, **k))

    def abs(self, a):
        if is_sym(a):
            return abs(a)
        return wrap(np.abs(a))

    def maximum(self, a, b, *args, **k):
        if is_sym(a) or is_sym(b):
            return core.smax(a, b)
        if _is_objarr(a) or _is_objarr(b):
            return wrap(_elementwise2(a, b, lambda x, y: core.smax(x, y)))
        return np.maximum(a, b, *args, **k)

    def minimum(self, a, b, *args, **k):
        if is_sym(a) or is_sym(b):
            return core.smin(a, b)
        if _is_objarr(a) or _is_objarr(b):
            return wrap(_elementwise2(a, b, lambda x, y: core.smin(x, y)))
        return np.minimum(a, b, *args, **k)

    def max(self, a, *args, **k):
        if isinstance(a, np.ndarray) and a.dtype == object and not args and not k:
            return wrap(a).max()
        return np.max(a, *args, **k)

    def min(self, a, *args, **k):
        if isinstance(a, np.ndarray) and a.dtype == object and not args and not k:
            return wrap(a).min()
        return np.min(a, *args, **k)

    def sum(self, a, *args, **k):
        if isinstance(a, np.ndarray) and a.dtype == object and not args and not k:
            return wrap(a).sum()
        return np.sum(a, *args, **k)

    def all(self, a, *args, **k):
        if isinstance(a, np.ndarray) and a.dtype == object and not args and not k:
            return wrap(a).all()
        if is_sym(a):
            return a
        return np.all(a, *args, **k)

    def any(self, a, *args, **k):
        if isinstance(a, np.ndarray) and a.dtype == object and not args and not k:
            return wrap(a).any()
        if is_sym(a):
            return a
        return np.any(a, *args, **k)

    def where(self, cond, *args):
        if isinstance(cond, np.ndarray) and cond.dtype == object:
            if not args:
                return np.where(_conv_index(cond))
            x, y = args
            out = np.empty(cond.shape, dtype=object)
            xb = np.broadcast_to(np.asarray(x, dtype=object), cond.shape)
            yb = np.broadcast_to(np.asarray(y, dtype=object), cond.shape)
            for idx in np.ndindex(cond.shape):
                out[idx] = core.ite(cond[idx], xb[idx], yb[idx])
            return wrap(out)
        if isinstance(cond, SymBool) and len(args) == 2:
            return core.ite(cond, *args)
        return np.where(cond, *args)

    def argwhere(self, a):
        if isinstance(a, np.ndarray) and a.dtype == object:
            return np.argwhere(_conv_index(a))
        return np.argwhere(a)

    def flatnonzero(self, a):
        if isinstance(a, np.ndarray) and a.dtype == object:
            return np.flatnonzero(_conv_index(a))
        return np.flatnonzero(a)

    def isin(self, a, b, *args, **k):
        return np.isin(a, b, *args, **k)

    def clip(self, a, lo, hi, *args, **k):
        if is_sym(a) or is_sym(lo) or is_sym(hi) or _is_objarr(a):
            if isinstance(a, np.ndarray):
                return wrap(_elementwise2(a, a, lambda x, _: core.smin(core.smax(x, lo), hi)))
            return core.smin(core.smax(a, lo), hi)
        return np.clip(a, lo, hi, *args, **k)

    def isfinite(self, a):
        if is_sym(a):
            return True
        if _is_objarr(a):
            return np.ones(a.shape, dtype=bool)
        return np.isfinite(a)

    def ceil(self, a):
        if isinstance(a, SymReal):
            return -core.SymInt(core.z3.ToInt((-a).t))
        if isinstance(a, SymInt):
            return a
        return np.ceil(a)

    def floor(self, a):
        if isinstance(a, SymReal):
            return core.SymInt(core.z3.ToInt(a.t))
        if isinstance(a, SymInt):
            return a
        return np.floor(a)


def _conc_shape(shape):
    if is_sym(shape):
        return core.concretize(shape)
    if isinstance(shape, tuple) and any(is_sym(s) for s in shape):
        return tuple(core.concretize(s) if is_sym(s) else s for s in shape)
    return shape


def _fill(r, v):
    if r.dtype.names is None:
        r[...] = v
    else:
        for n in r.dtype.names:
            r[n] = v


def _has_sym(obj):
    if is_sym(obj):
        return True
    if isinstance(obj, (list, tuple)):
        return any(_has_sym(o) for o in obj)
    return False


def _is_objarr(a):
    return isinstance(a, np.ndarray) and a.dtype == object


def _elementwise2(a, b, f):
    a = np.asarray(a, dtype=object) if not isinstance(a, np.ndarray) else a
    b = np.asarray(b, dtype=object) if not isinstance(b, np.ndarray) else b
    shape = np.broadcast_shapes(a.shape, b.shape)
    ab, bb = np.broadcast_to(a, shape), np.broadcast_to(b, shape)
    out = np.empty(shape, dtype=object)
    for idx in np.ndindex(shape):
        out[idx] = f(ab[idx], bb[idx])
    return out


def to_obj(a, tgt=None):
    """Lift a concrete (structured) array to the object dtype."""
    a = np.asarray(a)
    tgt = tgt if tgt is not None else obj_dtype(a.dtype)
    out = np.zeros(a.shape, dtype=tgt)
    if a.dtype.names is None:
        out[...] = [x.item() if hasattr(x, "item") else x for x in a.ravel()] if a.size else []
        return wrap(out)
    for n in a.dtype.names:
        col = a[n]
        if col.dtype.kind in "iub":
            out[n] = col.astype(object)
        else:
            out[n] = col.astype(object)
    return wrap(out)


NP = NpShim()


# --------------------------------------------------------------------------------------
# builtin shims
class _IntMeta(type):
    def __instancecheck__(cls, inst):
        return isinstance(inst, (builtins.int, SymInt))

    def __subclasscheck__(cls, sub):
        return issubclass(sub, builtins.int) or sub is SymInt


class sym_int(metaclass=_IntMeta):
    """`int` as seen by strax modules: isinstance accepts SymInt, int(x) keeps proxies."""

    def __new__(cls, x=0, *a):
        if isinstance(x, SymInt):
            return x
        if isinstance(x, SymReal):
            return core.trunc(x)
        if isinstance(x, SymBool):
            return x._asint()
        return builtins.int(x, *a)


class _FloatMeta(type):
    def __instancecheck__(cls, inst):
        return isinstance(inst, (builtins.float, SymReal))


class sym_float(metaclass=_FloatMeta):
    def __new__(cls, x=0.0):
        if isinstance(x, (SymReal, SymInt)):
            return x
        return builtins.float(x)


def sym_len(x):
    return builtins.len(x)


def sym_abs(x):
    return abs(x)


def sym_sum(xs, start=0):
    xs = list(xs)
    if any(is_sym(x) for x in xs):
        return core.ssum(xs, start)
    return builtins.sum(xs, start)


def sym_round(x, n=None):
    if isinstance(x, SymReal) and n is None:
        # Python's round(): to the nearest integer, ties to even
        z3 = core.z3
        f = z3.ToInt(x.t)
        d = x.t - z3.ToReal(f)
        half = z3.RealVal(1) / 2
        return core.SymInt(z3.If(d < half, f, z3.If(d > half, f + 1, z3.If(f % 2 == 0, f, f + 1))))
    if is_sym(x):
        return x
    return builtins.round(x, n) if n is not None else builtins.round(x)


def sym_range(*args):
    if any(is_sym(a) for a in args):
        args = [core.concretize(a) if is_sym(a) else a for a in args]
    return builtins.range(*args)


DEFAULT_SHIMS = {
    "np": NP,
    "int": sym_int,
    "min": core.smin,
    "max": core.smax,
    "sum": sym_sum,
    "range": sym_range,
}


class Injector:
    """Rebinds module globals (np, builtins) for the duration of a harness; restores afterwards."""

    def __init__(self):
        self.saved = []

    def inject(self, module, **names):
        for k, v in names.items():
            if k == "np" and "np" not in module.__dict__:
                raise RuntimeError(f"shim target np missing in {module.__name__}")
            self.saved.append((module, k, module.__dict__.get(k, _MISSING)))
            module.__dict__[k] = v

    def inject_default(self, module, which=("np", "int", "min", "max")):
        self.inject(module, **{k: DEFAULT_SHIMS[k] for k in which if k != "np" or "np" in module.__dict__})

    def set(self, obj, attr, value):
        self.saved.append((obj, ("attr", attr), obj.__dict__.get(attr, _MISSING)))
        setattr(obj, attr, value)

    def restore(self):
        for target, k, old in reversed(self.saved):
            if isinstance(k, tuple):
                if old is _MISSING:
                    try:
                        delattr(target, k[1])
                    except AttributeError:
                        pass
                else:
                    setattr(target, k[1], old)
            else:
                if old is _MISSING:
                    target.__dict__.pop(k, None)
                else:
                    target.__dict__[k] = old
        self.saved = []


_MISSING = object()
