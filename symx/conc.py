"""Concurrency stubs.

1. `HavocThreading` — stands in for `strax.mailbox.threading` in rely/guarantee step obligations:
   no threads are run; the outermost lock acquisition and every `wait_for` call a harness hook that
   havocs the shared state (fresh symbols constrained by invariant + rely + the waiter's predicate).
2. `Sched` / `SchedThreading` — a deterministic cooperative scheduler: real OS threads, exactly one
   runs at a time, switches only where a thread blocks (wait_for with a false predicate, join),
   ends, or calls pause(); notify_all semantics are honoured, so lost wake-ups and hangs surface as
   a detected deadlock.
"""
import threading as _t
import types


# ======================================================================================
class Notified(list):
    pass


class HavocThreading(types.ModuleType):
    def __init__(self, hooks):
        super().__init__("threading")
        self.hooks = hooks  # object with on_acquire(depth0: bool), on_wait(cond, pred)
        mod = self

        class RLock:
            def __init__(self):
                self.depth = 0

            def acquire(self, *a, **k):
                if self.depth == 0:
                    mod.hooks.on_acquire(self)
                self.depth += 1
                return True

            def release(self):
                self.depth -= 1
                if self.depth == 0:
                    mod.hooks.on_release(self)

            __enter__ = acquire

            def __exit__(self, *a):
                self.release()

            def __repr__(self):
                return "<lock>"

        class Condition:
            def __init__(self, lock=None):
                self.lock = lock
                self.notified = 0
                self.name = None

            def notify_all(self):
                self.notified += 1
                mod.hooks.on_notify(self)

            def wait_for(self, pred, timeout=None):
                if pred():
                    return True
                return mod.hooks.on_wait(self, pred)

        class Thread:
            def __init__(self, target=None, name=None, args=(), kwargs=None, daemon=None):
                self.target, self.name, self.args, self.kwargs = target, name, args, kwargs or {}

            def start(self):
                raise RuntimeError("HavocThreading does not run threads")

        self.RLock, self.Lock, self.Condition, self.Thread = RLock, RLock, Condition, Thread
        self.current_thread = _t.current_thread


class Hooks:
    """Default hooks: nothing happens."""

    def on_acquire(self, lock):
        pass

    def on_release(self, lock):
        pass

    def on_notify(self, cond):
        pass

    def on_wait(self, cond, pred):
        raise RuntimeError("unexpected wait")


# ======================================================================================
class Deadlock(Exception):
    pass


class _Abort(BaseException):
    pass


class Task:
    def __init__(self, sched, tid, name, target, args, kwargs):
        self.sched, self.tid, self.name = sched, tid, name
        self.target, self.args, self.kwargs = target, args, kwargs
        self.baton = _t.Semaphore(0)
        self.state = "new"  # new | runnable | blocked | joining | done
        self.cond = None
        self.pred = None
        self.notified = False
        self.join_target = None
        self.thread = None
        self.exc = None
        self.timed_out = False

    def __repr__(self):
        return f"<task {self.tid}:{self.name}:{self.state}>"


class Sched:
    """Deterministic cooperative scheduler.  policy(sched, runnable) -> Task to run next."""

    def __init__(self, policy=None, max_steps=100000):
        self.policy = policy or (lambda s, r: r[0])
        self.tasks = []
        self.current = None
        self.trace = []
        self.deadlock = None
        self.abort = None
        self.steps = 0
        self.max_steps = max_steps
        main = Task(self, 0, "main", None, (), {})
        main.state = "runnable"
        main.thread = _t.current_thread()
        self.tasks.append(main)
        self.current = main
        self.switch_points = 0
        self.quiesced = False

    # ---- task management
    def spawn(self, target, name=None, args=(), kwargs=None):
        t = Task(self, len(self.tasks), name or f"t{len(self.tasks)}", target, args, kwargs or {})
        self.tasks.append(t)
        return t

    def start(self, task):
        def run():
            task.baton.acquire()
            try:
                if self.abort is not None:
                    raise _Abort()
                task.target(*task.args, **task.kwargs)
            except _Abort:
                pass
            except BaseException as e:  # includes symx control exceptions
                if not isinstance(e, Exception):
                    if self.abort is None:
                        self.abort = e
                else:
                    task.exc = e
            finally:
                task.state = "done"
                self._handoff(task)

        task.thread = _t.Thread(target=run, name=task.name, daemon=True)
        task.state = "runnable"
        task.thread.start()

    def _others_done(self):
        return all(t.state in ("done", "new") for t in self.tasks[1:])

    def _runnable(self):
        out = []
        for t in self.tasks:
            if t.state == "runnable":
                out.append(t)
            elif t.state == "blocked" and (t.notified or t.timed_out):
                out.append(t)
            elif t.state == "joining" and (t.join_target.state == "done" or t.timed_out):
                out.append(t)
            elif t.state == "joinall" and self._others_done():
                out.append(t)
        return out

    def _pick(self, me):
        if self.abort is not None:
            # unwind everybody: each live task is resumed and raises _Abort at its switch point
            live = [t for t in self.tasks[1:] if t.state not in ("done", "new") and t is not me]
            if live:
                return live[0]
            return self.tasks[0]
        r = self._runnable()
        if not r:
            blocked = [t for t in self.tasks if t.state in ("blocked", "joining")]
            if any(t.state == "parked" for t in self.tasks):
                # quiescence: somebody stopped for good and nobody else can run -> end of the run (not a deadlock)
                self.quiesced = True
                self.quiescent_state = [(t.name, t.state, getattr(t.cond, "name", None)) for t in self.tasks]
                self.abort = _Abort()
                return self._pick(me)
            if not blocked:
                return None
            # deadlock: nobody can run.  Record it, then let one wait time out (as the mailbox timeout
            # eventually would) so that the run unwinds through strax's own timeout handling.
            if self.deadlock is None:
                self.deadlock = [(t.name, t.state, getattr(t.cond, "name", None)) for t in blocked]
            nonmain = [t for t in blocked if t.tid != 0]
            t = (nonmain or blocked)[0]
            t.timed_out = True
            return t
        self.switch_points += 1
        try:
            nxt = self.policy(self, r)
        except BaseException as e:  # the policy may abort the run (search hit / engine control flow)
            if self.abort is None:
                self.abort = e
            return self._pick(me)
        self.trace.append(nxt.tid)
        return nxt

    def _handoff(self, me):
        """Called by a task that ended: pass the baton on."""
        self.steps += 1
        nxt = self._pick(me)
        if nxt is None or nxt is me:
            return
        self.current = nxt
        nxt.baton.release()

    def _switch(self, me):
        """me has set its state; give up the processor until rescheduled."""
        self.steps += 1
        if self.steps > self.max_steps and self.abort is None:
            self.abort = RuntimeError("scheduler step budget exceeded")
        nxt = self._pick(me)
        if nxt is None or nxt is me:
            self.current = me
        else:
            self.current = nxt
            nxt.baton.release()
            me.baton.acquire()
        if self.abort is not None and me.tid != 0:
            raise _Abort()

    def me(self):
        th = _t.current_thread()
        for t in self.tasks:
            if t.thread is th:
                return t
        raise RuntimeError("unknown thread under scheduler")

    def pause(self):
        """Voluntary switch point (harness code only)."""
        me = self.me()
        me.state = "runnable"
        self._switch(me)

    def finish(self):
        """Main: wait until every other task is done; re-raise an engine abort."""
        me = self.tasks[0]
        while not self._others_done():
            me.state = "joinall"
            self._switch(me)
        me.state = "runnable"
        for t in self.tasks[1:]:
            if t.thread is not None:
                t.thread.join(timeout=5)
        if self.abort is not None and not isinstance(self.abort, _Abort):
            raise self.abort

    def park(self):
        """Stop this task for good (only an abort / quiescence ends it)."""
        me = self.me()
        while self.abort is None:
            me.state = "parked"
            self._switch(me)
        me.state = "runnable"
        if me.tid != 0:
            raise _Abort()


class SchedThreading(types.ModuleType):
    """`threading` look-alike bound to a Sched."""

    def __init__(self, sched):
        super().__init__("threading")
        self.sched = sched
        mod = self

        class RLock:
            def __init__(self):
                self.depth = 0

            def acquire(self, *a, **k):
                self.depth += 1
                return True

            def release(self):
                self.depth -= 1

            __enter__ = acquire

            def __exit__(self, *a):
                self.release()

            def __repr__(self):
                return "<lock>"

        class Condition:
            def __init__(self, lock=None):
                self.lock = lock
                self.name = None
                self.n_notify = 0

            def notify_all(self):
                self.n_notify += 1
                for t in mod.sched.tasks:
                    if t.state == "blocked" and t.cond is self:
                        t.notified = True

            notify = notify_all

            def wait_for(self, pred, timeout=None):
                s = mod.sched
                if pred():
                    return True
                me = s.me()
                while True:
                    me.state, me.cond, me.pred, me.notified = "blocked", self, pred, False
                    s._switch(me)
                    me.state = "runnable"
                    if me.timed_out:
                        me.timed_out = False
                        return pred()
                    if pred():
                        return True

            def wait(self, timeout=None):
                s = mod.sched
                me = s.me()
                me.state, me.cond, me.pred, me.notified = "blocked", self, None, False
                s._switch(me)
                me.state = "runnable"
                me.timed_out = False
                return True

        class Thread:
            def __init__(self, target=None, name=None, args=(), kwargs=None, daemon=None):
                self.task = mod.sched.spawn(target, name, args, kwargs)
                self.name = self.task.name

            def start(self):
                mod.sched.start(self.task)

            def join(self, timeout=None):
                s = mod.sched
                if self.task.state in ("done", "new"):
                    return
                me = s.me()
                me.state, me.join_target = "joining", self.task
                s._switch(me)
                me.state = "runnable"
                me.timed_out = False

            def is_alive(self):
                return self.task.state not in ("done", "new")

        self.RLock, self.Lock, self.Condition, self.Thread = RLock, RLock, Condition, Thread
        self.current_thread = _t.current_thread
        self.Semaphore = _t.Semaphore
        self.Event = _t.Event


# canonical policies -----------------------------------------------------------------
def pol_lowest(s, r):
    return min(r, key=lambda t: t.tid)


def pol_highest(s, r):
    return max(r, key=lambda t: t.tid)


def pol_round_robin(s, r):
    cur = s.current.tid if s.current else 0
    later = [t for t in r if t.tid > cur]
    return min(later, key=lambda t: t.tid) if later else min(r, key=lambda t: t.tid)


def pol_scripted(script, fallback=pol_lowest):
    it = iter(script)

    def pol(s, r):
        try:
            want = next(it)
        except StopIteration:
            return fallback(s, r)
        for t in r:
            if t.tid == want or t.name == want:
                return t
        return fallback(s, r)

    return pol


POLICIES = {"lowest": pol_lowest, "highest": pol_highest, "rr": pol_round_robin}
