"""symx core: z3-backed proxy values and a per-path depth-first explorer.

The real strax functions are called with these proxies; the path condition that
accumulates while strax's own bytecode runs *is* the encoding (regenerated from
/repo's current source on every run by construction).
"""
import itertools
import os
import time
import numbers

import numpy as np
import z3


# --------------------------------------------------------------------------------------
# control-flow exceptions (BaseException so that strax's `except Exception` cannot eat them)
class SymxControl(BaseException):
    pass


class PathAbort(SymxControl):
    """assume() failed / branch infeasible: silently drop the path."""


class Unsupported(SymxControl):
    """An operation the engine cannot encode: the run is inconclusive."""


class Budget(SymxControl):
    """Path budget exceeded: inconclusive."""


class ProofFailed(SymxControl):
    """Raised by prove() when a counterexample exists (carries the model)."""

    def __init__(self, label, model, extra=None):
        super().__init__(label)
        self.label = label
        self.model = model
        self.extra = extra


# --------------------------------------------------------------------------------------
class Stats:
    def __init__(self):
        self.paths = 0
        self.aborted = 0
        self.solver_calls = 0
        self.solver_s = 0.0
        self.branches = 0
        self.proved = 0
        self.unsat = 0
        self.max_depth = 0
        self.unknown = 0
        self.nontrivial = 0  # completed paths on which at least one obligation was discharged
        # independent re-check of sampled 'unsat' verdicts by other solver builds (see xcheck_flush)
        self.xcheck_queries = 0
        self.xcheck_agree_z3_4_8 = 0
        self.xcheck_agree_cvc5 = 0
        self.xcheck_unknown = 0
        self.xcheck_disagree = 0

    def as_dict(self):
        return dict(self.__dict__)

    def add(self, other):
        for k, v in (other.__dict__ if isinstance(other, Stats) else other).items():
            if k == "max_depth":
                self.max_depth = max(self.max_depth, v)
            else:
                setattr(self, k, getattr(self, k) + v)


class Path:
    """State of the path currently being executed."""

    def __init__(self, prefix, stats, timeout_ms, prefix_model=None):
        self.prefix = prefix
        self.prefix_model = prefix_model
        self.decisions = []
        self.pending = []  # alternative prefixes discovered on this path
        self.solver = z3.Solver()
        if timeout_ms:
            self.solver.set("timeout", timeout_ms)
        self.pc = []
        self.fresh = itertools.count()
        self.names = {}
        self.stats = stats
        self.notes = []
        self.vars = {}
        self.dirty = False
        self.last_model = None

    # -- solver helpers
    def check(self, *extra):
        t0 = time.perf_counter()
        r = self.solver.check(*extra)
        self.stats.solver_calls += 1
        self.stats.solver_s += time.perf_counter() - t0
        if r == z3.unknown:
            self.stats.unknown += 1
        return r

    def add(self, term):
        self.pc.append(term)
        self.solver.add(term)
        m = self.last_model
        if m is not None and not z3.is_true(m.eval(term, model_completion=True)):
            self.last_model = None  # cached model no longer satisfies the path condition

    def model(self, *extra):
        r = self.check(*extra)
        if r != z3.sat:
            return None
        m = self.solver.model()
        out = {}
        for name, v in self.vars.items():
            val = m.eval(v, model_completion=True)
            out[name] = _pyval(val)
        return out


def _pyval(val):
    if z3.is_int_value(val):
        return val.as_long()
    if z3.is_true(val):
        return True
    if z3.is_false(val):
        return False
    if z3.is_rational_value(val):
        n, d = val.numerator_as_long(), val.denominator_as_long()
        return n if d == 1 else n / d
    if z3.is_algebraic_value(val):
        return float(val.approx(20).as_fraction())
    return str(val)


_CUR = None  # the active Path (one per process; execution is serial inside a process)


def cur():
    if _CUR is None:
        raise RuntimeError("no symbolic path active")
    return _CUR


def active():
    return _CUR is not None and _CONCRETE is None


# --------------------------------------------------------------------------------------
# lifting
def is_sym(x):
    return isinstance(x, (SymInt, SymBool, SymReal))


def _is_intlike(x):
    return isinstance(x, (int, np.integer)) and not isinstance(x, (bool, np.bool_))


def _lift_num(x):
    """-> (z3 term, kind) with kind in 'i','r', or None if x is not numeric."""
    if isinstance(x, SymInt):
        return x.t, "i"
    if isinstance(x, SymReal):
        return x.t, "r"
    if isinstance(x, SymBool):
        return z3.If(x.t, z3.IntVal(1), z3.IntVal(0)), "i"
    if isinstance(x, (bool, np.bool_)):
        return z3.IntVal(int(x)), "i"
    if isinstance(x, (int, np.integer)):
        return z3.IntVal(int(x)), "i"
    if isinstance(x, (float, np.floating)):
        f = float(x)
        if f != f or f in (float("inf"), float("-inf")):
            return f, "inf"
        from fractions import Fraction

        fr = Fraction(f)
        return z3.RealVal(str(fr.numerator)) / z3.RealVal(str(fr.denominator)), "r"
    return None


def _mk(term, kind):
    if kind == "i":
        if z3.is_int_value(term):
            return term.as_long()
        return SymInt(term)
    if z3.is_rational_value(term):
        n, d = term.numerator_as_long(), term.denominator_as_long()
        return n / d
    return SymReal(term)


def _mkb(term):
    if z3.is_true(term):
        return True
    if z3.is_false(term):
        return False
    return SymBool(term)


def _arith(a, b, op, rop=False):
    la, lb = _lift_num(a), _lift_num(b)
    if la is None or lb is None:
        return NotImplemented
    if rop:
        la, lb = lb, la
    (ta, ka), (tb, kb) = la, lb
    if ka == "inf" or kb == "inf":
        raise Unsupported("arithmetic with inf/nan")
    if op == "truediv":
        ta = z3.ToReal(ta) if ka == "i" else ta
        tb = z3.ToReal(tb) if kb == "i" else tb
        return _mk(ta / tb, "r")
    if ka == "r" or kb == "r":
        ta = z3.ToReal(ta) if ka == "i" else ta
        tb = z3.ToReal(tb) if kb == "i" else tb
        k = "r"
    else:
        k = "i"
    if op == "add":
        return _mk(ta + tb, k)
    if op == "sub":
        return _mk(ta - tb, k)
    if op == "mul":
        return _mk(ta * tb, k)
    if op in ("floordiv", "mod"):
        if k == "r":
            # real a, concrete POSITIVE divisor b: floor semantics, a // b = floor(a / b), a % b = a - b * floor(a / b)
            tb = z3.simplify(tb)
            if not (z3.is_rational_value(tb) or z3.is_int_value(tb)) or not z3.is_true(z3.simplify(tb > 0)):
                raise Unsupported("floor division on reals by a symbolic or non-positive divisor")
            fl = z3.ToReal(z3.ToInt(ta / tb))
            return _mk(fl if op == "floordiv" else ta - tb * fl, "r")
        # Python floor semantics.  z3 div/mod: a = b*div + mod with 0 <= mod < |b|
        if z3.is_int_value(tb):
            bv = tb.as_long()
            if bv == 0:
                raise ZeroDivisionError("integer division or modulo by zero")
            if bv > 0:
                q, r = ta / tb, ta % tb
            else:
                # a // b == (-a) // (-b) with floor;  a % b = -((-a) % (-b))
                q = (-ta) / z3.IntVal(-bv)
                r = -((-ta) % z3.IntVal(-bv))
            return _mk(z3.simplify(q if op == "floordiv" else r), "i")
        # symbolic divisor: fork on its sign
        bs = SymInt(tb)
        if bs == 0:
            raise ZeroDivisionError("integer division or modulo by zero")
        if bs > 0:
            q, r = ta / tb, ta % tb
        else:
            q = (-ta) / (-tb)
            r = -((-ta) % (-tb))
        return _mk(q if op == "floordiv" else r, "i")
    raise Unsupported(op)


def _cmp(a, b, op):
    la, lb = _lift_num(a), _lift_num(b)
    if la is None or lb is None:
        if op == "eq":
            return False
        if op == "ne":
            return True
        return NotImplemented
    (ta, ka), (tb, kb) = la, lb
    if ka == "inf" or kb == "inf":
        # comparison of a finite symbolic number with +-inf / nan: concrete
        fa = ta if ka == "inf" else 0.0
        fb = tb if kb == "inf" else 0.0
        return {
            "lt": fa < fb,
            "le": fa <= fb,
            "gt": fa > fb,
            "ge": fa >= fb,
            "eq": fa == fb,
            "ne": fa != fb,
        }[op]
    if ka != kb:
        ta = z3.ToReal(ta) if ka == "i" else ta
        tb = z3.ToReal(tb) if kb == "i" else tb
    t = {
        "lt": lambda: ta < tb,
        "le": lambda: ta <= tb,
        "gt": lambda: ta > tb,
        "ge": lambda: ta >= tb,
        "eq": lambda: ta == tb,
        "ne": lambda: ta != tb,
    }[op]()
    return _mkb(t)


class _Num:
    __slots__ = ("t",)

    def __init__(self, t):
        self.t = t

    def __add__(self, o):
        return _arith(self, o, "add")

    def __radd__(self, o):
        return _arith(self, o, "add", True)

    def __sub__(self, o):
        return _arith(self, o, "sub")

    def __rsub__(self, o):
        return _arith(self, o, "sub", True)

    def __mul__(self, o):
        return _arith(self, o, "mul")

    def __rmul__(self, o):
        return _arith(self, o, "mul", True)

    def __truediv__(self, o):
        return _arith(self, o, "truediv")

    def __rtruediv__(self, o):
        return _arith(self, o, "truediv", True)

    def __floordiv__(self, o):
        return _arith(self, o, "floordiv")

    def __rfloordiv__(self, o):
        return _arith(self, o, "floordiv", True)

    def __mod__(self, o):
        return _arith(self, o, "mod")

    def __rmod__(self, o):
        return _arith(self, o, "mod", True)

    def __neg__(self):
        return _mk(-self.t, "i" if isinstance(self, SymInt) else "r")

    def __pos__(self):
        return self

    def __abs__(self):
        k = "i" if isinstance(self, SymInt) else "r"
        return _mk(z3.If(self.t >= 0, self.t, -self.t), k)

    def __pow__(self, o):
        if _is_intlike(o) and 0 <= int(o) <= 4:
            r = 1
            for _ in range(int(o)):
                r = r * self
            return r
        raise Unsupported("pow")

    def __lt__(self, o):
        return _cmp(self, o, "lt")

    def __le__(self, o):
        return _cmp(self, o, "le")

    def __gt__(self, o):
        return _cmp(self, o, "gt")

    def __ge__(self, o):
        return _cmp(self, o, "ge")

    def __eq__(self, o):
        return _cmp(self, o, "eq")

    def __ne__(self, o):
        return _cmp(self, o, "ne")

    def __hash__(self):
        return 0x5E1

    def __bool__(self):
        return bool(self != 0)

    def __repr__(self):
        return "<sym>"

    __str__ = __repr__

    def __format__(self, spec):
        return "<sym>"

    def __copy__(self):
        return self

    def __deepcopy__(self, memo):
        return self

    def __reduce__(self):
        raise Unsupported("pickling a symbolic value")


class SymInt(_Num):
    __slots__ = ()

    def __index__(self):
        return concretize(self)

    def __int__(self):
        return concretize(self)

    def __float__(self):
        raise Unsupported("float() of a symbolic int")

    def __round__(self, n=None):
        return self

    def __and__(self, o):
        raise Unsupported("bitwise and on SymInt")

    def __lshift__(self, o):
        if _is_intlike(o):
            return self * (1 << int(o))
        raise Unsupported("shift")

    def __rshift__(self, o):
        if _is_intlike(o):
            return self // (1 << int(o))
        raise Unsupported("shift")

    @property
    def real(self):
        return self

    def item(self):
        return self

    def astype(self, *a, **k):
        return self


class SymReal(_Num):
    __slots__ = ()

    def __int__(self):
        raise Unsupported("int() of a symbolic real (use symx trunc)")

    def __float__(self):
        raise Unsupported("float() of a symbolic real")

    def __index__(self):
        raise Unsupported("index of a symbolic real")

    def item(self):
        return self


class SymBool:
    __slots__ = ("t",)

    def __init__(self, t):
        self.t = t

    def __bool__(self):
        return branch(self.t)

    def __and__(self, o):
        return sand(self, o)

    __rand__ = __and__

    def __or__(self, o):
        return sor(self, o)

    __ror__ = __or__

    def __invert__(self):
        return _mkb(z3.Not(self.t))

    def __xor__(self, o):
        lo = _lift_bool(o)
        if lo is None:
            return NotImplemented
        return _mkb(z3.Xor(self.t, lo))

    __rxor__ = __xor__

    def __eq__(self, o):
        lo = _lift_bool(o)
        if lo is None:
            return _cmp(self, o, "eq")
        return _mkb(self.t == lo)

    def __ne__(self, o):
        lo = _lift_bool(o)
        if lo is None:
            return _cmp(self, o, "ne")
        return _mkb(self.t != lo)

    def __hash__(self):
        return 0x5E2

    # arithmetic on booleans (np.sum of masks, mask |= ...)
    def _asint(self):
        return SymInt(z3.If(self.t, z3.IntVal(1), z3.IntVal(0)))

    def __add__(self, o):
        return self._asint() + o

    __radd__ = __add__

    def __sub__(self, o):
        return self._asint() - o

    def __rsub__(self, o):
        return o - self._asint()

    def __mul__(self, o):
        return self._asint() * o

    __rmul__ = __mul__

    def __index__(self):
        return int(bool(self))

    def __int__(self):
        return int(bool(self))

    def __repr__(self):
        return "<symbool>"

    def __format__(self, spec):
        return "<symbool>"

    def __copy__(self):
        return self

    def __deepcopy__(self, memo):
        return self


def _lift_bool(x):
    if isinstance(x, SymBool):
        return x.t
    if isinstance(x, (bool, np.bool_)):
        return z3.BoolVal(bool(x))
    return None


def sand(*xs):
    ts = []
    for x in xs:
        if isinstance(x, SymBool):
            ts.append(x.t)
        elif isinstance(x, (bool, np.bool_)) or _is_intlike(x):
            if not x:
                return False
        elif isinstance(x, SymInt):
            ts.append(x.t != 0)
        else:
            raise Unsupported(f"and with {type(x)}")
    if not ts:
        return True
    return _mkb(z3.And(*ts) if len(ts) > 1 else ts[0])


def sor(*xs):
    ts = []
    for x in xs:
        if isinstance(x, SymBool):
            ts.append(x.t)
        elif isinstance(x, (bool, np.bool_)) or _is_intlike(x):
            if x:
                return True
        elif isinstance(x, SymInt):
            ts.append(x.t != 0)
        else:
            raise Unsupported(f"or with {type(x)}")
    if not ts:
        return False
    return _mkb(z3.Or(*ts) if len(ts) > 1 else ts[0])


def snot(x):
    if isinstance(x, SymBool):
        return _mkb(z3.Not(x.t))
    return not x


def implies(a, b):
    return sor(snot(a), b)


def iff(a, b):
    la, lb = _lift_bool(a), _lift_bool(b)
    if la is None or lb is None:
        raise Unsupported("iff on non-bools")
    return _mkb(z3.simplify(la == lb))


def ite(c, a, b):
    """Merge instead of fork."""
    if not isinstance(c, SymBool):
        return a if c else b
    la, lb = _lift_num(a), _lift_num(b)
    if la is None or lb is None:
        lba, lbb = _lift_bool(a), _lift_bool(b)
        if lba is not None and lbb is not None:
            return _mkb(z3.If(c.t, lba, lbb))
        return a if bool(c) else b
    (ta, ka), (tb, kb) = la, lb
    if "inf" in (ka, kb):
        return a if bool(c) else b
    if ka != kb:
        ta = z3.ToReal(ta) if ka == "i" else ta
        tb = z3.ToReal(tb) if kb == "i" else tb
        ka = "r"
    return _mk(z3.If(c.t, ta, tb), ka)


def smax(*xs, **kw):
    if len(xs) == 1:
        xs = tuple(xs[0])
    if kw:
        import builtins

        return builtins.max(*xs, **kw)
    if not any(is_sym(x) for x in xs):
        import builtins

        return builtins.max(xs)
    r = xs[0]
    for x in xs[1:]:
        r = ite(x > r, x, r)
    return r


def smin(*xs, **kw):
    if len(xs) == 1:
        xs = tuple(xs[0])
    if kw:
        import builtins

        return builtins.min(*xs, **kw)
    if not any(is_sym(x) for x in xs):
        import builtins

        return builtins.min(xs)
    r = xs[0]
    for x in xs[1:]:
        r = ite(x < r, x, r)
    return r


def ssum(xs, start=0):
    r = start
    for x in xs:
        r = r + x
    return r


def trunc(x):
    """float -> int conversion (C truncation toward zero)."""
    if isinstance(x, SymReal):
        fl = z3.ToInt(x.t)
        return SymInt(z3.If(x.t >= 0, fl, -z3.ToInt(-x.t)))
    if isinstance(x, SymInt):
        return x
    return int(x)


# --------------------------------------------------------------------------------------
# branching
CONCRETIZE_CAP = 12


def branch(term):
    p = cur()
    term = z3.simplify(term)
    if z3.is_true(term):
        return True
    if z3.is_false(term):
        return False
    i = len(p.decisions)
    if i < len(p.prefix):
        d = p.prefix[i]
        p.decisions.append(d)
        p.add(term if d else z3.Not(term))
        if i == len(p.prefix) - 1:
            p.last_model = p.prefix_model
        return d
    p.stats.branches += 1
    m = p.last_model
    side = None
    if m is not None:
        v = m.eval(term, model_completion=True)
        side = True if z3.is_true(v) else (False if z3.is_false(v) else None)
    m_t = m_f = None
    if side is True:
        rt, m_t = z3.sat, m
    else:
        rt = p.check(term)
        if rt == z3.sat:
            m_t = p.solver.model()
    if side is False:
        rf, m_f = z3.sat, m
    elif rt == z3.sat or side is None:
        rf = p.check(z3.Not(term))
        if rf == z3.sat:
            m_f = p.solver.model()
    p.dirty = False
    if rt == z3.unknown or rf == z3.unknown:
        raise Unsupported("solver returned unknown at a branch")
    if rt == z3.sat and rf == z3.sat:
        p.pending.append((tuple(p.decisions) + (False,), m_f))
        p.decisions.append(True)
        p.add(term)
        p.last_model = m_t
        return True
    if rt == z3.sat:
        p.decisions.append(True)
        p.add(term)
        p.last_model = m_t
        return True
    if rf == z3.sat:
        p.decisions.append(False)
        p.add(z3.Not(term))
        p.last_model = m_f
        return False
    raise PathAbort("path condition became infeasible")


def concretize(x, cap=None):
    """Fork over the feasible values of a SymInt (only if provably few)."""
    if not isinstance(x, SymInt):
        return int(x)
    if _CONCRETE is not None:
        raise ConcreteMismatch("symbolic value in concrete mode")
    cap = cap or CONCRETIZE_CAP
    p = cur()
    t = z3.simplify(x.t)
    if z3.is_int_value(t):
        return t.as_long()
    i = len(p.decisions)
    if i < len(p.prefix):
        d = p.prefix[i]
        assert isinstance(d, tuple) and d[0] == "val", "replay mismatch in concretize"
        p.decisions.append(d)
        p.add(t == d[1])
        return d[1]
    p.stats.branches += 1
    vals = []
    excl = []
    while True:
        r = p.check(*excl)
        if r == z3.unknown:
            raise Unsupported("solver unknown in concretize")
        if r == z3.unsat:
            break
        v = p.solver.model().eval(t, model_completion=True).as_long()
        vals.append(v)
        excl.append(t != v)
        if len(vals) > cap:
            raise Unsupported("symbolic integer used as a concrete index/length with a large domain")
    if not vals:
        raise PathAbort("infeasible in concretize")
    vals.sort()
    for v in vals[1:]:
        p.pending.append((tuple(p.decisions) + (("val", v),), None))
    p.decisions.append(("val", vals[0]))
    p.add(t == vals[0])
    p.last_model = None
    return vals[0]


# --------------------------------------------------------------------------------------
# harness-facing API
_CONCRETE = None  # {name: value}: concrete replay mode (plain Python values, no solver)


class ConcreteMismatch(Exception):
    """The concrete replay left the path of the model (an assumption evaluates to False)."""


def concrete_run(fn, model):
    """Run a harness function on plain Python values taken from a solver model.
    Returns None if every prove() holds, else the failing label."""
    global _CONCRETE
    _CONCRETE = dict(model)
    try:
        fn()
        return None
    except ProofFailed as e:
        return e.label
    finally:
        _CONCRETE = None


def fresh_int(name=None, lo=None, hi=None):
    if _CONCRETE is not None:
        if name not in _CONCRETE:
            raise ConcreteMismatch(f"model has no value for {name}")
        return int(_CONCRETE[name])
    p = cur()
    if name is None:
        name = f"_v{next(p.fresh)}"
    if name in p.vars:
        raise RuntimeError(f"duplicate symbolic name {name}")
    v = z3.Int(name)
    p.vars[name] = v
    if lo is not None:
        p.add(v >= lo)
    if hi is not None:
        p.add(v <= hi)
    return SymInt(v)


def fresh_bool(name=None):
    if _CONCRETE is not None:
        if name not in _CONCRETE:
            raise ConcreteMismatch(f"model has no value for {name}")
        return bool(_CONCRETE[name])
    p = cur()
    if name is None:
        name = f"_b{next(p.fresh)}"
    v = z3.Bool(name)
    p.vars[name] = v
    return SymBool(v)


def fresh_real(name=None):
    p = cur()
    if name is None:
        name = f"_r{next(p.fresh)}"
    v = z3.Real(name)
    p.vars[name] = v
    return SymReal(v)


def assume(c):
    if _CONCRETE is not None:
        if not c:
            raise ConcreteMismatch("assumption false under the model")
        return
    p = cur()
    if isinstance(c, SymBool):
        t = z3.simplify(c.t)
        if z3.is_true(t):
            return
        if z3.is_false(t):
            raise PathAbort("assume(False)")
        p.add(t)
        if p.last_model is None:
            p.dirty = True  # feasibility is checked lazily: at the next branch, or at path end
    elif not c:
        raise PathAbort("assume(False)")


def feasible(c):
    """Is pc ∧ c satisfiable? (no fork)"""
    p = cur()
    if not isinstance(c, SymBool):
        return bool(c)
    r = p.check(c.t)
    if r == z3.unknown:
        raise Unsupported("unknown in feasible()")
    return r == z3.sat


def prove(c, label, extra=None):
    """Discharge pc ⇒ c.  unsat(pc ∧ ¬c) = holds on this path."""
    if _CONCRETE is not None:
        if not c:
            raise ProofFailed(label, dict(_CONCRETE), extra)
        return
    p = cur()
    p.stats.proved += 1
    if not isinstance(c, SymBool):
        if isinstance(c, SymInt):
            c = c != 0
        else:
            if c:
                p.stats.unsat += 1
                return
            # concretely false: a counterexample only if the path condition (incl. lazily added assumptions) is
            # satisfiable - otherwise the path is infeasible and is dropped
            r0 = p.check()
            if r0 == z3.unsat:
                raise PathAbort("assumptions infeasible")
            if r0 == z3.unknown:
                raise Unsupported(f"solver unknown on path condition at obligation {label}")
            p.dirty = False
            raise ProofFailed(label, p.model() or {}, extra)
    neg = z3.Not(c.t)
    if p.dirty:
        r0 = p.check()
        if r0 == z3.unsat:
            raise PathAbort("assumptions infeasible")
        if r0 == z3.unknown:
            raise Unsupported("solver unknown on path condition")
        p.dirty = False
    r = p.check(neg)
    if r == z3.unsat:
        p.stats.unsat += 1
        _xcheck_sample(p, neg, label)
        return
    if r == z3.unknown:
        raise Unsupported(f"solver unknown on obligation {label}")
    m = p.model(neg)
    raise ProofFailed(label, m, extra)


# ------------------------------------------------------------------------------- second-solver cross-check
def _xcheck_every():
    """0 = off; n = every n-th discharged obligation (set by the runner per tier, read lazily: workers are forked)"""
    return int(os.environ.get("VERIF_XCHECK_EVERY", "0") or 0)


_XQ = []          # pending (label, smt2 text)
_XN = [0]
XCHECK_DISAGREEMENTS = []


def _xcheck_sample(p, neg, label):
    """Keep the SMT-LIB2 text of every n-th obligation that z3 (the wheel's build) answered 'unsat' (plus the first
    few of each run), to be re-decided by the system z3 4.8.12 and cvc5 1.0 binaries."""
    every = _xcheck_every()
    if not every:
        return
    _XN[0] += 1
    if _XN[0] > 5 and _XN[0] % every:
        return
    s2 = z3.Solver()
    s2.add(*p.pc)
    s2.add(neg)
    _XQ.append((str(label)[:120], s2.to_smt2()))


def _run_solver(cmd, text, suffix):
    import subprocess
    import tempfile

    with tempfile.NamedTemporaryFile("w", suffix=suffix, delete=False) as f:
        f.write(text)
        name = f.name
    try:
        out = subprocess.run(cmd + [name], capture_output=True, text=True, timeout=600).stdout
    except Exception as e:  # noqa
        out = f"(error {e})"
    finally:
        os.unlink(name)
    return out


def xcheck_flush(stats):
    """Re-decide the sampled queries: one process per solver for the whole batch (push/pop around each query).  An
    answer other than 'unsat' from a solver that does answer is a disagreement (reported as inconclusive by the
    runner); 'unknown', timeouts and any '(error' line count as unknown, never as agreement."""
    global _XQ
    qs, _XQ = _XQ, []
    if not qs:
        return
    body = []
    for _, t in qs:
        t = "\n".join(l for l in t.splitlines() if not l.startswith("(set-info") and not l.startswith("(set-logic"))
        body.append("(push 1)\n" + t + "\n(pop 1)\n")
    text = "".join(body)
    outs = {
        "z3_4_8": _run_solver(["/usr/bin/z3", "-T:300"], text, ".smt2"),
        "cvc5": _run_solver(["/usr/bin/cvc5", "--incremental", "--tlimit-per=20000"], "(set-logic ALL)\n" + text, ".smt2"),
    }
    stats.xcheck_queries += len(qs)
    for name, out in outs.items():
        ans = [l.strip() for l in out.splitlines() if l.strip() in ("sat", "unsat", "unknown") or l.startswith("(error")]
        if len(ans) != len(qs) or any(a.startswith("(error") for a in ans):
            # cannot align answers with queries: everything from this solver is 'unknown'
            stats.xcheck_unknown += len(qs)
            continue
        for (label, t), a in zip(qs, ans):
            if a == "unsat":
                setattr(stats, f"xcheck_agree_{name}", getattr(stats, f"xcheck_agree_{name}") + 1)
            elif a == "sat":
                stats.xcheck_disagree += 1
                XCHECK_DISAGREEMENTS.append(f"{name} answers sat where z3-{z3.get_version_string()} answered unsat: {label}")
            else:
                stats.xcheck_unknown += 1


def note(x):
    cur().notes.append(x)


def model_of_path():
    return cur().model()


def evaluate(x, model):
    """Evaluate a proxy under a {name: value} model (for witness comparison)."""
    if not is_sym(x):
        return x
    p = cur()
    subs = []
    for name, v in p.vars.items():
        if name in model:
            val = model[name]
            if z3.is_bool(v):
                subs.append((v, z3.BoolVal(bool(val))))
            elif z3.is_int(v):
                subs.append((v, z3.IntVal(int(val))))
            else:
                subs.append((v, z3.RealVal(val)))
    return _pyval(z3.simplify(z3.substitute(x.t, *subs)))


# --------------------------------------------------------------------------------------
class Result:
    def __init__(self):
        self.stats = Stats()
        self.status = "ok"  # ok | violation | inconclusive
        self.cex = []  # list of dicts(label, model, extra)
        self.reason = None
        self.samples = []
        self.witnesses = []

    def merge(self, other):
        self.stats.add(other.stats)
        self.cex.extend(other.cex)
        self.samples.extend(other.samples[: max(0, 3 - len(self.samples))])
        self.witnesses.extend(other.witnesses)
        if other.status == "violation" or self.status == "violation":
            self.status = "violation" if "violation" in (self.status, other.status) else self.status
        if other.status == "inconclusive" and self.status == "ok":
            self.status = "inconclusive"
            self.reason = other.reason
        if self.status == "violation" and other.status == "inconclusive" and not self.reason:
            self.reason = other.reason


def explore(fn, max_paths=200000, timeout_ms=60000, stop_on_cex=True, want_witness=0, on_path=None,
            max_cex=1, known_prefixes=()):
    """Run fn() under every feasible branch decision sequence (DFS).

    fn's normal return value (if not None) is recorded as a sample for the first few paths.
    Exhaustive or inconclusive: there is no time-based early pass.
    """
    global _CUR
    res = Result()
    work = [((), None)]
    while work:
        prefix, pmodel = work.pop()
        if res.stats.paths + res.stats.aborted >= max_paths:
            res.status = "inconclusive" if res.status == "ok" else res.status
            res.reason = f"path budget {max_paths} exceeded"
            break
        p = Path(prefix, res.stats, timeout_ms, pmodel)
        _CUR = p
        proved0 = res.stats.proved
        try:
            out = fn()
            if p.dirty and p.check() != z3.sat:
                raise PathAbort("assumptions infeasible")
            res.stats.paths += 1
            if res.stats.proved > proved0:
                res.stats.nontrivial += 1
            res.stats.max_depth = max(res.stats.max_depth, len(p.decisions))
            if want_witness and len(res.witnesses) < want_witness:
                m = p.model()
                if m is not None:
                    res.witnesses.append({"model": m, "out": out, "notes": list(p.notes)})
            if out is not None and len(res.samples) < 3:
                res.samples.append({"model": p.model(), "out": _jsonable(out)})
            if on_path is not None:
                on_path(p, out)
        except PathAbort:
            res.stats.aborted += 1
        except ProofFailed as e:
            res.stats.paths += 1
            res.status = "violation"
            kp = next((k for k in known_prefixes if str(e.label).startswith(k)), None)
            is_known = kp is not None
            if is_known:
                # a listed finding: keep two examples of each, keep exploring so that other violations are still seen
                if sum(1 for c in res.cex if c.get("known") == kp) < 2:
                    res.cex.append({"label": e.label, "model": e.model, "extra": _jsonable(e.extra), "known": kp})
            else:
                res.cex.append({"label": e.label, "model": e.model, "extra": _jsonable(e.extra)})
            if stop_on_cex or sum(1 for c in res.cex if not c.get("known")) >= max_cex:
                work.extend(p.pending)
                break
        except Exception as e:
            # the real code (or the harness) raised something no obligation anticipated: a counterexample candidate,
            # confirmed only if the native replay raises the same exception type
            import traceback as _tb

            res.stats.paths += 1
            res.status = "violation"
            where = _tb.extract_tb(e.__traceback__)[-1]
            label = f"unexpected:{type(e).__name__}: {str(e)[:90]} @ {where.filename.split('/')[-1]}:{where.lineno}"
            if sum(1 for c in res.cex if not c.get("known")) < max_cex:
                res.cex.append({"label": label, "model": p.model() or {}, "extra": None})
            if stop_on_cex or sum(1 for c in res.cex if not c.get("known")) >= max_cex:
                work.extend(p.pending)
                break
        except (Unsupported, Budget) as e:
            res.status = "inconclusive" if res.status == "ok" else res.status
            res.reason = f"{type(e).__name__}: {e}"
            _CUR = None
            break
        finally:
            _CUR = None
        work.extend(p.pending)
    xcheck_flush(res.stats)
    if XCHECK_DISAGREEMENTS:
        res.status = "inconclusive" if res.status == "ok" else res.status
        res.reason = "solver disagreement: " + "; ".join(XCHECK_DISAGREEMENTS[:3])
        del XCHECK_DISAGREEMENTS[:]
    return res


def nested_explore(fn, **kw):
    """explore(fn) from inside a running path (the outer path is suspended and resumed afterwards)."""
    global _CUR
    saved = _CUR
    try:
        return explore(fn, **kw)
    finally:
        _CUR = saved


def _jsonable(x):
    if x is None or isinstance(x, (str, bool, int, float)):
        return x
    if is_sym(x):
        return "<sym>"
    if isinstance(x, (np.integer,)):
        return int(x)
    if isinstance(x, (np.floating,)):
        return float(x)
    if isinstance(x, dict):
        return {str(k): _jsonable(v) for k, v in x.items()}
    if isinstance(x, (list, tuple, np.ndarray)):
        return [_jsonable(v) for v in x]
    return repr(x)
