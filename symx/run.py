"""Runner: spreads a property's obligations over the cores, replays counterexamples on the
native (compiled, unshimmed) code, classifies them against known_findings.json, writes evidence.

Exit codes: 0 holds within bounds (possibly KNOWN-FINDING lines); 1 VIOLATION (replayed);
2 inconclusive / harness error.
"""
import argparse
import hashlib
import importlib
import json
import os
import subprocess
import sys
import time
import traceback
from concurrent.futures import ProcessPoolExecutor, as_completed

ROOT = os.path.dirname(os.path.dirname(os.path.abspath(__file__)))
PY = os.path.join(ROOT, ".venv", "bin", "python")


class Ob:
    """One obligation family: `sym(**params)` is run under symx.explore for each params dict.

    native(params, model) -> dict(ok=bool, detail=str) runs the same statement on concrete
    inputs built from a solver model, against the native strax code (used for counterexample
    replay and for witness validation).
    """

    def __init__(self, name, sym, grid, native=None, doc="", max_paths=200000, witnesses=2,
                 setup=None, expect_cex=False, funcs=()):
        self.name = name
        self.sym = sym
        self.grid = grid  # callable tier -> list of params dicts
        self.native = native
        self.doc = doc
        self.max_paths = max_paths
        self.witnesses = witnesses
        self.setup = setup
        self.expect_cex = expect_cex  # reachability twin: a counterexample MUST be found
        self.funcs = funcs


def _load(prop):
    sys.path.insert(0, ROOT)
    return importlib.import_module(f"harness.{prop}")


def _worker(prop, ob_name, params, tier):
    os.environ["NUMBA_DISABLE_JIT"] = "1"
    import faulthandler

    faulthandler.enable()
    t0 = time.time()
    from symx import core

    mod = _load(prop)
    ob = {o.name: o for o in mod.OBLIGATIONS}[ob_name]
    inj = None
    try:
        if ob.setup:
            inj = ob.setup()
        res = core.explore(
            lambda: ob.sym(**params),
            max_paths=ob.max_paths,
            stop_on_cex=False,
            want_witness=ob.witnesses,
            max_cex=8,
            known_prefixes=tuple(k["match"].get("label_prefix", "\0") for k in load_known(prop)
                                 if k.get("status") == "known" and k["match"].get("ob", ob_name) == ob_name),
        )
        out = {
            "ob": ob_name,
            "params": params,
            "status": res.status,
            "reason": res.reason,
            "stats": res.stats.as_dict(),
            "cex": res.cex,
            "samples": res.samples,
            "witnesses": [core._jsonable(w) for w in res.witnesses],
            "wall": time.time() - t0,
        }
    except BaseException as e:  # harness error
        out = {
            "ob": ob_name,
            "params": params,
            "status": "error",
            "reason": "".join(traceback.format_exception(type(e), e, e.__traceback__))[-3000:],
            "stats": {},
            "cex": [],
            "samples": [],
            "witnesses": [],
            "wall": time.time() - t0,
        }
    finally:
        if inj is not None:
            inj.restore()
    return out


_NATIVE_CODE = (
    "import json,sys,os,warnings\n"
    "warnings.simplefilter('ignore')\n"
    "sys.path.insert(0, %r)\n"
    "from symx.run import _load\n"
    "jobs=json.loads(sys.stdin.read())\n"
    "res=[]\n"
    "for job in jobs:\n"
    "    mod=_load(job['prop'])\n"
    "    ob={o.name:o for o in mod.OBLIGATIONS}[job['ob']]\n"
    "    out=[]\n"
    "    for m in job['models']:\n"
    "        try:\n"
    "            r=ob.native(job['params'], m)\n"
    "        except Exception as e:\n"
    "            import traceback; r={'ok':None,'raised':type(e).__name__,'detail':'native run raised: '+traceback.format_exc()[-1500:]}\n"
    "        out.append(r)\n"
    "    res.append(out)\n"
    "print('@@RESULT@@'+json.dumps(res, default=str))\n"
) % ROOT


def _native_proc(jobs, timeout=900):
    env = dict(os.environ)
    env.pop("NUMBA_DISABLE_JIT", None)
    alt = os.environ.get("VERIF_STRAX_ROOT")
    env["PYTHONPATH"] = (alt + os.pathsep + ROOT) if alt else ROOT
    # a private numba cache per native interpreter: concurrent writers to one on-disk cache were seen to hand a process
    # the wrong compiled specialisation (a replay disagreed with the same call made alone)
    import shutil
    import tempfile

    cdir = tempfile.mkdtemp(prefix="verif_numba_")
    env["NUMBA_CACHE_DIR"] = cdir
    try:
        p = subprocess.run([PY, "-c", _NATIVE_CODE], input=json.dumps(jobs, default=str), capture_output=True,
                           text=True, env=env, timeout=timeout, cwd=ROOT)
    finally:
        shutil.rmtree(cdir, ignore_errors=True)
    for line in p.stdout.splitlines():
        if line.startswith("@@RESULT@@"):
            return json.loads(line[len("@@RESULT@@"):])
    raise RuntimeError(f"native replay failed: {p.stdout[-2000:]} {p.stderr[-2000:]}")


def native_batch(prop, jobs, nproc=4):
    """jobs: list of (ob_name, params, [models]) -> list of [result per model] (native, compiled code)."""
    if not jobs:
        return []
    from concurrent.futures import ThreadPoolExecutor

    js = [{"prop": prop, "ob": o, "params": p, "models": m} for o, p, m in jobs]
    nproc = max(1, min(nproc, len(js)))
    shares = [js[i::nproc] for i in range(nproc)]
    def safe(share):
        """one interpreter for the whole share; if that fails (a replay hangs or the interpreter dies - a broken
        mailbox can deadlock real threads), replay the share's jobs one by one under a shorter limit so that the
        others still yield their verdicts"""
        try:
            return _native_proc(share)
        except Exception:  # noqa  (timeout / crashed interpreter)
            out = []
            for j in share:
                try:
                    out.append(_native_proc([j], timeout=300)[0])
                except Exception as e:  # noqa
                    out.append([{"ok": None, "detail": f"native replay did not finish: {type(e).__name__}"}
                                for _ in (j["models"] or [None])])
            return out

    with ThreadPoolExecutor(nproc) as tp:
        outs = list(tp.map(safe, shares))
    res = [None] * len(js)
    for i, share in enumerate(outs):
        for k, o in enumerate(share):
            res[i + k * nproc] = o
    return res


def _native_call(prop, ob_name, params, models):
    return native_batch(prop, [(ob_name, params, models)], 1)[0]


def write_replay(prop, ob_name, params, cex):
    os.makedirs(os.path.join(ROOT, "replays"), exist_ok=True)
    blob = json.dumps({"prop": prop, "ob": ob_name, "params": params, "label": cex["label"],
                       "model": cex["model"]}, sort_keys=True, default=str)
    h = hashlib.sha1(blob.encode()).hexdigest()[:12]
    path = os.path.join(ROOT, "replays", f"{prop}_{ob_name}_{h}.py")
    with open(path, "w") as f:
        f.write(
            "#!/verif/.venv/bin/python\n"
            '"""Counterexample replay against the native (compiled, unshimmed) strax code.\n'
            f"property={prop} obligation={ob_name} label={cex['label']}\n"
            'Exit 1 if the violation reproduces, 0 if not."""\n'
            "import json, os, sys\n"
            "os.environ.pop('NUMBA_DISABLE_JIT', None)\n"
            "sys.path.insert(0, '/verif')\n"
            f"CASE = json.loads(r'''{blob}''')\n"
            "from symx.run import _load\n"
            "mod = _load(CASE['prop'])\n"
            "ob = {o.name: o for o in mod.OBLIGATIONS}[CASE['ob']]\n"
            "r = ob.native(CASE['params'], CASE['model'])\n"
            "print(json.dumps(r, default=str, indent=1))\n"
            "sys.exit(0 if r.get('ok') else 1)\n"
        )
    os.chmod(path, 0o755)
    return path


def load_known(prop):
    p = os.path.join(ROOT, "known_findings.json")
    if not os.path.exists(p):
        return []
    with open(p) as f:
        return [k for k in json.load(f)["findings"] if k["property"] == prop]


def main(argv=None):
    ap = argparse.ArgumentParser()
    ap.add_argument("prop")
    ap.add_argument("--tier", default=os.environ.get("VERIF_TIER", "quick"))
    ap.add_argument("--replay")
    ap.add_argument("--only", help="comma-separated obligation names")
    ap.add_argument("--jobs", type=int, default=int(os.environ.get("VERIF_JOBS", "8")))
    ap.add_argument("--no-evidence", action="store_true")
    ap.add_argument("--list", action="store_true")
    args = ap.parse_args(argv)
    prop = args.prop
    tier = args.tier if args.tier in ("quick", "thorough") else "quick"
    seed = int(os.environ.get("VERIF_SEED", "0") or 0)

    if args.replay:
        r = subprocess.run([PY, args.replay])
        return r.returncode

    t0 = time.time()
    os.environ["NUMBA_DISABLE_JIT"] = "1"
    # second-solver cross-check of sampled unsat verdicts (symx.core.xcheck_flush): sparse on every change, denser in
    # the thorough tier
    os.environ.setdefault("VERIF_XCHECK_EVERY", "250" if tier == "quick" else "40")
    mod = _load(prop)
    if hasattr(mod, "main"):
        return mod.main(tier=tier, seed=seed, args=args)

    jobs = []
    for ob in mod.OBLIGATIONS:
        if args.only and ob.name not in args.only.split(","):
            continue
        for params in ob.grid(tier):
            jobs.append((ob.name, params))
    if args.list:
        for j in jobs:
            print(j)
        return 0
    obs = {o.name: o for o in mod.OBLIGATIONS}

    results = []
    limit = getattr(mod, "WALL_LIMIT", {"quick": 1500, "thorough": 4 * 3600})[tier]
    with ProcessPoolExecutor(max_workers=args.jobs) as ex:
        futs = {ex.submit(_worker, prop, n, p, tier): (n, p) for n, p in jobs}
        try:
            for f in as_completed(futs, timeout=limit):
                results.append(f.result())
        except Exception as e:  # timeout / broken pool
            for f in futs:
                f.cancel()
            print(f"INCONCLUSIVE property={prop} watchdog/pool failure: {e!r}")
            for pr in list(getattr(ex, "_processes", {}).values()):
                try:
                    pr.kill()
                except Exception:
                    pass
            _evidence(prop, tier, seed, mod, results, [], [], [], time.time() - t0, args,
                      inconclusive=[f"watchdog: {e!r}"])
            return 2

    return finish(prop, tier, seed, mod, obs, results, t0, args)


def finish(prop, tier, seed, mod, obs, results, t0, args):
    known = load_known(prop)
    violations, known_hits, inconcl, twin_fail = [], [], [], []
    validated = 0
    # ---- classify
    for r in results:
        ob = obs[r["ob"]]
        if r["status"] in ("error", "inconclusive"):
            inconcl.append(f"{r['ob']} {r['params']}: {r['status']}: {r['reason']}")
            continue
        if ob.expect_cex:
            if not r["cex"]:
                twin_fail.append(f"{r['ob']} {r['params']}: reachability twin found no counterexample")
            continue
        if r["stats"].get("paths", 0) == 0:
            inconcl.append(f"{r['ob']} {r['params']}: vacuous (0 completed paths)")
    # ---- native runs (witnesses and counterexamples), batched over a few fresh interpreters
    wit_jobs, cex_jobs = [], []
    for r in results:
        ob = obs[r["ob"]]
        if ob.expect_cex or r["status"] in ("error",):
            continue
        if ob.native is not None and r["witnesses"]:
            models = [w["model"] for w in r["witnesses"] if w.get("model") is not None]
            if models:
                wit_jobs.append((r["ob"], r["params"], models))
        for c in r["cex"]:
            if ob.native is None:
                inconcl.append(f"{r['ob']}:{c['label']}: counterexample without native replay: {c['model']}")
            else:
                cex_jobs.append((r["ob"], r["params"], [c["model"]], c))
    try:
        outs = native_batch(prop, wit_jobs + [j[:3] for j in cex_jobs])
    except Exception as e:
        inconcl.append(f"native replay batch failed: {e}")
        outs = [[{"ok": None, "detail": "batch failed"}] * len(j[2]) for j in wit_jobs + cex_jobs]
    for (obn, params, models), out in zip(wit_jobs, outs[: len(wit_jobs)]):
        for w, o in zip(models, out):
            if o.get("ok") is True:
                validated += 1
            elif o.get("ok") is False:
                # The native (compiled, unshimmed) code violates the plainly stated property on an input that satisfies
                # every assumption of the path.  That is a concrete, replayed counterexample - reported as such even
                # though the symbolic run did not predict it (e.g. IEEE rounding, which the engine does not model).
                c = {"label": "native-witness:" + str(o.get("label") or o.get("detail"))[:120], "model": w}
                k = next((k for k in known if k.get("status") == "known" and _matches(k, obn, c["label"], params)), None)
                validated += 1
                if k is not None and k.get("status") == "known":
                    known_hits.append((k, f"{obn}:{c['label']}", c, params))
                else:
                    path = write_replay(prop, obn, params, c)
                    violations.append((f"{obn}:{c['label']}", c, params, path,
                                       str(o.get("detail")) + " [found by native witness replay; not predicted symbolically]"))
            else:
                inconcl.append(f"{obn} {params}: {o.get('detail')}")
    for (obn, params, models, c), out in zip(cex_jobs, outs[len(wit_jobs):]):
        o = out[0]
        sig = f"{obn}:{c['label']}"
        if str(c["label"]).startswith("unexpected:") and o.get("raised") and \
                str(c["label"]).startswith("unexpected:" + o["raised"]):
            o = dict(o, ok=False)  # the native code raises the same unanticipated exception: reproduced
        k = next((k for k in known if k.get("status") == "known" and _matches(k, obn, c["label"], params)), None)
        if o.get("ok") is False:
            validated += 1
            if k is not None and k.get("status") == "known":
                known_hits.append((k, sig, c, params))
            else:
                path = write_replay(prop, obn, params, c)
                violations.append((sig, c, params, path, o.get("detail")))
        else:
            inconcl.append(f"{sig}: counterexample {c['model']} params={params} did not "
                           f"reproduce natively ({o.get('detail')}) -> engine/stub/oracle bug")
    seen = set()
    for k, sig, c, params in known_hits:
        if k["id"] in seen:
            continue
        seen.add(k["id"])
        print(f"KNOWN-FINDING: property={prop} {k['id']} {k['what']}")
        if os.environ.get("VERIF_VERBOSE"):
            for k2, sig2, c2, params2 in known_hits:
                if k2["id"] == k["id"]:
                    print(f"  known-hit {sig2} params={params2} model={c2['model']}")
    shown = set()
    for sig, c, params, path, detail in violations:
        if sig in shown:
            continue
        shown.add(sig)
        print(f"VIOLATION property={prop} replay={path}")
        print(f"  obligation={sig} params={params} model={c['model']} native={detail}")
    for m in inconcl + twin_fail:
        print(f"INCONCLUSIVE property={prop} {m}"[:3000])
    wall = time.time() - t0
    if not args.no_evidence:
        _evidence(prop, tier, seed, mod, results, violations, known_hits, inconcl + twin_fail,
                  wall, args, validated=validated)
    tot = _tot(results)
    print(f"{prop} tier={tier}: {len(results)} configurations, {tot.get('paths', 0)} paths, "
          f"{tot.get('proved', 0)} obligations discharged ({tot.get('unsat', 0)} unsat), "
          f"{tot.get('solver_calls', 0)} solver calls {tot.get('solver_s', 0):.1f}s, "
          f"{validated} native replays, wall {wall:.1f}s"
          + (f"; cross-check of {tot['xcheck_queries']} sampled unsat verdicts: z3-4.8.12 confirms "
             f"{tot.get('xcheck_agree_z3_4_8', 0)}, cvc5 confirms {tot.get('xcheck_agree_cvc5', 0)}, unknown "
             f"{tot.get('xcheck_unknown', 0)}, disagree {tot.get('xcheck_disagree', 0)}" if tot.get("xcheck_queries") else ""))
    if violations:
        return 1
    if inconcl or twin_fail:
        return 2
    return 0


def _matches(k, ob_name, label, params=None):
    m = k.get("match", {})
    for pk, pv in m.get("params", {}).items():
        if params is None or params.get(pk) != pv:
            return False
    if "ob" in m and m["ob"] != ob_name:
        return False
    if "label_prefix" in m and not str(label).startswith(m["label_prefix"]):
        return False
    if "label" in m and m["label"] != label:
        return False
    return True


def _tot(results):
    tot = {}
    for r in results:
        for k, v in r.get("stats", {}).items():
            if k == "max_depth":
                tot[k] = max(tot.get(k, 0), v)
            else:
                tot[k] = tot.get(k, 0) + v
    return tot


def _evidence(prop, tier, seed, mod, results, violations, known_hits, inconcl, wall, args,
              validated=0, inconclusive=None):
    tot = _tot(results)
    samples = []
    for r in results:
        for s in r.get("samples", [])[:1]:
            if len(samples) < 6:
                samples.append({"obligation": r["ob"], "params": r["params"], **s})
    if not samples:
        samples = [{"obligation": r["ob"], "params": r["params"], "paths": r.get("stats", {}).get("paths")}
                   for r in results[:3]] or [{"note": "no configuration completed"}]
    per_ob = {}
    for r in results:
        d = per_ob.setdefault(r["ob"], {"configs": 0, "paths": 0, "proved": 0, "solver_s": 0.0, "wall_s": 0.0})
        d["configs"] += 1
        d["paths"] += r.get("stats", {}).get("paths", 0)
        d["proved"] += r.get("stats", {}).get("proved", 0)
        d["solver_s"] = round(d["solver_s"] + r.get("stats", {}).get("solver_s", 0.0), 2)
        d["wall_s"] = round(d["wall_s"] + r.get("wall", 0.0), 2)
    funcs = sorted({f for o in mod.OBLIGATIONS for f in o.funcs} | set(getattr(mod, "FUNCTIONS", [])))
    ev = {
        "property_id": prop,
        "tier": tier,
        "seed": seed,
        "level": getattr(mod, "LEVEL", "model_checking"),
        "coverage": {
            "evaluations": max(1, tot.get("paths", 0)),
            "distinct_nontrivial": tot.get("nontrivial", 0),
            "states": max(1, tot.get("paths", 0)),
            "transitions": max(1, tot.get("branches", 0)),
            "traces_validated_against_impl": validated,
            "samples": samples,
            "rule": "evaluation = one completed path (distinct by construction: each has its own branch-decision "
                    "sequence); non-trivial = at least one obligation was discharged on it; state = one completed symbolic path (a region of the input space on which the real "
                    "code takes the same branches); transition = a branch decided by z3; every "
                    "obligation is discharged by an unsat verdict over ALL integer values on that path",
            "exhaustive": not inconcl and not inconclusive,
            "functions_encoded": funcs,
            "bounds": getattr(mod, "BOUNDS", {}).get(tier, ""),
            "configurations": len(results),
            "obligation_queries": tot.get("proved", 0),
            "obligation_queries_unsat": tot.get("unsat", 0),
            "solver_calls": tot.get("solver_calls", 0),
            "solver_s": round(tot.get("solver_s", 0.0), 2),
            "solver": "z3 " + _z3v(),
            "solver_crosscheck": {
                "what": "every n-th obligation answered 'unsat' by the z3 wheel (plus the first five of each worker) is "
                        "written out as SMT-LIB2 and re-decided by the system z3 4.8.12 and cvc5 1.0.3 binaries; a 'sat' "
                        "answer makes the run inconclusive; unknown / timeout / parse errors are counted, not trusted",
                "every_nth": int(os.environ.get("VERIF_XCHECK_EVERY", "0") or 0),
                "queries": tot.get("xcheck_queries", 0),
                "unsat_confirmed_by_z3_4_8_12": tot.get("xcheck_agree_z3_4_8", 0),
                "unsat_confirmed_by_cvc5_1_0_3": tot.get("xcheck_agree_cvc5", 0),
                "unknown_or_unparsed": tot.get("xcheck_unknown", 0),
                "disagreements": tot.get("xcheck_disagree", 0),
            },
            "aborted_paths": tot.get("aborted", 0),
            "per_obligation": per_ob,
            "reachability_twins": sorted(o.name for o in mod.OBLIGATIONS if o.expect_cex),
            "known_findings_reproduced": sorted({k["id"] for k, *_ in known_hits}),
            "inconclusive": (inconcl or []) + (inconclusive or []),
            "outside_claim": getattr(mod, "OUTSIDE", []),
            "stubs": getattr(mod, "STUBS", []),
        },
        "assumptions": getattr(mod, "ASSUMPTIONS", []),
        "wall_s": round(wall, 2),
        "violations": len({v[0] for v in violations}),
    }
    os.makedirs(os.path.join(ROOT, "evidence"), exist_ok=True)
    with open(os.path.join(ROOT, "evidence", f"{prop}.json"), "w") as f:
        json.dump(ev, f, indent=1, default=str)


def _z3v():
    try:
        import z3

        return z3.get_version_string()
    except Exception:
        return "?"


if __name__ == "__main__":
    sys.exit(main())
