#!/verif/.venv/bin/python
"""Rewrite the numeric columns (paths / obligations, wall) of DESIGN.md section 0.3 from evidence/*.json."""
import json, os, re
ROOT = os.path.dirname(os.path.dirname(os.path.abspath(__file__)))
p = os.path.join(ROOT, "DESIGN.md")
s = open(p).read()
def k(n):
    return f"{n/1000:.1f}k" if n >= 1000 else str(n)
for i in range(1, 20):
    pid = f"C{i:02d}"
    ev = json.load(open(os.path.join(ROOT, "evidence", pid + ".json")))
    if ev["tier"] != "quick":
        continue
    c = ev["coverage"]
    cell = f"{k(c['evaluations'])} / {k(c['obligation_queries'])}"
    wall = f"{round(ev['wall_s'])} s"
    s = re.sub(rf"(\| {pid} \|[^\n]*\| )[^|\n]* \| [^|\n]* \|\n", lambda m: m.group(1) + cell + " | " + wall + " |\n", s, count=1)
open(p, "w").write(s)
