#!/usr/bin/env python3
"""Regenerates MANIFEST.json from the table below (kept valid at all times)."""
import json
import os

ROOT = os.path.dirname(os.path.dirname(os.path.abspath(__file__)))
BASELINE = ("cd /repo && /venv/bin/python -m pytest -ra -q -p no:cacheprovider --timeout=900 "
            "--continue-on-collection-errors")

NOTE = ("Trusted base: z3 (wheel) with sampled unsat verdicts re-decided by z3 4.8.12 and cvc5 1.0.3; the symx proxies/shims (validated on every run by replaying path witnesses on the "
        "compiled, unshimmed strax functions); CPython/numpy object-array semantics; int64 values assumed in "
        "[0,2^62) (no wrap-around). Verdicts hold for ALL integer values within the stated SIZE bounds; nothing is "
        "claimed beyond them.")

CLAIMED = {
    # id: (technique, level text, design ref)
    "C17": ("symbolic execution of the Python source of strax's njit interval kernels on z3-backed proxy arrays; "
            "per-path unsat verdicts against quadratic set definitions; witnesses replayed on compiled code; machine width of "
            "length*dt in strax.endtime decided per region by native replay of the path witnesses (proxies are mathematical "
            "integers); sort_by_time: int64 fit of the combined sort key proved at the call of the real kernel for a symbolic time "
            "range up to 2^63 and a symbolic channel count, field-width edges and tie stability by native witness replay, "
            "rejection of unsorted input also replayed in an interpreter started with -O; "
            "sampled unsat verdicts re-decided by z3 4.8.12 and cvc5 1.0.3",
            "Bounded model checking by per-path symbolic execution of the real functions: for every array size within "
            "the bound, every placement of the intervals on Z is covered by an explored path whose obligations z3 "
            "answers unsat. Right level because the kernels are integer comparison logic where the rare coincidences "
            "(shared endpoints, zero gaps) are single solver assignments.", "§6 C17"),
}

NOT_YET = {}


def main():
    props = [json.loads(l) for l in open(os.path.join(ROOT, "properties.jsonl"))]
    na_file = os.path.join(ROOT, "tools", "not_applicable.json")
    na = json.load(open(na_file)) if os.path.exists(na_file) else {}
    claimed_file = os.path.join(ROOT, "tools", "claimed.json")
    claimed = dict(CLAIMED)
    if os.path.exists(claimed_file):
        claimed.update({k: tuple(v) for k, v in json.load(open(claimed_file)).items()})
    checks, not_app = [], []
    for p in props:
        pid = p["id"]
        if pid in claimed and os.path.exists(os.path.join(ROOT, "harness", f"{pid}.py")):
            tech, text, ref = claimed[pid]
            level = "fault_enumeration" if pid == "C04" else "model_checking"
            checks.append({
                "property_id": pid,
                "quick_cmd": f"./check {pid} --tier quick",
                "thorough_cmd": f"./check {pid} --tier thorough",
                "evidence_file": f"/verif/evidence/{pid}.json",
                "replay_cmd_template": f"./check {pid} --replay {{path}}",
                "engine": "symx",
                "level_claimed": {"category": level, "text": text, "design_ref": f"DESIGN.md {ref}"},
                "level_note": NOTE,
                "technique": tech,
            })
        else:
            not_app.append({"property_id": pid,
                            "reason": na.get(pid, "check not built yet in this round (solver-based harness planned in "
                                                  "DESIGN.md §6; no other technique substituted)")})
    man = {
        "version": 1,
        "setup_cmd": "./setup.sh",
        "hooks": {
            "guard": "STRAX_VERIF",
            "enable": "none needed: all instrumentation is injected from the harness side into module globals; "
                      "NUMBA_DISABLE_JIT=1 is numba's own switch",
            "baseline_off_cmd": BASELINE,
            "source_commits": [],
            "add_only": True,
        },
        "engines": [
            {"name": "symx", "path": "/verif/symx",
             "serves_properties": [c["property_id"] for c in checks],
             "kind_free_text": "per-path symbolic execution of strax's real Python functions with z3-backed proxy values "
                               "(SymInt/SymBool/SymReal, object-dtype arrays, module-global shims); DFS over branch "
                               "decisions, obligations discharged by z3 unsat, counterexamples and path witnesses "
                               "replayed on the native compiled code"},
        ],
        "checks": checks,
        "not_applicable": not_app,
        "notes": "Exit codes: 0 holds within bounds (KNOWN-FINDING lines possible), 1 VIOLATION with replay, "
                 "2 inconclusive/harness error (never reported as success). See DESIGN.md.",
    }
    with open(os.path.join(ROOT, "MANIFEST.json"), "w") as f:
        json.dump(man, f, indent=1)
    try:
        import jsonschema

        jsonschema.validate(man, json.load(open("/root/.vp/MANIFEST.schema.json")))
        print("MANIFEST valid:", len(checks), "checks,", len(not_app), "not_applicable")
    except ImportError:
        print("written (jsonschema not available for validation)")


if __name__ == "__main__":
    main()
