#!/bin/sh
# tools/runall.sh [quick|thorough] -- run every registered check in sequence (writes evidence), print exit codes
TIER=${1:-quick}
cd "$(dirname "$0")/.." || exit 1
for p in C01 C02 C03 C04 C05 C06 C07 C08 C09 C10 C11 C12 C13 C14 C15 C16 C17 C18 C19; do
  s=$(date +%s)
  ./check $p --tier $TIER > /tmp/runall_$p.log 2>&1
  rc=$?
  echo "$p exit=$rc wall=$(( $(date +%s) - s ))s $(grep -c '^VIOLATION' /tmp/runall_$p.log) violations $(grep -c '^INCONCLUSIVE' /tmp/runall_$p.log) inconclusive $(grep -c '^KNOWN-FINDING' /tmp/runall_$p.log) known"
done
