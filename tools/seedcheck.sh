#!/bin/sh
# tools/seedcheck.sh <patch.diff> <Cxx> [more props]  -- apply a seeded change to /repo, run the checks, undo it.
P="$1"; shift
cd /repo || exit 2
git diff --quiet || { echo "/repo has uncommitted changes"; exit 2; }
git apply "$P" || { echo "patch does not apply"; exit 2; }
trap 'git -C /repo checkout -- . ' EXIT INT TERM
for c in "$@"; do
  echo "=== $c"
  (cd /verif && timeout 3000 ./check "$c" --no-evidence 2>&1 | grep -v "^  File\|^    " | cut -c1-400 | grep "VIOLATION\|obligation=\|INCONCLUSIVE\|KNOWN\|tier=" | head -8; )
done
