#!/bin/sh
# tools/seedcheck2.sh <patch.diff> <Cxx> [more props] -- like seedcheck.sh but on a scratch copy of /repo/strax
# (VERIF_STRAX_ROOT), for use while other jobs read /repo.
P="$1"; shift
D=$(mktemp -d /tmp/seedcopy_XXXX)
cp -r /repo/strax $D/strax && (cd $D && patch -p1 -s < "$P") || { echo "patch does not apply"; rm -rf $D; exit 2; }
for c in "$@"; do
  echo "=== $c"
  (cd /verif && VERIF_STRAX_ROOT=$D timeout 3000 ./check "$c" --no-evidence 2>&1 | grep -v "^  File\|^    " | cut -c1-400 | grep "VIOLATION\|obligation=\|INCONCLUSIVE\|KNOWN\|tier=" | head -8; )
done
rm -rf $D
