#!/bin/sh
# tools/seedsave.sh <id> <prop> <worktree> "<needs>" "<caught_by>"
ID="$1"; PROP="$2"; WT="$3"; NEEDS="$4"; CAUGHT="$5"
D=/verif/seeded/$ID; mkdir -p $D
cp $WT/patch_$PROP.diff $D/patch.diff; cp $WT/demo_$PROP.py $D/demo.py
python3 - "$ID" "$PROP" "$NEEDS" "$CAUGHT" <<'PY'
import json, sys, subprocess
i, prop, needs, caught = sys.argv[1:5]
json.dump({"id": i, "breaks_property": prop, "needs_to_manifest": needs,
           "verified": "demo exits non-zero with the change applied and 0 on the unmodified tree (checked in the agent's scratch worktree); patch applied to /repo with `git apply`, checks run, then `git checkout -- .`",
           "base_commit": subprocess.check_output(["git","-C","/repo","rev-parse","--short","HEAD"]).decode().strip(),
           "caught_by": caught}, open(f"/verif/seeded/{i}/meta.json", "w"), indent=1)
PY
git -C /repo worktree remove --force $WT && echo "removed $WT"
