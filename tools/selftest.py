#!/verif/.venv/bin/python
"""Teeth: apply small realistic source mutations to a scratch copy of strax (never /repo) and require the
property's check to report each as a VIOLATION.  Usage: tools/selftest.py C05 [C07 ...] [--tier quick]"""
import importlib
import json
import os
import shutil
import subprocess
import sys
import tempfile
import time

ROOT = os.path.dirname(os.path.dirname(os.path.abspath(__file__)))
sys.path.insert(0, ROOT)


def run_mutant(prop, mut, tier):
    scratch = tempfile.mkdtemp(prefix="verif_mut_")
    try:
        shutil.copytree("/repo/strax", os.path.join(scratch, "strax"),
                        ignore=shutil.ignore_patterns("__pycache__", "*.nbi", "*.nbc"))
        path = os.path.join(scratch, mut["file"])
        src = open(path).read()
        if src.count(mut["old"]) != 1:
            return {"name": mut["name"], "result": f"mutation site not unique/found ({src.count(mut['old'])})"}
        open(path, "w").write(src.replace(mut["old"], mut["new"]))
        env = dict(os.environ, VERIF_STRAX_ROOT=scratch)
        cmd = [os.path.join(ROOT, "check"), prop, "--tier", tier, "--no-evidence"]
        if mut.get("only"):
            cmd += ["--only", mut["only"]]
        t0 = time.time()
        p = subprocess.run(cmd, capture_output=True, text=True, env=env, timeout=3600)
        viol = [l for l in p.stdout.splitlines() if l.startswith("VIOLATION")]
        det = [l for l in p.stdout.splitlines() if l.startswith("  obligation=")]
        return {"name": mut["name"], "exit": p.returncode, "killed": p.returncode == 1 and bool(viol),
                "first": (det[0][:300] if det else (p.stdout[-300:] if p.returncode else "")),
                "wall_s": round(time.time() - t0, 1)}
    finally:
        shutil.rmtree(scratch, ignore_errors=True)


def main():
    args = [a for a in sys.argv[1:] if not a.startswith("--")]
    tier = "quick"
    if "--tier" in sys.argv:
        tier = sys.argv[sys.argv.index("--tier") + 1]
        args = [a for a in args if a != tier]
    os.makedirs(os.path.join(ROOT, "selftest"), exist_ok=True)
    rc = 0
    for prop in args:
        os.environ["NUMBA_DISABLE_JIT"] = "1"
        mod = importlib.import_module(f"harness.{prop}")
        muts = getattr(mod, "MUTANTS", [])
        from concurrent.futures import ThreadPoolExecutor

        with ThreadPoolExecutor(max(1, min(4, len(muts)))) as tp:
            res = list(tp.map(lambda m: run_mutant(prop, m, tier), muts))
        killed = sum(1 for r in res if r.get("killed"))
        json.dump({"property": prop, "tier": tier, "mutants": len(muts), "killed": killed, "results": res},
                  open(os.path.join(ROOT, "selftest", f"{prop}.json"), "w"), indent=1)
        print(f"{prop}: {killed}/{len(muts)} mutants killed")
        for r in res:
            print("  ", "KILLED " if r.get("killed") else "MISSED ", r["name"], "|", r.get("first", r.get("result", ""))[:160])
        if killed != len(muts):
            rc = 1
    return rc


if __name__ == "__main__":
    sys.exit(main())
