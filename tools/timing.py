#!/verif/.venv/bin/python
"""Per-configuration wall time of a property's obligations (sequential listing from a --no-evidence run log)."""
import json, os, sys, time
sys.path.insert(0, os.path.dirname(os.path.dirname(os.path.abspath(__file__))))
os.environ["NUMBA_DISABLE_JIT"] = "1"
from concurrent.futures import ProcessPoolExecutor
from symx import run
prop, tier = sys.argv[1], (sys.argv[2] if len(sys.argv) > 2 else "quick")
mod = run._load(prop)
jobs = [(o.name, p) for o in mod.OBLIGATIONS for p in o.grid(tier)]
with ProcessPoolExecutor(16) as ex:
    res = list(ex.map(run._worker, [prop] * len(jobs), [j[0] for j in jobs], [j[1] for j in jobs], [tier] * len(jobs)))
for r in sorted(res, key=lambda r: -r["wall"])[:12]:
    print(round(r["wall"], 1), r["status"], r["stats"].get("paths"), r["ob"], r["params"])
